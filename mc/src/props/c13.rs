// C13 — tags never change what a value does.
//
// Part A (exhaustive product, differential): for every run-time word of the running interpreter's
//   dictionary (taken from `verif_dump`, so a new word is swept automatically) except the visible
//   exclusion lists below, for every argument tuple of length 0..=3 over a typed core alphabet,
//   for every non-empty subset of tagged argument positions x every tag map of the tag-map alphabet
//   (empty map, {k:v}, tags-on-tags, the `#fmt` formatting tag), and for tags pushed one level down
//   (tagged elements inside a vector / map argument): run the word on the untagged tuple and on the
//   tagged tuple (fresh clone each, sentinel below the arguments, stdout and binary output
//   intercepted, instruction limit set) and compare: same Ok/Err class and error kind, results and
//   the binary-parser variables equal under the language's equality, same stdout; provenance rule:
//   a tagged value may appear in the result only if an identical tagged value was (inside) an argument.
//   The same differential is run on a few templates that give run-time arguments to compile-time
//   constructs (foreach/I, do/I, if, case/of, var and !, local, let).
// Part B (operation sequences, reference model): with-tags / insert-tag / remove-tag / get-tag / tags
//   and the `^{ ^}` literal against a map-attached-to-value model.
//
// Keys (arg<N> = N-th argument counted from the TOP of the stack, arg1 = top; this is independent of how
// many extra values lie below the word's own arguments):
//   tag-sensitive:<word>:arg<N>           the word behaves differently when that argument carries tags
//   tag-sensitive:<word>:arg<N>:fmt       ... only when the tag is the `#fmt` formatting tag
//   tag-sensitive:<word>:arg<N>:nested    ... when elements inside that collection argument carry tags
//   tag-sensitive:<word>:arg<N>+arg<M>    only the combination fails
//   tag-leak:<word>                       a result carries a tag that no argument carried (computed results must be bare)
//   fresh-tag:<word>                      the word produces a tagged value from untagged arguments (binary read words exempt)
//   tag-word:<word>:<observer>            a tag word disagrees with the map-attached-to-value model
//   tag-map-key-collision                 a tag-map lookup confuses keys of different types (the C12 map defect seen through tags)
//   panic:<word>
use crate::common::*;
use std::collections::{BTreeMap, BTreeSet};
use std::sync::Mutex;
use xeh::prelude::*;

const INSN_LIMIT: usize = 5_000;
const SENTINEL: &str = "<c13-bottom>";

const TAG_WORDS: &[&str] = &["tags", "with-tags", "insert-tag", "remove-tag", "get-tag", "^{", "^}"];
const FMT_WORDS: &[&str] = &["^hex", "^dec", "^oct", "^bin", "fmt/prefix", "fmt/tags", "fmt/upcase"];
const EXTERNAL_WORDS: &[&str] = &["random", "random-bits", "read-all", "write-all", "exec-piped", "include", "require", "exit", "see", ".s"];
/// words that honour the `#fmt` tag by documented design: the `#fmt` tag map is withheld from them
const FMT_HONOURING: &[&str] = &["print", "println", "concat", "join", "str>number"];
const VARS_OBSERVED: &[&str] = &["offset", "big?", "input", "output", "output-length"];

// ------------------------------------------------------------------ values with a source text
#[derive(Clone)]
enum Shape {
    Atom,
    Vec(Vec<Val>),
    Map(Vec<(Val, Val)>), // (key, value)
}

#[derive(Clone)]
struct Val {
    src: String,
    cell: Cell,
    shape: Shape,
}

fn atom(src: &str, cell: Cell) -> Val {
    Val { src: src.to_string(), cell, shape: Shape::Atom }
}
fn vecv(items: Vec<Val>) -> Val {
    let mut v = Xvec::new();
    let mut s = String::from("[ ");
    for x in &items {
        v.push_back_mut(x.cell.clone());
        s.push_str(&x.src);
        s.push(' ');
    }
    s.push(']');
    Val { src: s, cell: Cell::Vector(v), shape: Shape::Vec(items) }
}
fn mapv(items: Vec<(Val, Val)>) -> Val {
    let mut m = Xmap::new();
    let mut s = String::from("{ ");
    for (k, v) in &items {
        m.insert_mut(k.cell.clone(), v.cell.clone());
        s.push_str(&v.src);
        s.push(' ');
        s.push_str(&k.src);
        s.push(' ');
    }
    s.push('}');
    Val { src: s, cell: Cell::Map(m), shape: Shape::Map(items) }
}
fn int(i: i128) -> Val {
    atom(&i.to_string(), Cell::Int(i))
}
fn strv(s: &str) -> Val {
    atom(&format!("{:?}", s), Cell::from(s))
}

#[derive(Clone)]
struct TagMap {
    name: &'static str,
    src: String,
    map: Xmap,
    is_fmt: bool,
}

fn tag_maps() -> Vec<TagMap> {
    let mk = |name, items: Vec<(Val, Val)>, is_fmt| {
        let mut m = Xmap::new();
        let mut s = String::from("^{ ");
        for (k, v) in &items {
            m.insert_mut(k.cell.clone(), v.cell.clone());
            s.push_str(&v.src);
            s.push(' ');
            s.push_str(&k.src);
            s.push(' ');
        }
        s.push_str("^}");
        TagMap { name, src: s, map: m, is_fmt }
    };
    let inner1 = mk("x", vec![(strv("x"), int(1))], false);
    let inner2 = mk("y", vec![(strv("y"), int(2))], false);
    vec![
        mk("empty", vec![], false),
        mk("k:v", vec![(strv("k"), strv("v"))], false),
        mk("tags-on-tags", vec![(tagged(&strv("k"), &inner2), tagged(&strv("v"), &inner1))], false),
        // 272 = base 16 with prefix: the value `^hex` attaches
        mk("#fmt", vec![(strv("#fmt"), int(272))], true),
    ]
}

fn tagged(v: &Val, t: &TagMap) -> Val {
    Val { src: format!("{} {}", v.src, t.src), cell: v.cell.with_tags(t.map.clone()), shape: v.shape.clone() }
}

/// tags pushed one level down: every element (key and value for maps) tagged, the collection itself bare
fn nested(v: &Val, t: &TagMap) -> Option<Val> {
    match &v.shape {
        Shape::Atom => None,
        Shape::Vec(items) if items.is_empty() => None,
        Shape::Map(items) if items.is_empty() => None,
        Shape::Vec(items) => Some(vecv(items.iter().map(|x| tagged(x, t)).collect())),
        Shape::Map(items) => Some(mapv(items.iter().map(|(k, x)| (tagged(k, t), tagged(x, t))).collect())),
    }
}

fn alphabet(quick: bool, seed: u64) -> Vec<Val> {
    let mut a = vec![
        atom("nil", Cell::Nil),
        atom("true", Cell::Flag(true)),
        int(0),
        int(1),
        int(8),
        int(32),
        atom("2.5", Cell::Real(2.5)),
        // a value that is not equal to itself
        atom("0.0 0.0 rem", Cell::Real({
            // the bits the division itself produces (not the constant f64::NAN, whose sign may differ)
            let z = std::hint::black_box(0.0f64);
            z % z
        })),
        strv("10"),
        atom("|4142|", Cell::Bitstr(Xbitstr::from(vec![0x41u8, 0x42]))),
        vecv(vec![int(2), int(1)]),
        vecv(vec![strv("a"), strv("b")]),
        mapv(vec![(strv("10"), int(7))]),
    ];
    if !quick {
        a.push(int(-1));
        a.push(strv(""));
        a.push(vecv(vec![strv("a"), vecv(vec![strv("b")])]));
        a.push(vecv(vec![]));
    }
    if seed != 0 {
        a.push(int(2 + (mix(seed, 13) % 30) as i128));
    }
    a
}

// ------------------------------------------------------------------ dictionary
#[derive(Clone, Debug, PartialEq)]
enum Kind {
    Const,
    Var,
    Word,
    Immediate,
}

fn dictionary(xs: &Xstate) -> Vec<(String, Kind)> {
    let names: Vec<String> = xs.word_list().iter().map(|s| s.to_string()).collect();
    let d = xs.verif_dump();
    let s = dump_get(&d, "dict");
    let mut pos = 0usize;
    let mut out: Vec<(String, Kind)> = vec![];
    for (i, name) in names.iter().enumerate() {
        let head = format!("{}:", name);
        if !s[pos..].starts_with(&head) {
            machinery_error(&format!("C13: cannot parse the dictionary dump at word {}", name));
        }
        pos += head.len();
        let end = if i + 1 < names.len() {
            match s[pos..].find(&format!(" {}:", names[i + 1])) {
                Some(e) => pos + e,
                None => machinery_error(&format!("C13: cannot parse the dictionary dump after word {}", name)),
            }
        } else {
            s.len()
        };
        let k = s[pos..end].trim();
        let kind = if k.starts_with("const=") {
            Kind::Const
        } else if k.starts_with("var@") {
            Kind::Var
        } else if k.contains("imm=true") {
            Kind::Immediate
        } else if k.contains("imm=false") {
            Kind::Word
        } else {
            machinery_error(&format!("C13: unknown dictionary entry kind `{}` for {}", k, name))
        };
        pos = (end + 1).min(s.len());
        // a later definition shadows an earlier one
        out.retain(|(n, _)| n != name);
        out.push((name.clone(), kind));
    }
    out
}

fn is_binary_read_word(w: &str) -> bool {
    if matches!(w, "int" | "uint" | "float") {
        return true;
    }
    let b = w.as_bytes();
    if b.is_empty() || !matches!(b[0], b'u' | b'i' | b'f') {
        return false;
    }
    let rest = &w[1..];
    let rest = rest.strip_suffix("le").or_else(|| rest.strip_suffix("be")).unwrap_or(rest);
    matches!(rest, "8" | "16" | "32" | "64")
}

// ------------------------------------------------------------------ running one case
/// weight of a case with a deterministic tie-break, so that the recorded replay does not depend on thread timing
fn wt(w: u64, program: &str) -> u64 {
    w * 65_536 + (hash128(program) as u64 & 0xffff)
}

fn mk_base() -> Xstate {
    let mut xs = boot();
    xs.intercept_output(true).unwrap();
    // binary input so that the parsing words have something to read
    let bytes: Vec<u8> = vec![0x41, 0x42, 0x00, 0x80, 0xff, 0x01, 0x02, 0x03, 0x04, 0x05, 0x06, 0x07, 0x08, 0x09, 0x0a, 0x0b, 0x0c, 0x0d, 0x0e, 0x0f, 0x10, 0x11, 0x12, 0x13];
    xs.set_binary_input(Xbitstr::from(bytes)).unwrap();
    xs.set_insn_limit(Some(INSN_LIMIT)).unwrap();
    xs
}

struct Outcome {
    kind: String,
    ok: bool,
    stack: Vec<Cell>, // above the sentinel, bottom first
    sentinel_ok: bool,
    vars: Vec<Cell>,
    out: String,
}

fn run_case(base: &Xstate, args: &[&Cell], src: &str) -> Outcome {
    let mut xs = base.clone();
    xs.push_data(Cell::from(SENTINEL)).unwrap();
    for a in args {
        xs.push_data((*a).clone()).unwrap();
    }
    let r = guarded(|| xs.eval(src));
    let (kind, ok) = match &r {
        Err(p) => (format!("PANIC({})", truncate(p, 80)), false),
        Ok(r) => (res_kind(r), r.is_ok()),
    };
    let n = xs.data_depth();
    let mut stack: Vec<Cell> = (0..n).rev().map(|i| xs.get_data(i).unwrap().clone()).collect();
    let sentinel_ok = !stack.is_empty() && matches!(&stack[0], Cell::Str(s) if s.as_str() == SENTINEL);
    if sentinel_ok {
        stack.remove(0);
    }
    let vars = VARS_OBSERVED.iter().map(|v| xs.get_var_value(v).cloned().unwrap_or(Cell::Nil)).collect();
    let out = xs.read_stdout().unwrap_or_default();
    Outcome { kind, ok, stack, sentinel_ok, vars, out }
}

/// rendering with every tag wrapper removed, at any depth
fn render_untagged(c: &Cell, out: &mut String) {
    match c {
        Cell::WithTag(_) => render_untagged(c.value(), out),
        Cell::Vector(v) => {
            out.push('[');
            for x in v.iter() {
                render_untagged(x, out);
                out.push(' ');
            }
            out.push(']');
        }
        Cell::Map(m) => {
            out.push('{');
            for (k, v) in m.iter() {
                render_untagged(k, out);
                out.push_str("=>");
                render_untagged(v, out);
                out.push(' ');
            }
            out.push('}');
        }
        other => other.verif_render(out),
    }
}

fn eq_cells(a: &Cell, b: &Cell) -> bool {
    if a == b {
        return true;
    }
    let (mut x, mut y) = (String::new(), String::new());
    render_untagged(a, &mut x);
    render_untagged(b, &mut y);
    x == y
}

/// every tagged value inside `c` (any depth, tag maps included), rendered with its tags
fn collect_tagged(c: &Cell, acc: &mut BTreeSet<String>) {
    match c {
        Cell::WithTag(_) => {
            acc.insert(render(c));
            if let Some(t) = c.tags() {
                for (k, v) in t.iter() {
                    collect_tagged(k, acc);
                    collect_tagged(v, acc);
                }
            }
            collect_tagged(c.value(), acc);
        }
        Cell::Vector(v) => {
            for x in v.iter() {
                collect_tagged(x, acc);
            }
        }
        Cell::Map(m) => {
            for (k, v) in m.iter() {
                collect_tagged(k, acc);
                collect_tagged(v, acc);
            }
        }
        _ => {}
    }
}

fn outcome_json(o: &Outcome) -> J {
    jo(vec![
        ("result", js(o.kind.clone())),
        ("stack_above_sentinel", J::A(o.stack.iter().map(|c| js(render(c))).collect())),
        ("sentinel_intact", J::B(o.sentinel_ok)),
        ("stdout", js(o.out.clone())),
        ("vars", J::A(VARS_OBSERVED.iter().zip(o.vars.iter()).map(|(n, c)| js(format!("{}={}", n, truncate(&render(c), 40)))).collect())),
    ])
}

/// None = equivalent; Some(text) = first difference
fn differ(a: &Outcome, b: &Outcome) -> Option<String> {
    if a.kind != b.kind {
        return Some(format!("untagged run: {}, tagged run: {}", a.kind, b.kind));
    }
    if a.out != b.out {
        return Some(format!("stdout {:?} vs {:?}", a.out, b.out));
    }
    if a.ok {
        if a.sentinel_ok != b.sentinel_ok || a.stack.len() != b.stack.len() {
            return Some(format!("stack depth {} vs {}", a.stack.len(), b.stack.len()));
        }
        for (i, (x, y)) in a.stack.iter().zip(b.stack.iter()).enumerate() {
            if !eq_cells(x, y) {
                return Some(format!("result {} (from the bottom): {} vs {}", i, render(x), render(y)));
            }
        }
        for (i, (x, y)) in a.vars.iter().zip(b.vars.iter()).enumerate() {
            if !eq_cells(x, y) {
                return Some(format!("variable {}: {} vs {}", VARS_OBSERVED[i], truncate(&render(x), 80), truncate(&render(y), 80)));
            }
        }
    }
    None
}

struct Target {
    name: String,
    src: String,
    /// fixed arity for templates; words are swept for every k in 0..=3
    arity: Option<usize>,
    fmt_withheld: bool,
    read_word: bool,
}

fn templates() -> Vec<Target> {
    let t = |name: &str, arity, src: &str| Target { name: format!("template:{}", name), src: src.to_string(), arity: Some(arity), fmt_withheld: false, read_word: false };
    // templates whose result comes from a binary read word (those attach len / big tags by design)
    let tr = |name: &str, arity, src: &str| Target { name: format!("template:{}", name), src: src.to_string(), arity: Some(arity), fmt_withheld: false, read_word: true };
    vec![
        t("foreach-I", 1, "foreach I loop"),
        t("do-I", 2, "do I loop"),
        t("if-else", 1, "if 1 else 2 then"),
        t("case-of", 2, "case of 5 endof drop 6 endcase"),
        t("var-store-load", 1, "nil var c13v ! c13v c13v c13v"),
        t("local", 1, ": c13f local a a a ; c13f"),
        t("let-vec", 1, "let [ a b ] b a"),
        t("let-map", 1, "let { \"10\" x } x"),
        t("let-literal", 1, "let 1"),
        t("const", 1, "#( 1 const c13c #) c13c"),
        // run-time values stored into the parsing module's own variables, then used by the words that read them
        t("big?-store-pack", 1, "! big? 258 u16! 258 24 uint!"),
        tr("big?-store-read", 1, "! big? |0102| open-bitstr u16"),
        tr("offset-store-read", 1, "|010203| open-bitstr ! offset u8"),
        tr("input-store-read", 1, "! input u8"),
        t("output-length-store", 1, "! output-length |ff| emit output-length"),
        tr("offset-store-open-close", 1, "|010203| open-bitstr ! offset |ff| open-bitstr close-bitstr offset u8"),
    ]
}

#[derive(Default)]
struct WordStat {
    tuples: u64,
    baseline_ok: u64,
    variants: u64,
    nontrivial: u64,
    fmt_withheld: u64,
}

struct Stats {
    per_word: BTreeMap<String, WordStat>,
    runs: u64,
    outcome_kinds: BTreeMap<String, u64>,
    by_tagmap: BTreeMap<String, u64>,
    nested_variants: u64,
}

fn sweep(cfg: &Cfg, rep: &Reporter, ev_: &mut Evidence, targets: &[Target]) {
    let n_alpha = alphabet(cfg.quick(), cfg.seed).len();
    let mut offs = vec![0usize];
    for k in 0..=3usize {
        offs.push(offs[k] + n_alpha.pow(k as u32));
    }
    let per_word = offs[4];
    let total = targets.len() * per_word;
    let agg = Mutex::new(Stats { per_word: BTreeMap::new(), runs: 0, outcome_kinds: BTreeMap::new(), by_tagmap: BTreeMap::new(), nested_variants: 0 });
    let samples = Mutex::new(Vec::<J>::new());
    par_run(cfg.threads, total, 32, |_t, pull| {
        let base = mk_base();
        let alpha = alphabet(cfg.quick(), cfg.seed);
        let tms = tag_maps();
        let mut st = Stats { per_word: BTreeMap::new(), runs: 0, outcome_kinds: BTreeMap::new(), by_tagmap: BTreeMap::new(), nested_variants: 0 };
        while let Some(r) = pull() {
            for item in r {
                let tg = &targets[item / per_word];
                let ti = item % per_word;
                let k = (0..=3).find(|k| ti < offs[k + 1]).unwrap();
                if let Some(a) = tg.arity {
                    if a != k {
                        continue;
                    }
                }
                let mut rest = ti - offs[k];
                let mut tuple: Vec<&Val> = vec![];
                for _ in 0..k {
                    tuple.push(&alpha[rest % n_alpha]);
                    rest /= n_alpha;
                }
                let ws = st.per_word.entry(tg.name.clone()).or_default();
                ws.tuples += 1;
                let plain: Vec<&Cell> = tuple.iter().map(|v| &v.cell).collect();
                let o0 = run_case(&base, &plain, &tg.src);
                st.runs += 1;
                bump(&mut st.outcome_kinds, &o0.kind);
                if o0.ok {
                    ws.baseline_ok += 1;
                }
                // smaller = simpler; witnesses whose untagged run succeeds are preferred
                let weight0 = (k as u64) * 10_000 + tuple.iter().map(|v| v.src.len() as u64).sum::<u64>() + if o0.ok { 0 } else { 5_000 };
                let program = |vals: &[Val]| {
                    let mut s = String::new();
                    for v in vals {
                        s.push_str(&v.src);
                        s.push(' ');
                    }
                    s.push_str(&tg.src);
                    s
                };
                let plain_vals: Vec<Val> = tuple.iter().map(|v| (*v).clone()).collect();
                if o0.kind.starts_with("PANIC") {
                    rep.report_w(&format!("panic:{}", tg.name), wt(weight0, &program(&plain_vals)), || jo(vec![("kind", js("sweep")), ("program", js(program(&plain_vals))), ("untagged", outcome_json(&o0))]));
                }
                // freshly computed results carry no tags
                if o0.ok && !tg.read_word {
                    let mut found = BTreeSet::new();
                    for c in o0.stack.iter().chain(o0.vars.iter()) {
                        collect_tagged(c, &mut found);
                    }
                    if !found.is_empty() {
                        rep.report_w(&format!("fresh-tag:{}", tg.name), wt(weight0, &program(&plain_vals)), || {
                            jo(vec![("kind", js("sweep")), ("program", js(program(&plain_vals))), ("untagged", outcome_json(&o0)), ("tagged_values_in_result", J::A(found.iter().map(|s| js(s.clone())).collect()))])
                        });
                    }
                }
                if k == 0 {
                    continue;
                }
                let did_something = o0.ok && (o0.stack.len() != k || o0.stack.iter().zip(plain.iter()).any(|(a, b)| render(a) != render(*b)) || !o0.out.is_empty());
                // one variant = one tagged tuple
                let run_variant = |vals: Vec<Val>, key_suffix: String, tm: &TagMap, what: &str, st: &mut Stats| -> bool {
                    let cells: Vec<&Cell> = vals.iter().map(|v| &v.cell).collect();
                    let o1 = run_case(&base, &cells, &tg.src);
                    st.runs += 1;
                    bump(&mut st.by_tagmap, tm.name);
                    let ws = st.per_word.entry(tg.name.clone()).or_default();
                    ws.variants += 1;
                    if did_something {
                        ws.nontrivial += 1;
                    }
                    let weight = weight0 + 100 + tm.src.len() as u64;
                    if let Some(d) = differ(&o0, &o1) {
                        let key = if o1.kind.starts_with("PANIC") && !o0.kind.starts_with("PANIC") { format!("panic:{}", tg.name) } else { format!("tag-sensitive:{}:{}", tg.name, key_suffix) };
                        rep.report_w(&key, wt(weight, &program(&vals)), || {
                            // a violation is re-executed before it is recorded: it must fail identically
                            let again = run_case(&base, &cells, &tg.src);
                            if differ(&o1, &again).is_some() || differ(&o0, &again).is_none() {
                                machinery_error(&format!("C13: violation of {} does not reproduce on re-execution", tg.name));
                            }
                            // the same two programs as plain source text (arguments parsed instead of injected)
                            let s0 = run_case(&base, &[], &program(&plain_vals));
                            let s1 = run_case(&base, &[], &program(&vals));
                            jo(vec![
                                ("kind", js("sweep")),
                                ("what", js(what)),
                                ("tag_map", js(tm.name)),
                                ("untagged_program", js(program(&plain_vals))),
                                ("tagged_program", js(program(&vals))),
                                ("programs_evaluated_from_source_text", js(format!("untagged: {}, tagged: {}", s0.kind, s1.kind))),
                                ("difference", js(d.clone())),
                                ("untagged", outcome_json(&o0)),
                                ("tagged", outcome_json(&o1)),
                            ])
                        });
                        return false;
                    }
                    // provenance: tags in the result must have come in with an argument
                    if o1.ok && !tg.read_word {
                        let mut allowed = BTreeSet::new();
                        for c in &cells {
                            collect_tagged(c, &mut allowed);
                        }
                        let mut found = BTreeSet::new();
                        for c in o1.stack.iter().chain(o1.vars.iter()) {
                            collect_tagged(c, &mut found);
                        }
                        // computed results are bare: a tagged value on top level of the result must be an
                        // element taken out of an argument, unless the word merely moves its arguments
                        // (or is an identity conversion)
                        const MOVERS: [&str; 8] = ["dup", "drop", "swap", "over", "rot", ">int", ">real", "depth"];
                        if !tg.name.starts_with("template:") && !MOVERS.contains(&tg.name.as_str()) {
                            let mut inner = BTreeSet::new();
                            for c in &cells {
                                match c.value() {
                                    Cell::Vector(v) => v.iter().for_each(|x| collect_tagged(x, &mut inner)),
                                    Cell::Map(m) => m.iter().for_each(|(k, v)| {
                                        collect_tagged(k, &mut inner);
                                        collect_tagged(v, &mut inner);
                                    }),
                                    _ => {}
                                }
                                // tags of an argument are ordinary values too (`tags`, `get-tag` are excluded words)
                            }
                            // arguments the word did not consume are still where they were pushed: not results
                            // (how many arguments the word consumes is measured: the fewest top arguments
                            // with which it no longer underflows)
                            let mut arity = cells.len();
                            for j in 0..cells.len() {
                                let o = run_case(&base, &cells[cells.len() - j..], &tg.src);
                                if o.kind != "StackUnderflow" && o.sentinel_ok {
                                    arity = j;
                                    break;
                                }
                            }
                            let untouched = (cells.len() - arity).min(o1.stack.len());
                            let kept: Vec<String> = o1.stack[untouched..].iter().filter(|r| matches!(r, Cell::WithTag(_))).map(render).filter(|r| !inner.contains(r)).collect();
                            if !kept.is_empty() {
                                rep.report_w(&format!("tag-kept:{}", tg.name), wt(weight, &program(&vals)), || {
                                    jo(vec![
                                        ("kind", js("sweep")),
                                        ("what", js("a computed result still carries the tags of an argument")),
                                        ("tagged_program", js(program(&vals))),
                                        ("tagged", outcome_json(&o1)),
                                        ("tagged_results_that_are_not_elements_of_an_argument", J::A(kept.iter().map(|s| js(s.clone())).collect())),
                                    ])
                                });
                                return false;
                            }
                        }
                        // the parsing module's variables are results too: a buffer the word computed (e.g. `output`
                        // after emit) does not take over the tags of an argument
                        if !tg.name.starts_with("template:") {
                            for (vi, v1) in o1.vars.iter().enumerate() {
                                let changed = o0.vars.get(vi).map(|v0| render(v0) != render(v1)).unwrap_or(false);
                                if changed && matches!(v1, Cell::WithTag(_)) && VARS_OBSERVED[vi] == "output" {
                                    rep.report_w(&format!("tag-kept:{}:variable-{}", tg.name, VARS_OBSERVED[vi]), wt(weight, &program(&vals)), || {
                                        jo(vec![("kind", js("sweep")), ("what", js("a buffer computed by the word carries the tags of an argument")), ("tagged_program", js(program(&vals))), ("tagged", outcome_json(&o1))])
                                    });
                                    return false;
                                }
                            }
                        }
                        let leaked: Vec<&String> = found.iter().filter(|f| !allowed.contains(*f)).collect();
                        if !leaked.is_empty() {
                            rep.report_w(&format!("tag-leak:{}", tg.name), wt(weight, &program(&vals)), || {
                                jo(vec![
                                    ("kind", js("sweep")),
                                    ("what", js(what)),
                                    ("tagged_program", js(program(&vals))),
                                    ("tagged", outcome_json(&o1)),
                                    ("tagged_values_not_among_the_arguments", J::A(leaked.iter().map(|s| js((*s).clone())).collect())),
                                ])
                            });
                            return false;
                        }
                    }
                    true
                };
                // ---- subsets of tagged argument positions x tag maps
                // positions are counted from the top of the stack: tuple[k-1] is arg1
                let mut failing_single: BTreeSet<(usize, usize)> = BTreeSet::new(); // (position index, tag map index)
                let mut subsets: Vec<u32> = (1..(1u32 << k)).collect();
                subsets.sort_by_key(|s| s.count_ones());
                for &sub in &subsets {
                    let mut nonfmt_failed = false;
                    for (tmi, tm) in tms.iter().enumerate() {
                        if tm.is_fmt && tg.fmt_withheld {
                            st.per_word.entry(tg.name.clone()).or_default().fmt_withheld += 1;
                            continue;
                        }
                        let pos: Vec<usize> = (0..k).filter(|i| sub & (1 << i) != 0).collect();
                        if pos.len() > 1 && pos.iter().any(|p| failing_single.contains(&(*p, tmi))) {
                            // implied by a failing single-position case of the same tuple
                            continue;
                        }
                        let vals: Vec<Val> = (0..k).map(|i| if sub & (1 << i) != 0 { tagged(tuple[i], tm) } else { tuple[i].clone() }).collect();
                        let mut suffix = pos.iter().rev().map(|p| format!("arg{}", k - p)).collect::<Vec<_>>().join("+");
                        if tm.is_fmt && !nonfmt_failed {
                            suffix.push_str(":fmt");
                        }
                        let ok = run_variant(vals, suffix, tm, "argument(s) tagged", &mut st);
                        if !ok {
                            if !tm.is_fmt {
                                nonfmt_failed = true;
                            }
                            if pos.len() == 1 {
                                failing_single.insert((pos[0], tmi));
                            }
                        }
                    }
                }
                // ---- the formatting tag with a plain value vs. the same value carrying tags itself: the words that
                // honour the format must read it alike (tags on tags do not change a value)
                if tg.fmt_withheld {
                    let fmt_plain = tms.iter().find(|t| t.is_fmt).unwrap();
                    let mut m = Xmap::new();
                    m.insert_mut(Cell::from("#fmt"), Cell::Int(272).with_tags(tms[1].map.clone()));
                    let fmt_tagged = TagMap { name: "#fmt-value-tagged", src: format!("^{{ 272 {} \"#fmt\" ^}}", tms[1].src), map: m, is_fmt: true };
                    for i in 0..k {
                        let v1: Vec<Val> = (0..k).map(|j| if j == i { tagged(tuple[j], fmt_plain) } else { tuple[j].clone() }).collect();
                        let v2: Vec<Val> = (0..k).map(|j| if j == i { tagged(tuple[j], &fmt_tagged) } else { tuple[j].clone() }).collect();
                        let c1: Vec<&Cell> = v1.iter().map(|v| &v.cell).collect();
                        let c2: Vec<&Cell> = v2.iter().map(|v| &v.cell).collect();
                        let (o1, o2) = (run_case(&base, &c1, &tg.src), run_case(&base, &c2, &tg.src));
                        st.runs += 2;
                        if let Some(d) = differ(&o1, &o2) {
                            rep.report_w(&format!("tag-sensitive:{}:arg{}:fmt-value-tagged", tg.name, k - i), wt(weight0 + 300, &program(&v2)), || {
                                jo(vec![("kind", js("sweep")), ("what", js("the #fmt tag holds the same number, once plain and once carrying tags itself")), ("program_plain_fmt_value", js(program(&v1))), ("program_tagged_fmt_value", js(program(&v2))), ("difference", js(d.clone())), ("plain", outcome_json(&o1)), ("tagged", outcome_json(&o2))])
                            });
                        }
                    }
                }
                // ---- one tagged value in two positions (`dup`: both arguments are the same handle)
                if k >= 2 && tuple[k - 1].src == tuple[k - 2].src {
                    for tm in tms.iter().filter(|t| t.name == "k:v" || (t.is_fmt && !tg.fmt_withheld)) {
                        let shared = tagged(tuple[k - 1], tm);
                        let mut vals: Vec<Val> = tuple.iter().map(|v| (*v).clone()).collect();
                        vals[k - 1] = shared.clone();
                        vals[k - 2] = shared.clone();
                        run_variant(vals, format!("arg1+arg2:same-handle{}", if tm.is_fmt { ":fmt" } else { "" }), tm, "the two top arguments are one tagged value (as after dup)", &mut st);
                    }
                }
                // ---- tags one level down
                for i in 0..k {
                    for tm in tms.iter().filter(|t| t.name == "k:v" || t.is_fmt) {
                        if tm.is_fmt && tg.fmt_withheld {
                            continue;
                        }
                        if let Some(nv) = nested(tuple[i], tm) {
                            for outer in [false, true] {
                                if outer && failing_single.contains(&(i, 1)) {
                                    // the tagged collection alone already fails: reported under arg<N>
                                    continue;
                                }
                                let mut vals: Vec<Val> = tuple.iter().map(|v| (*v).clone()).collect();
                                vals[i] = if outer { tagged(&nv, &tms[1]) } else { nv.clone() };
                                st.nested_variants += 1;
                                let suffix = format!("arg{}:nested{}", k - i, if tm.is_fmt { ":fmt" } else { "" });
                                run_variant(vals, suffix, tm, if outer { "elements tagged, collection tagged too" } else { "elements inside the collection tagged" }, &mut st);
                            }
                        }
                    }
                }
                if item % 40_009 == 7 {
                    let mut g = samples.lock().unwrap();
                    if g.len() < 8 {
                        g.push(jo(vec![("word", js(tg.name.clone())), ("untagged_program", js(program(&plain_vals))), ("untagged_result", js(o0.kind.clone())), ("tagged_variants_compared", js("every non-empty subset of positions x tag maps, plus nested"))]));
                    }
                }
            }
        }
        let mut g = agg.lock().unwrap();
        g.runs += st.runs;
        g.nested_variants += st.nested_variants;
        for (k, v) in st.outcome_kinds {
            *g.outcome_kinds.entry(k).or_insert(0) += v;
        }
        for (k, v) in st.by_tagmap {
            *g.by_tagmap.entry(k).or_insert(0) += v;
        }
        for (k, v) in st.per_word {
            let e = g.per_word.entry(k).or_default();
            e.tuples += v.tuples;
            e.baseline_ok += v.baseline_ok;
            e.variants += v.variants;
            e.nontrivial += v.nontrivial;
            e.fmt_withheld += v.fmt_withheld;
        }
    });
    let g = agg.into_inner().unwrap();
    for s in samples.into_inner().unwrap() {
        ev_.sample(s);
    }
    let mut tuples = 0u64;
    let mut variants = 0u64;
    let mut nontriv = 0u64;
    let mut never_ok = vec![];
    let mut table = vec![];
    for (w, s) in &g.per_word {
        tuples += s.tuples;
        variants += s.variants;
        nontriv += s.nontrivial;
        if s.baseline_ok == 0 {
            never_ok.push(js(w.clone()));
        }
        if s.variants == 0 {
            vacuous(&format!("vacuous: C13 ran no tagged variant for {}", w));
        }
        table.push((w.clone(), J::A(vec![ji(s.tuples), ji(s.baseline_ok), ji(s.variants), ji(s.nontrivial)])));
    }
    if g.per_word.len() != targets.len() {
        vacuous("vacuous: C13 did not reach every target word");
    }
    for t in ["empty", "k:v", "tags-on-tags", "#fmt"] {
        if g.by_tagmap.get(t).copied().unwrap_or(0) == 0 {
            vacuous(&format!("vacuous: C13 never used tag map {}", t));
        }
    }
    if g.nested_variants == 0 {
        vacuous("vacuous: C13 ran no nested-tag variant");
    }
    ev_.states += tuples;
    ev_.transitions += g.runs;
    ev_.traces += variants;
    ev_.evaluations += g.runs;
    ev_.nontrivial += nontriv;
    ev_.add("sweep", jo(vec![("targets", ji(targets.len())), ("argument_tuples", ji(tuples)), ("tagged_variants_compared", ji(variants)), ("nested_variants", ji(g.nested_variants)), ("runs_on_the_interpreter", ji(g.runs))]));
    ev_.add("per_word_[tuples,untagged_ok,tagged_variants,nontrivial_variants]", J::O(table));
    ev_.add("words_whose_untagged_run_never_succeeds_on_the_alphabet", J::A(never_ok));
    ev_.add("untagged_outcome_kinds", jmap(&g.outcome_kinds));
    ev_.add("variants_by_tag_map", jmap(&g.by_tagmap));
}

// ------------------------------------------------------------------ part B: the tag words against a model
#[derive(Clone)]
enum TOp {
    With(usize),          // index into tag_maps()
    WithTaggedMap(usize), // the same map, itself carrying tags (tags of the argument do not matter)
    Literal(usize),       // `^{ ... ^}` with the same contents
    Insert(usize, usize), // key index, value index
    Remove(usize),
}

/// `mixed` = false: tag keys of one type only (strings): the open cross-type key collision cannot occur, every
/// failure ends the sequence and the run must be violation-free. `mixed` = true: an integer key is added; a
/// divergence that involves keys of two types is filed under `tag-map-key-collision`, the model is
/// re-synchronised with the attached map and the sequence goes on, so later steps are still checked.
fn tag_word_model(cfg: &Cfg, rep: &Reporter, ev_: &mut Evidence, mixed: bool) {
    let max_ops = if cfg.quick() { 2 } else { 3 };
    let n_alpha = alphabet(cfg.quick(), cfg.seed).len();
    let n_tm = tag_maps().len();
    let nkeys: usize = if mixed { 4 } else { 3 };
    // two of the values are equal to each other but carry different tags, a third is the same number bare
    const NVALS: usize = 4;
    let mut ops: Vec<TOp> = vec![];
    for i in 0..n_tm {
        ops.push(TOp::With(i));
        ops.push(TOp::Literal(i));
    }
    for i in [1usize, 3] {
        ops.push(TOp::WithTaggedMap(i));
    }
    for k in 0..nkeys {
        for v in 0..NVALS {
            ops.push(TOp::Insert(k, v));
        }
        ops.push(TOp::Remove(k));
    }
    let starts = 1 + n_tm; // bare, or already carrying one of the tag maps
    let mut seq_offs = vec![0usize];
    for n in 0..=max_ops {
        seq_offs.push(seq_offs[n] + ops.len().pow(n as u32));
    }
    let per_start = seq_offs[max_ops + 1];
    let total = n_alpha * starts * per_start;
    let agg = Mutex::new((0u64, 0u64, 0u64, BTreeMap::<String, u64>::new(), 0u64, 0u64, 0u64)); // sequences, steps, evals, per op, resynced steps, collision observations, sequences cut short
    par_run(cfg.threads, total, 64, |_t, pull| {
        let base = mk_base();
        let alpha = alphabet(cfg.quick(), cfg.seed);
        let tms = tag_maps();
        let mut keys: Vec<Val> = vec![strv("k"), strv("z"), strv("#fmt"), int(1)];
        keys.truncate(nkeys);
        let (mut n_resync, mut n_coll_obs, mut n_cut) = (0u64, 0u64, 0u64);
        let vals: Vec<Val> = vec![strv("w"), tagged(&int(5), &tms[1]), int(5), tagged(&int(5), &tms[3])];
        let (mut n_seq, mut n_steps, mut n_evals) = (0u64, 0u64, 0u64);
        let mut per_op: BTreeMap<String, u64> = BTreeMap::new();
        while let Some(r) = pull() {
            for item in r {
                let vi = item / (starts * per_start);
                let si = (item / per_start) % starts;
                let qi = item % per_start;
                let n = (0..=max_ops).find(|n| qi < seq_offs[n + 1]).unwrap();
                let mut rest = qi - seq_offs[n];
                let mut seq = vec![];
                for _ in 0..n {
                    seq.push(ops[rest % ops.len()].clone());
                    rest /= ops.len();
                }
                n_seq += 1;
                let v0 = &alpha[vi];
                // model: the attached map as an association list (None = bare)
                let mut model: Option<Vec<(Cell, Cell)>> = None;
                let mut cur: Cell = v0.cell.clone();
                let mut program = v0.src.clone();
                if si > 0 {
                    let tm = &tms[si - 1];
                    cur = cur.with_tags(tm.map.clone());
                    program = format!("{} {}", program, tm.src);
                    model = Some(tm.map.iter().map(|(k, v)| (k.clone(), v.clone())).collect());
                }
                let bare = render(&v0.cell);
                let weight_base = (n as u64) * 10_000 + if si > 0 { 500 } else { 0 };
                let mut failed = false;
                let mut tainted = false;
                // observe the start state too, then every step
                for step in 0..=n {
                    if step > 0 {
                        let op = &seq[step - 1];
                        let (word, pre, src): (&str, Vec<Cell>, String) = match op {
                            TOp::With(i) => ("with-tags", vec![Cell::Map(tms[*i].map.clone())], format!("{{ {} }} with-tags", &tms[*i].src[2..tms[*i].src.len() - 2].trim()).replace("{  }", "{ }")),
                            TOp::WithTaggedMap(i) => (
                                "with-tags",
                                vec![Cell::Map(tms[*i].map.clone()).with_tags(tms[1].map.clone())],
                                format!("{{ {} }} {} with-tags", &tms[*i].src[2..tms[*i].src.len() - 2].trim(), tms[1].src).replace("{  }", "{ }"),
                            ),
                            TOp::Literal(i) => ("^{", vec![], tms[*i].src.clone()),
                            TOp::Insert(k, v) => ("insert-tag", vec![vals[*v].cell.clone(), keys[*k].cell.clone()], format!("{} {} insert-tag", vals[*v].src, keys[*k].src)),
                            TOp::Remove(k) => ("remove-tag", vec![keys[*k].cell.clone()], format!("{} remove-tag", keys[*k].src)),
                        };
                        bump(&mut per_op, word);
                        n_steps += 1;
                        program = format!("{} dup {}", program, src);
                        // run on a dup-ed handle
                        let mut xs = base.clone();
                        xs.push_data(cur.clone()).unwrap();
                        n_evals += 1;
                        let before = render(&cur);
                        let r = guarded(|| xs.eval("dup"));
                        let r = match r {
                            Ok(Ok(())) => {
                                for c in &pre {
                                    xs.push_data(c.clone()).unwrap();
                                }
                                let w = match op {
                                    TOp::Literal(i) => tms[*i].src.clone(),
                                    _ => word.to_string(),
                                };
                                guarded(|| xs.eval(&w))
                            }
                            other => other,
                        };
                        let depth = xs.data_depth();
                        let ok = matches!(r, Ok(Ok(()))) && depth == 2;
                        if !ok {
                            let key = if r.is_err() { format!("panic:{}", word) } else { format!("tag-word:{}:result", word) };
                            rep.report_w(&key, wt(weight_base + program.len() as u64, &program), || jo(vec![("kind", js("tag-words")), ("program", js(program.clone())), ("expected", js("Ok, old handle and new value on the stack")), ("observed", js(format!("{:?} depth {}", r.map(|x| x.map_err(|e| err_kind(&e))), depth)))]));
                            failed = true;
                            break;
                        }
                        let new = xs.get_data(0).unwrap().clone();
                        let old = xs.get_data(1).unwrap().clone();
                        if render(&old) != before || render(&cur) != before {
                            rep.report_w(&format!("tag-word:{}:old-handle-changed", word), wt(weight_base + program.len() as u64, &program), || jo(vec![("kind", js("tag-words")), ("program", js(program.clone())), ("old_handle_before", js(before.clone())), ("old_handle_after", js(render(&old)))]));
                            failed = true;
                            break;
                        }
                        cur = new;
                        // model step
                        match op {
                            TOp::With(i) | TOp::Literal(i) | TOp::WithTaggedMap(i) => model = Some(tms[*i].map.iter().map(|(k, v)| (k.clone(), v.clone())).collect()),
                            TOp::Insert(k, v) => {
                                let m = model.get_or_insert_with(Vec::new);
                                m.retain(|(kk, _)| *kk != keys[*k].cell);
                                m.push((keys[*k].cell.clone(), vals[*v].cell.clone()));
                            }
                            TOp::Remove(k) => {
                                // remove-tag on a bare value: still no tags (nil) or an empty map; both accepted below
                                let m = model.get_or_insert_with(Vec::new);
                                m.retain(|(kk, _)| *kk != keys[*k].cell);
                            }
                        }
                        // the attached map as it is now (read through the Rust API, not through a word)
                        let actual: Vec<(Cell, Cell)> = cur.tags().map(|t| t.iter().map(|(k, v)| (k.clone(), v.clone())).collect()).unwrap_or_default();
                        let wanted: Vec<(Cell, Cell)> = model.clone().unwrap_or_default();
                        let agree = actual.len() == wanted.len() && wanted.iter().all(|(k, v)| actual.iter().any(|(kk, vv)| kk == k && vv == v && render(vv) == render(v)));
                        if !agree {
                            let op_key_type = match op {
                                TOp::Insert(k, _) | TOp::Remove(k) => Some(keys[*k].cell.value().type_name()),
                                _ => None,
                            };
                            let two_types = op_key_type.map(|t| wanted.iter().chain(actual.iter()).any(|(k, _)| k.value().type_name() != t)).unwrap_or(false);
                            if mixed && (two_types || tainted) {
                                let p = format!("{} tags", program);
                                rep.report_w("tag-map-key-collision", wt(weight_base + p.len() as u64, &p), || {
                                    jo(vec![("kind", js("tag-words")), ("program", js(p.clone())), ("after", js(word)), ("observer", js("attached map")), ("expected", js(format!("{:?}", wanted.iter().map(|(k, v)| format!("{}=>{}", render(k), render(v))).collect::<Vec<_>>()))), ("observed", js(format!("{:?}", actual.iter().map(|(k, v)| format!("{}=>{}", render(k), render(v))).collect::<Vec<_>>())))])
                                });
                                // re-synchronise: go on from what the implementation holds
                                model = Some(actual.clone());
                                tainted = true;
                                n_resync += 1;
                            }
                            // otherwise the `tags` observer below reports it under its own key
                        }
                        if actual.len() <= 1 {
                            tainted = false;
                        }
                    }
                    // ---- observers
                    let word = if step == 0 { "start".to_string() } else { match &seq[step - 1] { TOp::With(_) | TOp::WithTaggedMap(_) => "with-tags", TOp::Literal(_) => "^{", TOp::Insert(..) => "insert-tag", TOp::Remove(_) => "remove-tag" }.to_string() };
                    let entries: Vec<(Cell, Cell)> = model.clone().unwrap_or_default();
                    // the C12 map defect seen through tags: the probe finds the value stored under a key of another type
                    let mixed_key_types = |probe: &Cell, got: &Option<Cell>| {
                        entries.iter().any(|(k, v)| k.value().type_name() != probe.value().type_name() && (matches!(got, Some(g) if g == v && !matches!(g, Cell::Nil)) || matches!(got, Some(Cell::Nil) | None)))
                    };
                    let mut report = |observer: &str, collision: bool, expected: String, observed: String, obs_src: &str| {
                        let key = if collision { "tag-map-key-collision".to_string() } else { format!("tag-word:{}:{}", word, observer) };
                        let p = format!("{} {}", program, obs_src);
                        rep.report_w(&key, wt(weight_base + p.len() as u64, &p), || jo(vec![("kind", js("tag-words")), ("program", js(p.clone())), ("after", js(word.clone())), ("observer", js(observer)), ("expected", js(expected)), ("observed", js(observed))]));
                    };
                    // value unchanged
                    if render(cur.value()) != bare || !eq_cells(&cur, &v0.cell) {
                        report("value", false, bare.clone(), render(&cur), "");
                        failed = true;
                    }
                    // the same tagged value when it becomes code: held by a constant, and left by a meta
                        // block inside a definition (the compiler turns it into a load instruction)
                    if !tainted && !failed {
                        for (pname, psrc, bottom) in [("constant", format!("#( {} const c13k #) c13k", program), false), ("meta-block-result", format!(": c13w #( {} #) ; c13w", program), true)] {
                            let mut xs = base.clone();
                            n_evals += 1;
                            let r = guarded(|| xs.eval(&psrc));
                            let got = if bottom { xs.data_depth().checked_sub(1).and_then(|i| xs.get_data(i)) } else { xs.get_data(0) };
                            let same = matches!(r, Ok(Ok(()))) && got.map(|g| render(g) == render(&cur)).unwrap_or(false);
                            if !same {
                                let obs = format!("{:?} {}", r.as_ref().map(|x| x.as_ref().map_err(err_kind)), got.map(render).unwrap_or_default());
                                report(&format!("as-code:{}", pname), false, render(&cur), obs, &format!("   -- written as `{}`", psrc));
                                failed = true;
                            }
                        }
                    }
                    // get-tag for every key
                    for k in &keys {
                        let mut xs = base.clone();
                        xs.push_data(cur.clone()).unwrap();
                        xs.push_data(k.cell.clone()).unwrap();
                        n_evals += 1;
                        let r = guarded(|| xs.eval("get-tag"));
                        let want = entries.iter().find(|(kk, _)| *kk == k.cell).map(|(_, v)| v.clone()).unwrap_or(Cell::Nil);
                        let got = if matches!(r, Ok(Ok(()))) && xs.data_depth() == 1 { Some(xs.get_data(0).unwrap().clone()) } else { None };
                        let ok = match &got {
                            Some(g) => (matches!(want, Cell::Nil) && matches!(g, Cell::Nil)) || (!matches!(want, Cell::Nil) && g == &want && render(g) == render(&want) && !matches!(g, Cell::Nil)),
                            None => false,
                        };
                        if !ok {
                            let coll = mixed && (tainted || mixed_key_types(&k.cell, &got));
                            report("get-tag", coll, render(&want), format!("{:?}", got.as_ref().map(render)), &format!("{} get-tag", k.src));
                            if coll {
                                n_coll_obs += 1;
                            } else {
                                failed = true;
                            }
                        }
                    }
                    // tags
                    {
                        let mut xs = base.clone();
                        xs.push_data(cur.clone()).unwrap();
                        n_evals += 1;
                        let r = guarded(|| xs.eval("tags"));
                        let got = if matches!(r, Ok(Ok(()))) && xs.data_depth() == 1 { Some(xs.get_data(0).unwrap().clone()) } else { None };
                        let ok = match (&got, &model) {
                            (None, _) => false,
                            (Some(Cell::Nil), None) => true,
                            (Some(_), None) => false,
                            // an attached map that is empty may show as nil or as `{ }`
                            (Some(Cell::Nil), Some(e)) => e.is_empty(),
                            (Some(Cell::Map(m)), Some(e)) => m.size() == e.len() && m.iter().all(|(k, v)| e.iter().any(|(kk, vv)| kk == k && vv == v && render(vv) == render(v))),
                            (Some(_), Some(_)) => false,
                        };
                        if !ok {
                            let distinct_types: BTreeSet<String> = entries.iter().map(|(k, _)| k.value().type_name().to_string()).collect();
                            let coll = mixed && (tainted || distinct_types.len() > 1);
                            report("tags", coll, format!("{:?}", entries.iter().map(|(k, v)| format!("{}=>{}", render(k), render(v))).collect::<Vec<_>>()), format!("{:?}", got.as_ref().map(render)), "tags");
                            if coll {
                                n_coll_obs += 1;
                            } else {
                                failed = true;
                            }
                        }
                    }
                    if failed {
                        if step < n {
                            n_cut += 1;
                        }
                        break;
                    }
                }
            }
        }
        let mut g = agg.lock().unwrap();
        g.0 += n_seq;
        g.1 += n_steps;
        g.2 += n_evals;
        g.4 += n_resync;
        g.5 += n_coll_obs;
        g.6 += n_cut;
        for (k, v) in per_op {
            *g.3.entry(k).or_insert(0) += v;
        }
    });
    let g = agg.into_inner().unwrap();
    for w in ["with-tags", "^{", "insert-tag", "remove-tag"] {
        if g.3.get(w).copied().unwrap_or(0) == 0 {
            vacuous(&format!("vacuous: C13 tag-word model never executed {}", w));
        }
    }
    ev_.states += g.0;
    ev_.transitions += g.1;
    ev_.traces += g.0;
    ev_.evaluations += g.2;
    ev_.nontrivial += g.0 - (n_alpha * starts) as u64;
    if !mixed && g.4 + g.5 > 0 {
        machinery_error("C13: the single-type tag-key run met a cross-type collision");
    }
    println!("C13 tag-word model ({}): {} sequences, {} steps, {} re-synchronised, {} cut short", if mixed { "mixed key types" } else { "string keys" }, g.0, g.1, g.4, g.6);
    ev_.add(if mixed { "tag_word_model_mixed_key_types" } else { "tag_word_model_string_keys" }, jo(vec![("tag_keys", J::A((if mixed { vec!["\"k\"", "\"z\"", "\"#fmt\"", "1"] } else { vec!["\"k\"", "\"z\"", "\"#fmt\""] }).into_iter().map(js).collect())), ("steps_re_synchronised_after_a_cross_type_collision", ji(g.4)), ("observations_filed_under_the_open_collision_finding", ji(g.5)), ("sequences_cut_short_by_another_violation", ji(g.6)), ("max_operations", ji(max_ops)), ("operation_alphabet", ji(ops.len())), ("sequences", ji(g.0)), ("steps", ji(g.1)), ("per_word", jmap(&g.3)), ("observers_after_every_step", js("value unchanged, get-tag for every tag key, tags, attached map, old handle unchanged"))]));
}

// ------------------------------------------------------------------ entry
pub fn run(cfg: &Cfg) -> i32 {
    let rep = Reporter::new("C13");
    let mut ev_ = Evidence::new("C13", cfg);
    let base = mk_base();
    let dict = dictionary(&base);
    let mut targets: Vec<Target> = vec![];
    let mut excluded: BTreeMap<&str, Vec<J>> = BTreeMap::new();
    for (name, kind) in &dict {
        let n = name.as_str();
        if TAG_WORDS.contains(&n) {
            excluded.entry("tag words (checked against the map model instead)").or_default().push(js(n));
        } else if FMT_WORDS.contains(&n) {
            excluded.entry("formatting-tag words").or_default().push(js(n));
        } else if EXTERNAL_WORDS.contains(&n) {
            excluded.entry("external / nondeterministic / process-level words").or_default().push(js(n));
        } else if *kind == Kind::Immediate {
            excluded.entry("immediate (compile-time) words; run-time arguments reach them through the templates").or_default().push(js(n));
        } else {
            targets.push(Target { name: name.clone(), src: name.clone(), arity: None, fmt_withheld: FMT_HONOURING.contains(&n), read_word: is_binary_read_word(n) });
        }
    }
    let n_words = targets.len();
    if n_words < 100 {
        vacuous(&format!("vacuous: C13 found only {} run-time words in the dictionary", n_words));
    }
    for must in ["get", "insert", "remove", "nth", "+", "dup", "length", "u8", ">bitstr"] {
        if !targets.iter().any(|t| t.name == must) {
            vacuous(&format!("vacuous: C13 word list lacks {}", must));
        }
    }
    targets.extend(templates());
    ev_.rule = "non-trivial = tagged variant of a tuple on which the untagged run succeeds and changes the stack or prints; all counted variants are distinct (word, tuple, tagged positions, tag map, nesting) combinations".into();
    ev_.add("excluded_words", J::O(excluded.into_iter().map(|(k, v)| (k.to_string(), J::A(v))).collect()));
    ev_.add("fmt_tag_withheld_from", J::A(FMT_HONOURING.iter().map(|s| js(*s)).collect()));
    ev_.add("provenance_rule_exempt_(binary_read_words)", J::A(targets.iter().filter(|t| t.read_word).map(|t| js(t.name.clone())).collect()));
    ev_.add("templates", J::A(templates().iter().map(|t| jo(vec![("name", js(t.name.clone())), ("arity", ji(t.arity.unwrap_or(0))), ("source", js(t.src.clone()))])).collect()));
    ev_.add("alphabet", J::A(alphabet(cfg.quick(), cfg.seed).iter().map(|v| js(v.src.clone())).collect()));
    ev_.add("tag_maps", J::A(tag_maps().iter().map(|t| js(t.src.clone())).collect()));
    ev_.add("words_swept", ji(n_words));
    let t0 = std::time::Instant::now();
    let only = std::env::var("VERIF_C13_ONLY").ok();
    if only.as_deref().map(|o| o == "sweep").unwrap_or(true) {
        sweep(cfg, &rep, &mut ev_, &targets);
        println!("C13 sweep: {} words + {} templates, {:.1}s", n_words, targets.len() - n_words, t0.elapsed().as_secs_f64());
    }
    if only.as_deref().map(|o| o == "model").unwrap_or(true) {
        tag_word_model(cfg, &rep, &mut ev_, false);
        tag_word_model(cfg, &rep, &mut ev_, true);
        println!("C13 tag-word model done, {:.1}s", t0.elapsed().as_secs_f64());
    }
    if let Some(o) = only {
        ev_.cap(format!("VERIF_C13_ONLY={} restricts the run to one part", o));
    }
    ev_.assumptions = vec![
        "equality of results = the language's equality (tags ignored at any depth); -0.0/NaN compared by bit pattern when `equal?` says different".into(),
        "after a failing word only the error kind and stdout are compared, not the residue on the stack".into(),
        "the `#fmt` tag is withheld from print println concat join str>number (they honour it by design); `.s` is excluded".into(),
        "binary read words attach len/big tags by design: exempt from the provenance rule only".into(),
        "`tags` of a value whose map became empty through remove-tag on a bare value may be nil or `{ }`".into(),
        "argument positions in finding keys are counted from the top of the stack (arg1 = top)".into(),
    ];
    conclude(&ev_, &rep)
}
