// C16 — the lexer is total, loses no text, and reads literals as written.
//
// Exhaustive product sweeps; every input is lexed by the real `xeh::lex::Lex` and, token
// by token, by a reference tokenizer written from the README (word / literal / comment
// grammar) and the pinned lexer tests:
//   F1 all strings <= L (quick 5, thorough 6) over the adversarial alphabet (totality, tiling, classification)
//   F2 integer spellings: sign x {none, 0x, 0b, leading 0} x all digit strings <= n over
//      the radix's digits u {_, illegal digit, interior sign}, + boundary spellings (+-2^127 ...)
//   F3 real spellings: all strings <= 6 over {0 1 5 9 . e E - + _} + boundary strings
//   F4 string literals: `"` + all bodies over {a \ " n r t x newline e-acute space}
//   F5 bit-string literals: `|` + all bodies over {0 9 a F x . space g |}
//   F6 comments: all strings over {\ ( ) space newline a}
//   F7 print -> read: every int of the boundary alphabet, every bit-string of 0..=12 bits,
//      vectors / maps of those to depth 2: format_cell, eval of the text, compare.
// Generic obligations on every input: `next()` is called at most chars+2 times before
// EndOfInput or an error (more = non-termination), every token but EndOfInput is non-empty,
// the concatenated `last_substr()` equal the input (a prefix of it when an error stops
// the scan), a Word / Whitespace / Comment payload equals `last_substr()`.
use crate::common::*;
use std::collections::{BTreeMap, BTreeSet};
use std::sync::atomic::{AtomicU64, Ordering};
use std::sync::Mutex;
use xeh::bitstr::BitvecBuilder;
use xeh::lex::{Lex, Tok};
use xeh::prelude::*;

// ------------------------------------------------------------------ reference tokenizer
#[derive(Clone, Debug, PartialEq)]
pub enum RTok {
    End,
    Ws(usize),
    Word(usize),
    LineComment(usize),
    BlockComment(usize, usize), // accepted extent: min ..= max (the separator after `\)` may be included)
    Int(i128, usize, &'static str),
    Real(f64, usize),
    Str(String, usize),
    Bits(Vec<u8>, usize, bool), // bits, extent, literal is followed by whitespace / end
    Error(&'static str),
    Undocumented(&'static str), // typographic quotes, non-ASCII whitespace: no demand
}

fn is_ws(c: char) -> bool {
    c == ' ' || c == '\t' || c == '\n' || c == '\r' || c == '\x0c'
}

#[derive(Debug, PartialEq)]
pub enum RefNum {
    NotNumeric,
    Int(i128, &'static str),
    Real(f64),
    Reject(&'static str),
}

/// value of a whitespace-free token that starts with a digit or a sign and a digit
pub fn ref_number(tok: &str) -> RefNum {
    let cs: Vec<char> = tok.chars().collect();
    let (neg, body): (bool, &[char]) = match cs.first() {
        Some('-') => (true, &cs[1..]),
        Some('+') => (false, &cs[1..]),
        _ => (false, &cs[..]),
    };
    match body.first() {
        Some(c) if c.is_ascii_digit() => {}
        _ => return RefNum::NotNumeric,
    }
    if cs.contains(&'.') {
        let plain: String = cs.iter().filter(|c| **c != '_').collect();
        return match plain.parse::<f64>() {
            Ok(x) => RefNum::Real(x),
            Err(_) => RefNum::Reject("real:syntax"),
        };
    }
    let (radix, digits, fam): (u32, &[char], &'static str) = if body.len() >= 2 && body[0] == '0' && body[1] == 'x' {
        (16, &body[2..], "int:0x")
    } else if body.len() >= 2 && body[0] == '0' && body[1] == 'b' {
        (2, &body[2..], "int:0b")
    } else if body[0] == '0' {
        (16, body, "int:lead0")
    } else {
        (10, body, "int:dec")
    };
    // accumulate on the negative side so that -2^127 is reachable
    let mut acc: i128 = 0;
    let mut n = 0;
    let mut overflow = false;
    for &c in digits {
        if c == '_' {
            continue;
        }
        let d = match c {
            '0'..='9' => c as u32 - '0' as u32,
            'a'..='f' => c as u32 - 'a' as u32 + 10,
            'A'..='F' => c as u32 - 'A' as u32 + 10,
            '+' | '-' => return RefNum::Reject("int:sign-inside"),
            _ => return RefNum::Reject("int:bad-digit"),
        };
        if d >= radix {
            return RefNum::Reject("int:bad-digit");
        }
        n += 1;
        if !overflow {
            match acc.checked_mul(radix as i128).and_then(|a| a.checked_sub(d as i128)) {
                Some(a) => acc = a,
                None => overflow = true,
            }
        }
    }
    if n == 0 {
        return RefNum::Reject("int:no-digits");
    }
    if overflow {
        return RefNum::Reject("int:out-of-range");
    }
    if neg {
        RefNum::Int(acc, fam)
    } else {
        match acc.checked_neg() {
            Some(v) => RefNum::Int(v, fam),
            None => RefNum::Reject("int:out-of-range"),
        }
    }
}

fn ref_string(rest: &str) -> RTok {
    // rest starts with '"'
    let mut out = String::new();
    let mut it = rest.char_indices().skip(1).peekable();
    while let Some((i, c)) = it.next() {
        match c {
            '\\' => match it.next() {
                None => return RTok::Error("str:unterminated"),
                Some((_, '\\')) => out.push('\\'),
                Some((_, '"')) => out.push('"'),
                Some((_, 'n')) => out.push('\n'),
                Some((_, 'r')) => out.push('\r'),
                Some((_, 't')) => out.push('\t'),
                Some(_) => return RTok::Error("str:bad-escape"),
            },
            '"' => {
                let end = i + 1;
                return match it.peek() {
                    None => RTok::Str(out, end),
                    Some((_, n)) if is_ws(*n) => RTok::Str(out, end),
                    Some((_, n)) if n.is_whitespace() => RTok::Undocumented("non-ascii whitespace after string"),
                    Some(_) => RTok::Error("str:no-ws-after"),
                };
            }
            '\u{201d}' | '\u{201c}' => return RTok::Undocumented("typographic quote inside string"),
            c => out.push(c),
        }
    }
    RTok::Error("str:unterminated")
}

fn ref_bits(rest: &str) -> RTok {
    // rest starts with '|'
    let mut bits = vec![];
    let mut it = rest.char_indices().skip(1).peekable();
    while let Some((i, c)) = it.next() {
        let hex = match c {
            '0'..='9' => Some(c as u8 - b'0'),
            'a'..='f' => Some(c as u8 - b'a' + 10),
            'A'..='F' => Some(c as u8 - b'A' + 10),
            _ => None,
        };
        if let Some(h) = hex {
            for k in [8u8, 4, 2, 1] {
                bits.push(if h & k != 0 { 1 } else { 0 });
            }
        } else if is_ws(c) {
        } else if c == '.' {
            bits.push(0);
        } else if c == 'x' {
            bits.push(1);
        } else if c == '|' {
            let sep = match it.peek() {
                None => true,
                Some((_, n)) => is_ws(*n),
            };
            return RTok::Bits(bits, i + 1, sep);
        } else if c.is_whitespace() {
            return RTok::Undocumented("non-ascii whitespace inside bit-string");
        } else {
            return RTok::Error("bits:bad-char");
        }
    }
    RTok::Error("bits:unterminated")
}

/// the token the documented language has at the start of `rest`
pub fn ref_next(rest: &str) -> RTok {
    let c0 = match rest.chars().next() {
        None => return RTok::End,
        Some(c) => c,
    };
    if is_ws(c0) {
        let n = rest.char_indices().find(|(_, c)| !is_ws(*c)).map(|(i, _)| i).unwrap_or(rest.len());
        return RTok::Ws(n);
    }
    if c0 == '"' {
        return ref_string(rest);
    }
    if c0 == '\u{201c}' {
        return RTok::Undocumented("typographic opening quote");
    }
    if c0 == '|' {
        return ref_bits(rest);
    }
    let n = rest.char_indices().find(|(_, c)| is_ws(*c)).map(|(i, _)| i).unwrap_or(rest.len());
    let span = &rest[..n];
    if span.chars().any(|c| c.is_whitespace()) {
        return RTok::Undocumented("non-ascii whitespace inside a word");
    }
    match ref_number(span) {
        RefNum::Int(v, fam) => return RTok::Int(v, n, fam),
        RefNum::Real(x) => return RTok::Real(x, n),
        RefNum::Reject(why) => return RTok::Error(why),
        RefNum::NotNumeric => {}
    }
    if span == "\\" {
        let e = rest.find('\n').unwrap_or(rest.len());
        return RTok::LineComment(e);
    }
    if span == "\\(" {
        // ends with the first whitespace-delimited token `\)`
        let b = rest.as_bytes();
        let mut i = n;
        while i < b.len() {
            // skip whitespace
            while i < b.len() && is_ws(b[i] as char) && b[i] < 0x80 {
                i += 1;
            }
            let s = i;
            while i < b.len() && !(b[i] < 0x80 && is_ws(b[i] as char)) {
                i += 1;
            }
            if &rest[s..i] == "\\)" {
                let max = if i < b.len() { i + 1 } else { i };
                return RTok::BlockComment(i, max);
            }
        }
        return RTok::Error("comment:unterminated");
    }
    RTok::Word(n)
}

fn rtok_class(t: &RTok) -> String {
    match t {
        RTok::End => "end".into(),
        RTok::Ws(_) => "ws".into(),
        RTok::Word(_) => "word".into(),
        RTok::LineComment(_) => "comment:line".into(),
        RTok::BlockComment(..) => "comment:block".into(),
        RTok::Int(_, _, fam) => fam.to_string(),
        RTok::Real(..) => "real".into(),
        RTok::Str(..) => "str".into(),
        RTok::Bits(..) => "bits".into(),
        RTok::Error(w) => format!("error({})", w),
        RTok::Undocumented(_) => "undocumented".into(),
    }
}

fn rtok_describe(t: &RTok, rest: &str) -> String {
    match t {
        RTok::End => "EndOfInput".into(),
        RTok::Ws(n) => format!("Whitespace {:?}", &rest[..*n]),
        RTok::Word(n) => format!("Word {:?}", &rest[..*n]),
        RTok::LineComment(n) => format!("Comment {:?}", &rest[..*n]),
        RTok::BlockComment(a, b) => format!("Comment {:?} (separator after it may be included: {} or {} bytes)", &rest[..*a], a, b),
        RTok::Int(v, n, fam) => format!("Literal Int({}) from {:?} [{}]", v, &rest[..*n], fam),
        RTok::Real(x, n) => format!("Literal Real({:?} bits={:#x}) from {:?}", x, x.to_bits(), &rest[..*n]),
        RTok::Str(s, n) => format!("Literal Str({:?}) from {:?}", s, &rest[..*n]),
        RTok::Bits(b, n, _) => format!("Literal Bitstr({}) from {:?}", b.iter().map(|x| if *x == 1 { '1' } else { '0' }).collect::<String>(), &rest[..*n]),
        RTok::Error(w) => format!("rejected ({})", w),
        RTok::Undocumented(w) => format!("(no demand: {})", w),
    }
}

fn tok_describe(t: &Tok) -> String {
    match t {
        Tok::EndOfInput => "EndOfInput".into(),
        Tok::Word(s) => format!("Word {:?}", s.as_str()),
        Tok::Whitespace(s) => format!("Whitespace {:?}", s.as_str()),
        Tok::Comment(s) => format!("Comment {:?}", s.as_str()),
        Tok::Literal(c) => format!("Literal {}", render(c)),
    }
}

// ------------------------------------------------------------------ checking one input
pub struct Loc {
    pub cover: BTreeMap<String, u64>,
    pub inputs: u64,
    pub calls: u64,
    pub compared: u64,
    pub nontrivial: u64,
}

impl Loc {
    pub fn new() -> Loc {
        Loc { cover: BTreeMap::new(), inputs: 0, calls: 0, compared: 0, nontrivial: 0 }
    }
}

fn weight_of(s: &str) -> u64 {
    // length first; a hash of the text makes the order total, so the recorded replay does not depend on thread timing
    ((s.chars().count() as u64) << 40) + ((s.len() as u64) << 28) + (hash128(s) as u64 & 0xfff_ffff)
}

fn report(rep: &Reporter, key: &str, fam: &str, input: &str, offset: usize, index: usize, expected: String, observed: String) {
    rep.report_w(key, weight_of(input), || {
        jo(vec![
            ("kind", js("lex")),
            ("family", js(fam)),
            ("input", js(input)),
            ("token_index", ji(index)),
            ("byte_offset", ji(offset)),
            ("expected", js(expected)),
            ("observed", js(observed)),
        ])
    });
}

/// lexes `input` with the real lexer; checks the generic obligations and, token by token,
/// agreement with the reference tokenizer
pub fn check_input(input: &str, fam: &str, lo: &mut Loc, rep: &Reporter) {
    lo.inputs += 1;
    let nchars = input.chars().count();
    let cap = nchars + 2;
    let mut lex = Lex::new(Xstr::from(input));
    let mut pos = 0usize; // bytes accounted for by the tokens returned so far
    let mut refcheck = true;
    let mut interesting = false;
    let mut prev_ws = false;
    for index in 0..=cap {
        if index == cap {
            report(rep, "tiling:nontermination", fam, input, pos, index, format!("EndOfInput or an error within {} calls", cap), "still returning tokens".into());
            break;
        }
        let rest = &input[pos..];
        let exp = if refcheck { ref_next(rest) } else { RTok::Undocumented("after an undocumented construct") };
        lo.calls += 1;
        let got = match guarded(|| {
            let r = lex.next();
            let sub = lex.last_substr();
            (r, sub)
        }) {
            Ok(x) => x,
            Err(p) => {
                report(rep, &format!("panic:lex:{}", rtok_class(&exp)), fam, input, pos, index, rtok_describe(&exp, rest), format!("PANIC: {}", truncate(&p, 160)));
                break;
            }
        };
        let (res, sub) = got;
        if refcheck {
            lo.compared += 1;
            bump(&mut lo.cover, &format!("expected {}", rtok_class(&exp)));
            if !matches!(exp, RTok::Ws(_) | RTok::Word(_) | RTok::End | RTok::Undocumented(_)) {
                interesting = true;
            }
        }
        let tok = match res {
            Err(e) => {
                // the scan stops here; what was returned before must be a prefix (it is: pos <= len)
                let is_parse = matches!(e, Xerr::ParseError { .. });
                match &exp {
                    RTok::Error(_) | RTok::Undocumented(_) => {
                        if !is_parse {
                            report(rep, "error-kind", fam, input, pos, index, "a ParseError".into(), err_kind(&e));
                        }
                    }
                    RTok::Bits(_, _, false) => {} // literal not followed by a separator: rejection allowed
                    other => {
                        report(rep, &format!("rejected:{}", rtok_class(other)), fam, input, pos, index, rtok_describe(other, rest), format!("error {}", err_kind(&e)));
                    }
                }
                return finish(lo, interesting);
            }
            Ok(t) => t,
        };
        let text = sub.as_str();
        // ---- generic obligations
        if !input[pos..].starts_with(text) {
            report(rep, "tiling:lost-text", fam, input, pos, index, format!("token text continuing at byte {}", pos), format!("{} with text {:?}", tok_describe(&tok), text));
            break;
        }
        if tok == Tok::EndOfInput {
            if pos != input.len() || !text.is_empty() {
                report(rep, "tiling:lost-text", fam, input, pos, index, format!("tokens covering all {} bytes", input.len()), format!("EndOfInput after {} bytes", pos));
            } else if refcheck && !matches!(exp, RTok::End | RTok::Undocumented(_)) {
                report(rep, &format!("class:{}->end", rtok_class(&exp)), fam, input, pos, index, rtok_describe(&exp, rest), "EndOfInput".into());
            }
            break;
        }
        if text.is_empty() {
            report(rep, "tiling:empty-token", fam, input, pos, index, "a non-empty token".into(), tok_describe(&tok));
            break;
        }
        match &tok {
            Tok::Word(s) | Tok::Whitespace(s) | Tok::Comment(s) => {
                if s.as_str() != text {
                    report(rep, "tiling:payload", fam, input, pos, index, format!("payload equal to the token text {:?}", text), tok_describe(&tok));
                    break;
                }
            }
            _ => {}
        }
        match &tok {
            Tok::Whitespace(s) => {
                if prev_ws || !s.chars().all(|c| c.is_whitespace()) {
                    report(rep, "class:whitespace-token", fam, input, pos, index, "one maximal run of whitespace".into(), tok_describe(&tok));
                    break;
                }
                prev_ws = true;
            }
            Tok::Word(s) => {
                prev_ws = false;
                let c0 = s.chars().next().unwrap();
                if s.chars().any(is_ws) || c0.is_ascii_digit() || c0 == '"' {
                    report(rep, "class:word-token", fam, input, pos, index, "a word has no whitespace and does not start with a digit or a double quote".into(), tok_describe(&tok));
                    break;
                }
            }
            _ => prev_ws = false,
        }
        // ---- agreement with the reference
        let n = text.len();
        if refcheck {
            let mism: Option<String> = match (&exp, &tok) {
                (RTok::Undocumented(_), _) => {
                    refcheck = false;
                    None
                }
                (RTok::Error(w), t) => Some(format!("accepted:{}|{}", w, tok_describe(t))),
                (RTok::End, _) => Some("class:end->token".into()),
                (RTok::Ws(m), Tok::Whitespace(_)) | (RTok::Word(m), Tok::Word(_)) | (RTok::LineComment(m), Tok::Comment(_)) => {
                    if *m == n { None } else { Some(format!("extent:{}", rtok_class(&exp))) }
                }
                (RTok::BlockComment(a, b), Tok::Comment(_)) => {
                    if n == *a || n == *b { None } else { Some("extent:comment:block".into()) }
                }
                (RTok::Int(v, m, fam), Tok::Literal(Cell::Int(g))) => {
                    if v != g {
                        Some(format!("value:{}", fam))
                    } else if *m != n {
                        Some(format!("extent:{}", fam))
                    } else {
                        None
                    }
                }
                (RTok::Real(x, m), Tok::Literal(Cell::Real(g))) => {
                    let same = if x.is_nan() { g.is_nan() } else { x.to_bits() == g.to_bits() };
                    if !same {
                        Some("value:real".into())
                    } else if *m != n {
                        Some("extent:real".into())
                    } else {
                        None
                    }
                }
                (RTok::Str(s, m), Tok::Literal(Cell::Str(g))) => {
                    if s.as_str() != g.as_str() {
                        Some("value:str".into())
                    } else if *m != n {
                        Some("extent:str".into())
                    } else {
                        None
                    }
                }
                (RTok::Bits(bits, m, _), Tok::Literal(Cell::Bitstr(g))) => {
                    let gb: Vec<u8> = g.bits().collect();
                    if &gb != bits || g.len() != bits.len() {
                        Some("value:bits".into())
                    } else if *m != n {
                        Some("extent:bits".into())
                    } else {
                        None
                    }
                }
                (e, t) => {
                    let got = match t {
                        Tok::Word(_) => "word",
                        Tok::Whitespace(_) => "ws",
                        Tok::Comment(_) => "comment",
                        Tok::Literal(Cell::Int(_)) => "int",
                        Tok::Literal(Cell::Real(_)) => "real",
                        Tok::Literal(Cell::Str(_)) => "str",
                        Tok::Literal(Cell::Bitstr(_)) => "bits",
                        Tok::Literal(_) => "literal",
                        Tok::EndOfInput => "end",
                    };
                    Some(format!("class:{}->{}", rtok_class(e), got))
                }
            };
            if let Some(key) = mism {
                let key = key.split('|').next().unwrap().to_string();
                report(rep, &key, fam, input, pos, index, rtok_describe(&exp, rest), format!("{} (token text {:?})", tok_describe(&tok), text));
                break;
            }
        }
        pos += n;
    }
    finish(lo, interesting)
}

fn finish(lo: &mut Loc, interesting: bool) {
    if interesting {
        lo.nontrivial += 1;
    }
}

// ------------------------------------------------------------------ string enumeration
/// all strings prefix + w, w over `alpha` with |w| <= maxlen, partitioned over the threads
fn sweep(cfg: &Cfg, fam: &str, prefixes: &[String], alpha: &[char], maxlen: usize, filter: &(dyn Fn(&str) -> bool + Sync), rep: &Reporter, tot: &Totals) -> u64 {
    // tasks: (prefix, length, first two letters fixed when length >= 3)
    let k = alpha.len();
    let mut tasks: Vec<(usize, usize, Option<usize>)> = vec![];
    for (pi, _) in prefixes.iter().enumerate() {
        for len in 0..=maxlen {
            if len >= 3 {
                for h in 0..k * k {
                    tasks.push((pi, len, Some(h)));
                }
            } else {
                tasks.push((pi, len, None));
            }
        }
    }
    let count = AtomicU64::new(0);
    par_run(cfg.threads, tasks.len(), 4, |_t, pull| {
        let mut lo = Loc::new();
        let mut buf = String::new();
        let mut n = 0u64;
        while let Some(r) = pull() {
            for ti in r {
                let (pi, len, head) = tasks[ti];
                let free = if head.is_some() { len - 2 } else { len };
                let mut idx = vec![0usize; free];
                loop {
                    buf.clear();
                    buf.push_str(&prefixes[pi]);
                    if let Some(h) = head {
                        buf.push(alpha[h / k]);
                        buf.push(alpha[h % k]);
                    }
                    for &i in &idx {
                        buf.push(alpha[i]);
                    }
                    if filter(&buf) {
                        n += 1;
                        check_input(&buf, fam, &mut lo, rep);
                    }
                    // next
                    let mut p = free;
                    loop {
                        if p == 0 {
                            break;
                        }
                        p -= 1;
                        idx[p] += 1;
                        if idx[p] < k {
                            p = usize::MAX;
                            break;
                        }
                        idx[p] = 0;
                    }
                    if p != usize::MAX {
                        break;
                    }
                }
            }
        }
        bump_by(&mut lo.cover, &format!("family {}", fam), n);
        tot.merge(&lo);
        count.fetch_add(n, Ordering::Relaxed);
    });
    count.load(Ordering::Relaxed)
}

fn bump_by(m: &mut BTreeMap<String, u64>, k: &str, n: u64) {
    *m.entry(k.to_string()).or_insert(0) += n;
}

pub struct Totals {
    cover: Counters,
    inputs: AtomicU64,
    calls: AtomicU64,
    compared: AtomicU64,
    nontrivial: AtomicU64,
}

impl Totals {
    fn new() -> Totals {
        Totals { cover: Counters::new(), inputs: AtomicU64::new(0), calls: AtomicU64::new(0), compared: AtomicU64::new(0), nontrivial: AtomicU64::new(0) }
    }
    fn merge(&self, lo: &Loc) {
        self.cover.merge(&lo.cover);
        self.inputs.fetch_add(lo.inputs, Ordering::Relaxed);
        self.calls.fetch_add(lo.calls, Ordering::Relaxed);
        self.compared.fetch_add(lo.compared, Ordering::Relaxed);
        self.nontrivial.fetch_add(lo.nontrivial, Ordering::Relaxed);
    }
}

fn list_family(cfg: &Cfg, fam: &str, items: &[String], rep: &Reporter, tot: &Totals) {
    par_run(cfg.threads, items.len(), 16, |_t, pull| {
        let mut lo = Loc::new();
        let mut n = 0;
        while let Some(r) = pull() {
            for i in r {
                n += 1;
                check_input(&items[i], fam, &mut lo, rep);
            }
        }
        bump_by(&mut lo.cover, &format!("family {}", fam), n);
        tot.merge(&lo);
    });
}

// ------------------------------------------------------------------ boundary spellings
fn boundary_numbers() -> Vec<String> {
    let mut v: Vec<String> = vec![];
    let max = i128::MAX.to_string(); // 2^127-1
    let p127 = "170141183460469231731687303715884105728".to_string(); // 2^127
    let p127p1 = "170141183460469231731687303715884105729".to_string();
    for s in [&max, &p127, &p127p1] {
        for sign in ["", "+", "-"] {
            v.push(format!("{}{}", sign, s));
            v.push(format!("{}{}0", sign, s)); // one more digit
            v.push(format!("{}{}_", sign, s));
            v.push(format!("{}{}_{}", sign, &s[..3], &s[3..]));
        }
    }
    v.push("340282366920938463463374607431768211455".into()); // 2^128-1
    v.push("340282366920938463463374607431768211456".into()); // 2^128
    v.push("-340282366920938463463374607431768211456".into());
    v.push("999999999999999999999999999999999999999".into());
    v.push("1000000000000000000000000000000000000000".into());
    let h_max = format!("7{}", "f".repeat(31));
    let h_min = format!("8{}", "0".repeat(31));
    let h_min1 = format!("8{}1", "0".repeat(30));
    let h_all = "f".repeat(32);
    let h33 = format!("1{}", "0".repeat(32));
    for digits in [&h_max, &h_min, &h_min1, &h_all, &h33] {
        for sign in ["", "+", "-"] {
            v.push(format!("{}0x{}", sign, digits));
            v.push(format!("{}0x{}", sign, digits.to_uppercase()));
            v.push(format!("{}0{}", sign, digits)); // leading zero = hex
            v.push(format!("{}0x000000{}", sign, digits)); // more than 32 digits, same value
            v.push(format!("{}0x{}_{}", sign, &digits[..4], &digits[4..]));
        }
    }
    let b_max = "1".repeat(127);
    let b_min = format!("1{}", "0".repeat(127));
    let b_min1 = format!("1{}1", "0".repeat(126));
    let b_129 = format!("1{}", "0".repeat(128));
    for digits in [&b_max, &b_min, &b_min1, &b_129] {
        for sign in ["", "+", "-"] {
            v.push(format!("{}0b{}", sign, digits));
            v.push(format!("{}0b0000{}", sign, digits));
            v.push(format!("{}0b{}_{}", sign, &digits[..8], &digits[8..]));
        }
    }
    // pinned spellings of the suite and the README
    for s in [
        "0f", "0_ff", "010", "0x00_ff", "123_0_00_", "0b_1_1", "0_", "0_.1", "12-", "-0x", "-0b", "0x0.1", "1_000", "0x11_EE", "0b1111_1111", "-99", "+0", "-0x1", "0B1", "0X1", "00", "09", "0b2",
        "0xg", "1e5", "01e5", "0x-1", "0x+1", "0b-1", "0b+1", "-0x-1", "0x_-1", "0-1", "1+1", "1_", "1__2", "0x__", "0b_", "+1_", "-_1", "7", "-7",
    ] {
        v.push(s.to_string());
    }
    // reals
    for s in [
        "2.78", "-1.2e-5", "1.2", "0.1_1", "0.1", "0.30000000000000004", "1.7976931348623157e308", "1.7976931348623158e308", "1.7976931348623159e308", "1.8e308", "-1.8e308", "4.9e-324", "2.4703282292062327e-324",
        "2.4703282292062328e-324", "2.5e-324", "9007199254740993.0", "9007199254740992.5", "0.1e1", "1.e5", "1.", "1.5e", "1.5e+", "1.5E3", "1.5e+3", "1.5e-3", "1.5e3.0", "1..5", "1.5.", "-0.0", "+0.0", "0.0", "00.5", "0x1.8",
        "0b1.1", "0a.5", "1_0.5_0", "1._5", "1.5_e3", "1.5e_3", "123456789012345678901234567890.123456789", "0.000000000000000000000000000000000000001", "3.141592653589793238462643383279", "1.0000000000000002",
        "1.00000000000000011102230246251565404236316680908203125", "1.00000000000000011102230246251565404236316680908203124", "1.00000000000000011102230246251565404236316680908203126", "179769313486231580793728971405303415079934132710037826936173778980444968292764750946649017977587207096330286416692887910946555547851940402630657488671505820681908902000708383676273854845817711531764475730270069855571366959622842914819860834936475292719074168444365510704342711559699508093042880177904174497791.9",
    ] {
        v.push(s.to_string());
    }
    let mut seen = BTreeSet::new();
    v.retain(|s| seen.insert(s.clone()));
    v
}

// ------------------------------------------------------------------ print -> read
#[derive(Clone, Debug)]
pub enum PV {
    Int(i128),
    Bits(Vec<u8>),
    Vec(Vec<PV>),
    Map(Vec<(PV, PV)>), // (key, value)
}

impl PV {
    fn cell(&self) -> Cell {
        match self {
            PV::Int(i) => Cell::Int(*i),
            PV::Bits(b) => {
                let mut bb = BitvecBuilder::default();
                for x in b {
                    bb.append_bit(*x);
                }
                Cell::Bitstr(bb.finish())
            }
            PV::Vec(v) => {
                let mut out = Xvec::new();
                for x in v {
                    out.push_back_mut(x.cell());
                }
                Cell::Vector(out)
            }
            PV::Map(m) => {
                let mut out = Xmap::new();
                for (k, v) in m {
                    out.insert_mut(k.cell(), v.cell());
                }
                Cell::Map(out)
            }
        }
    }
    fn shape(&self) -> String {
        match self {
            PV::Int(_) => "int".into(),
            PV::Bits(_) => "bitstr".into(),
            PV::Vec(v) => {
                let inner: BTreeSet<String> = v.iter().map(|x| x.shape()).collect();
                format!("vec[{}]", inner.into_iter().collect::<Vec<_>>().join(","))
            }
            PV::Map(m) => {
                let inner: BTreeSet<String> = m.iter().map(|(k, v)| format!("{}=>{}", k.shape(), v.shape())).collect();
                format!("map[{}]", inner.into_iter().collect::<Vec<_>>().join(","))
            }
        }
    }
    fn size(&self) -> u64 {
        match self {
            PV::Int(i) => 1 + (128 - i.unsigned_abs().leading_zeros()) as u64 / 8,
            PV::Bits(b) => 1 + b.len() as u64,
            PV::Vec(v) => 2 + v.iter().map(|x| x.size()).sum::<u64>(),
            PV::Map(m) => 2 + m.iter().map(|(k, v)| k.size() + v.size()).sum::<u64>(),
        }
    }
}

fn int_alphabet(seed: u64) -> Vec<i128> {
    let mut s: BTreeSet<i128> = BTreeSet::new();
    for v in [0i128, 1, 2, 3, 7, 9, 10, 15, 16, 17, 99, 100] {
        s.insert(v);
        s.insert(-v);
    }
    for k in 1..=126u32 {
        let p = 1i128 << k;
        for v in [p - 1, p, p + 1] {
            s.insert(v);
            s.insert(-v);
        }
    }
    for v in [i128::MIN, i128::MIN + 1, i128::MAX, i128::MAX - 1] {
        s.insert(v);
    }
    // powers of ten: digit-count boundaries of the decimal printer
    let mut p: i128 = 1;
    for _ in 0..38 {
        p *= 10;
        for v in [p - 1, p, -p, -(p - 1)] {
            s.insert(v);
        }
    }
    if seed != 0 {
        for i in 0..8u64 {
            let hi = mix(seed, 2 * i) as u128;
            let lo = mix(seed, 2 * i + 1) as u128;
            let sh = (mix(seed, 100 + i) % 120) as u32;
            s.insert((((hi << 64) | lo) as i128) >> sh);
        }
    }
    s.into_iter().collect()
}

fn all_bits(maxlen: usize) -> Vec<Vec<u8>> {
    let mut v = vec![];
    for len in 0..=maxlen {
        for x in 0..(1u32 << len) {
            v.push((0..len).map(|i| ((x >> (len - 1 - i)) & 1) as u8).collect());
        }
    }
    v
}

fn print_read_values(seed: u64, thorough: bool) -> Vec<PV> {
    let ints: Vec<PV> = int_alphabet(seed).into_iter().map(PV::Int).collect();
    let bits: Vec<PV> = all_bits(12).into_iter().map(PV::Bits).collect();
    let mut atoms: Vec<PV> = ints.clone();
    atoms.extend(bits.iter().cloned());
    // reduced sets for the products
    let r_int: Vec<PV> = [0i128, -1, 255, i128::MIN, i128::MAX].iter().map(|i| PV::Int(*i)).collect();
    let r_bits: Vec<PV> = all_bits(if thorough { 5 } else { 3 }).into_iter().map(PV::Bits).collect();
    let mut r_atoms = r_int.clone();
    r_atoms.extend(r_bits.iter().cloned());
    r_atoms.push(PV::Bits(vec![1, 0, 1, 0, 0, 1, 0, 1, 1])); // 9 bits
    r_atoms.push(PV::Bits(vec![1, 1, 1, 1, 0, 0, 0, 0, 1, 0, 1, 0])); // 12 bits
    let keys: Vec<PV> = [0i128, -1, 7, i128::MIN, i128::MAX].iter().map(|i| PV::Int(*i)).collect();

    let mut out: Vec<PV> = atoms.clone();
    // depth 1
    let mut d1: Vec<PV> = vec![PV::Vec(vec![]), PV::Map(vec![])];
    for a in &atoms {
        d1.push(PV::Vec(vec![a.clone()]));
    }
    for a in &r_atoms {
        for b in &r_atoms {
            d1.push(PV::Vec(vec![a.clone(), b.clone()]));
        }
    }
    for k in &keys {
        for v in &atoms {
            d1.push(PV::Map(vec![(k.clone(), v.clone())]));
        }
    }
    for k in &ints {
        d1.push(PV::Map(vec![(k.clone(), PV::Int(5))]));
    }
    // a single bit-string key (several bit-string keys in one map are C12's subject)
    for k in &r_bits {
        for v in &r_atoms {
            d1.push(PV::Map(vec![(k.clone(), v.clone())]));
        }
    }
    for (i, k1) in keys.iter().enumerate() {
        for k2 in &keys[i + 1..] {
            for v1 in &r_atoms {
                for v2 in &r_atoms {
                    d1.push(PV::Map(vec![(k1.clone(), v1.clone()), (k2.clone(), v2.clone())]));
                }
            }
        }
    }
    out.extend(d1.iter().cloned());
    // depth 2: containers of a reduced set of depth-1 containers and atoms
    let mut r_d1: Vec<PV> = vec![PV::Vec(vec![]), PV::Map(vec![])];
    let pick: Vec<PV> = vec![PV::Int(-1), PV::Int(i128::MIN), PV::Bits(vec![]), PV::Bits(vec![1]), PV::Bits(vec![1, 0, 1, 0, 0, 1, 0, 1, 1]), PV::Bits(vec![0; 8])];
    for a in &pick {
        r_d1.push(PV::Vec(vec![a.clone()]));
        r_d1.push(PV::Map(vec![(PV::Int(3), a.clone())]));
        for b in &pick {
            r_d1.push(PV::Vec(vec![a.clone(), b.clone()]));
            r_d1.push(PV::Map(vec![(PV::Int(-2), a.clone()), (PV::Int(i128::MAX), b.clone())]));
        }
    }
    let mut elems = r_d1.clone();
    elems.extend(pick.iter().cloned());
    for a in &r_d1 {
        out.push(PV::Vec(vec![a.clone()]));
        out.push(PV::Map(vec![(PV::Int(1), a.clone())]));
    }
    for a in &elems {
        for b in &elems {
            if matches!(a, PV::Vec(_) | PV::Map(_)) || matches!(b, PV::Vec(_) | PV::Map(_)) {
                out.push(PV::Vec(vec![a.clone(), b.clone()]));
                out.push(PV::Map(vec![(PV::Int(0), a.clone()), (PV::Int(9), b.clone())]));
            }
        }
    }
    out
}

fn depth_of(v: &PV) -> usize {
    match v {
        PV::Int(_) | PV::Bits(_) => 0,
        PV::Vec(x) => 1 + x.iter().map(depth_of).max().unwrap_or(0),
        PV::Map(m) => 1 + m.iter().map(|(_, v)| depth_of(v)).max().unwrap_or(0),
    }
}

/// prints `pv`, reads the text back; None = round trip holds
fn round_trip(base: &Xstate, pv: &PV) -> Option<(&'static str, String, String)> {
    let cell = pv.cell();
    let text = match guarded(|| base.format_cell(&cell)) {
        Err(p) => return Some(("print-panic", String::new(), format!("PANIC in format_cell: {}", truncate(&p, 160)))),
        Ok(Err(e)) => return Some(("print-error", String::new(), format!("format_cell error {}", err_kind(&e)))),
        Ok(Ok(t)) => t,
    };
    let mut xs = base.clone();
    match guarded(|| xs.eval(&text)) {
        Err(p) => Some(("read-panic", text, format!("PANIC: {}", truncate(&p, 160)))),
        Ok(Err(e)) => Some(("rejected", text, format!("error {}", err_kind(&e)))),
        Ok(Ok(())) => {
            if xs.data_depth() != 1 {
                Some(("differs", text, format!("{} values on the stack: {:?}", xs.data_depth(), stack_of(&xs))))
            } else {
                let got = xs.get_data(0).unwrap();
                if got != &cell || render(got) != render(&cell) {
                    Some(("differs", text, format!("read back {}", render(got))))
                } else {
                    None
                }
            }
        }
    }
}

/// the smallest sub-value of a failing value that fails on its own (one defect = one key)
fn blame(base: &Xstate, pv: &PV) -> PV {
    let kids: Vec<&PV> = match pv {
        PV::Vec(v) => v.iter().collect(),
        PV::Map(m) => m.iter().flat_map(|(k, v)| [k, v]).collect(),
        _ => vec![],
    };
    for k in kids {
        if round_trip(base, k).is_some() {
            return blame(base, k);
        }
    }
    pv.clone()
}

fn print_read(cfg: &Cfg, rep: &Reporter, tot: &Totals, samples: &Mutex<Vec<J>>) -> u64 {
    let vals = print_read_values(cfg.seed, !cfg.quick());
    let evals = AtomicU64::new(0);
    par_run(cfg.threads, vals.len(), 64, |_t, pull| {
        let base = boot();
        let mut lo = Loc::new();
        let mut n = 0u64;
        while let Some(r) = pull() {
            for i in r {
                let pv = &vals[i];
                let shape = match pv {
                    PV::Int(_) => "int".to_string(),
                    PV::Bits(_) => "bitstr".to_string(),
                    PV::Vec(_) => format!("vec-depth{}", depth_of(pv)),
                    PV::Map(_) => format!("map-depth{}", depth_of(pv)),
                };
                bump(&mut lo.cover, &format!("print-read {}", shape));
                n += 1;
                lo.inputs += 1;
                lo.compared += 1;
                if !matches!(pv, PV::Int(_)) {
                    lo.nontrivial += 1;
                }
                if i % 4001 == 17 {
                    let mut s = samples.lock().unwrap();
                    if s.len() < 4 {
                        let c = pv.cell();
                        s.push(jo(vec![("family", js("print-read")), ("value", js(render(&c))), ("printed", js(base.format_cell(&c).unwrap_or_default()))]));
                    }
                }
                if round_trip(&base, pv).is_some() {
                    let culprit = blame(&base, pv);
                    let (kind, text, observed) = round_trip(&base, &culprit).unwrap_or(("differs", String::new(), "(only the enclosing value fails)".into()));
                    let cshape = match &culprit {
                        PV::Int(_) => "int",
                        PV::Bits(_) => "bitstr",
                        PV::Vec(_) => "vec",
                        PV::Map(_) => "map",
                    };
                    rep.report_w(&format!("print-read:{}:{}", cshape, kind), ((culprit.size() * 1000 + text.len() as u64) << 24) + (hash128(&text) as u64 & 0xff_ffff), || {
                        jo(vec![
                            ("kind", js("print-read")),
                            ("value", js(render(&culprit.cell()))),
                            ("value_shape", js(culprit.shape())),
                            ("printed", js(text.clone())),
                            ("expected", js("eval of the printed text leaves one value equal to the original")),
                            ("observed", js(observed.clone())),
                        ])
                    });
                }
            }
        }
        evals.fetch_add(n, Ordering::Relaxed);
        tot.merge(&lo);
    });
    evals.load(Ordering::Relaxed)
}

// ------------------------------------------------------------------ driver
pub fn run(cfg: &Cfg) -> i32 {
    let rep = Reporter::new("C16");
    let mut ev = Evidence::new("C16", cfg);
    let tot = Totals::new();
    let quick = cfg.quick();
    let envn = |k: &str, d: usize| std::env::var(k).ok().and_then(|s| s.parse().ok()).unwrap_or(d);
    let all = |_: &str| true;
    let nop: Vec<String> = vec![String::new()];
    let mut fams: Vec<J> = vec![];
    let mut add = |name: &str, alpha: String, maxlen: usize, n: u64, t0: std::time::Instant| {
        println!("C16 {}: {} inputs, {:.1}s", name, n, t0.elapsed().as_secs_f64());
        fams.push(jo(vec![("family", js(name)), ("alphabet", js(alpha)), ("max_length", ji(maxlen)), ("inputs", ji(n)), ("wall_s", J::F(t0.elapsed().as_secs_f64()))]));
    };

    // reference self-test on the pinned examples of the suite (a wrong reference is a machinery error)
    for (s, want) in [("0f", 15i128), ("010", 16), ("0_ff", 255), ("0x00_ff", 255), ("123_0_00_", 123000), ("0b_1_1", 3), ("0_", 0), ("-0x1", -1), ("+0", 0), ("-170141183460469231731687303715884105728", i128::MIN)] {
        match ref_number(s) {
            RefNum::Int(v, _) if v == want => {}
            o => machinery_error(&format!("C16 reference reader: {} gives {:?}", s, o)),
        }
    }
    for s in ["12-", "-0x", "-0b", "0x0.1", "170141183460469231731687303715884105728"] {
        if !matches!(ref_number(s), RefNum::Reject(_)) {
            machinery_error(&format!("C16 reference reader accepts {}", s));
        }
    }
    for s in ["-f", "-x1", "--1", ".0", "-_", "+"] {
        if ref_number(s) != RefNum::NotNumeric {
            machinery_error(&format!("C16 reference reader: {} is a word", s));
        }
    }

    // F1 adversarial alphabet
    let sigma: Vec<char> = vec![' ', '\n', '\t', '\r', '\x0c', '\x0b', '"', '\\', '(', ')', '|', 'x', '.', '0', '1', '9', 'a', 'f', 'g', '-', '+', '_', 'b', 'e', 'é', '\u{201c}', '\u{201d}', '😀', '\u{a0}'];
    let l1 = envn("VERIF_C16_L", if quick { 5 } else { 6 });
    let t0 = std::time::Instant::now();
    let n = sweep(cfg, "F1-adversarial", &nop, &sigma, l1, &all, &rep, &tot);
    add("F1-adversarial", sigma.iter().map(|c| c.escape_default().to_string()).collect::<Vec<_>>().join(" "), l1, n, t0);

    // F2 integer spellings
    let signs = ["", "-", "+"];
    let dec: Vec<char> = "0123456789_a-".chars().collect();
    let hex: Vec<char> = "0123456789abcdefAF_g-".chars().collect();
    let bin: Vec<char> = "01_2-".chars().collect();
    let (ld, lh, lb) = if quick { (4, 4, 6) } else { (5, 5, 9) };
    let mk = |p: &str| -> Vec<String> { signs.iter().map(|s| format!("{}{}", s, p)).collect() };
    let t0 = std::time::Instant::now();
    let mut n = 0;
    // decimal: first digit fixed (1 or 9) so that the token is numeric and not leading-zero
    let mut dp = mk("1");
    dp.extend(mk("9"));
    n += sweep(cfg, "F2-int-decimal", &dp, &dec, ld, &all, &rep, &tot);
    n += sweep(cfg, "F2-int-0x", &mk("0x"), &hex, lh, &all, &rep, &tot);
    n += sweep(cfg, "F2-int-leading-zero", &mk("0"), &hex, lh, &all, &rep, &tot);
    n += sweep(cfg, "F2-int-0b", &mk("0b"), &bin, lb, &all, &rep, &tot);
    let bn = boundary_numbers();
    list_family(cfg, "F2F3-boundary-spellings", &bn, &rep, &tot);
    n += bn.len() as u64;
    add("F2-integers", format!("sign x prefix x body; decimal body over {:?} (<= {}), hex over {:?} (<= {}), binary over {:?} (<= {}); {} boundary spellings", dec.iter().collect::<String>(), ld, hex.iter().collect::<String>(), lh, bin.iter().collect::<String>(), lb, bn.len()), lh, n, t0);

    // F3 reals
    let ra: Vec<char> = "0159.eE-+_".chars().collect();
    let l3 = if quick { 6 } else { 7 };
    let t0 = std::time::Instant::now();
    let numeric_dot = |s: &str| {
        let b = s.as_bytes();
        let d = if !b.is_empty() && (b[0] == b'-' || b[0] == b'+') { 1 } else { 0 };
        b.len() > d && b[d].is_ascii_digit() && s.contains('.')
    };
    let n = sweep(cfg, "F3-reals", &nop, &ra, l3, &numeric_dot, &rep, &tot);
    add("F3-reals", format!("{} (only spellings that start with a digit or sign+digit and contain '.')", ra.iter().collect::<String>()), l3, n, t0);

    // F4 strings
    let sa: Vec<char> = vec!['a', '\\', '"', 'n', 'r', 't', 'x', '\n', 'é', ' '];
    let l4 = if quick { 5 } else { 7 };
    let t0 = std::time::Instant::now();
    let n = sweep(cfg, "F4-strings", &["\"".to_string()], &sa, l4, &all, &rep, &tot);
    add("F4-strings", "opening quote + bodies over a \\ \" n r t x newline e-acute space".into(), l4, n, t0);

    // F5 bit-string literals
    let ba: Vec<char> = vec!['0', '9', 'a', 'F', 'x', '.', ' ', 'g', '|'];
    let l5 = if quick { 6 } else { 8 };
    let t0 = std::time::Instant::now();
    let n = sweep(cfg, "F5-bitstr", &["|".to_string()], &ba, l5, &all, &rep, &tot);
    add("F5-bitstr", "opening bar + bodies over 0 9 a F x . space g |".into(), l5, n, t0);

    // F6 comments
    let ca: Vec<char> = vec!['\\', '(', ')', ' ', '\n', 'a'];
    let l6 = if quick { 7 } else { 9 };
    let t0 = std::time::Instant::now();
    let n = sweep(cfg, "F6-comments", &nop, &ca, l6, &all, &rep, &tot);
    add("F6-comments", "\\ ( ) space newline a".into(), l6, n, t0);

    // F3b long real spellings: 15 / 16 / 17 significant digits (around the point where a mantissa no longer
    // fits the 53 bits of a double), an arithmetic progression of mantissas x decimal-point positions; the
    // reference is the standard decimal-to-double conversion
    {
        let t0 = std::time::Instant::now();
        let count: u64 = if quick { 40_000 } else { 400_000 };
        let (lo16, hi16) = (9_007_199_254_740_993u64, 9_999_999_999_999_999u64);
        let step = (hi16 - lo16) / count;
        let mut items: Vec<String> = Vec::with_capacity(count as usize * 6);
        for i in 0..count {
            let m = lo16 + i * step + (i % 7);
            let d16 = m.to_string();
            let d15 = &d16[..15];
            let d17 = format!("{}{}", d16, (i % 9) + 1);
            for digits in [d15, d16.as_str(), d17.as_str()] {
                for dot in [1usize, 8] {
                    items.push(format!("{}.{}", &digits[..dot], &digits[dot..]));
                }
            }
            if i % 16 == 0 {
                items.push(format!("-{}.{}", &d16[..1], &d16[1..]));
                items.push(format!("0.{}", d16));
                items.push(format!("{}.0", d16));
            }
        }
        list_family(cfg, "F3b-long-reals", &items, &rep, &tot);
        add("F3b-long-reals", "15/16/17-digit mantissas from 9007199254740993 upwards in equal steps x decimal point after digit 1 / 8 (+ sign, 0. and .0 forms)".into(), 18, items.len() as u64, t0);
    }

    // F8 neighbouring tokens: every ordered pair (and triple) of a token list separated by white space; what a
    // token leaves in the lexer's scratch space must not reach the next one
    {
        let t0 = std::time::Instant::now();
        let toks: Vec<&str> = vec![
            "12", "-7", "0x1f", "0b101", "1.5", "-2.5e3", "\"ab\"", "\"a\\tb\"", "\"x\\n\"", "\"y\\\\z\"", "\"\"", "\"é\"", "|ff|", "|x.x 9|", "||", "word", "+", "\\( c \\)",
            "\\ line\n", "12x", "[", "0x", "\"q\\\"r\"",
        ];
        let mut items: Vec<String> = vec![];
        for a in &toks {
            for b in &toks {
                for sep in [" ", "\n", "\t "] {
                    items.push(format!("{}{}{}", a, sep, b));
                }
                for c in &toks {
                    items.push(format!("{} {} {}", a, b, c));
                }
            }
        }
        list_family(cfg, "F8-neighbouring-tokens", &items, &rep, &tot);
        add("F8-neighbouring-tokens", format!("all ordered pairs (3 separators) and triples of {} tokens: numbers, strings with and without escapes, bit-strings, words, comments, malformed tokens", toks.len()), 3, items.len() as u64, t0);
    }

    // F7 print -> read
    let samples: Mutex<Vec<J>> = Mutex::new(vec![]);
    let t0 = std::time::Instant::now();
    let npr = print_read(cfg, &rep, &tot, &samples);
    add("F7-print-read", "ints of the boundary alphabet, bit-strings of 0..=12 bits, vectors/maps to depth 2".into(), 0, npr, t0);

    // vacuity: every expected token class and every family was met
    for c in [
        "ws", "word", "comment:line", "comment:block", "int:dec", "int:0x", "int:0b", "int:lead0", "real", "str", "bits", "end", "undocumented",
        "error(int:no-digits)", "error(int:bad-digit)", "error(int:sign-inside)", "error(int:out-of-range)", "error(real:syntax)", "error(str:unterminated)", "error(str:bad-escape)",
        "error(str:no-ws-after)", "error(bits:unterminated)", "error(bits:bad-char)", "error(comment:unterminated)",
    ] {
        if tot.cover.get(&format!("expected {}", c)) == 0 {
            vacuous(&format!("vacuous: C16 never expected token class {}", c));
        }
    }
    for c in ["int", "bitstr", "vec-depth1", "vec-depth2", "map-depth1", "map-depth2"] {
        if tot.cover.get(&format!("print-read {}", c)) == 0 {
            vacuous(&format!("vacuous: C16 print-read never built a {}", c));
        }
    }

    ev.states = tot.inputs.load(Ordering::Relaxed);
    ev.transitions = tot.calls.load(Ordering::Relaxed) + npr;
    ev.traces = tot.inputs.load(Ordering::Relaxed);
    ev.evaluations = tot.compared.load(Ordering::Relaxed);
    ev.nontrivial = tot.nontrivial.load(Ordering::Relaxed);
    ev.rule = "distinct inputs per family (families overlap only in a few short strings); states = inputs lexed or values printed, transitions = Lex::next calls + print/read evals, evaluations = tokens compared with the reference tokenizer + values compared after read-back; non-trivial = inputs in which the reference expects at least one literal, comment or lexical error (not only words and whitespace), and print-read values other than plain ints".into();
    for (inp, fam) in [("0f 010 -0x1", "sample"), ("\"a\\n\" |F x.|", "sample"), ("\\( a \\) 1_000", "sample")] {
        let mut toks = vec![];
        let mut pos = 0;
        loop {
            let t = ref_next(&inp[pos..]);
            toks.push(js(rtok_describe(&t, &inp[pos..])));
            let n = match &t {
                RTok::Ws(n) | RTok::Word(n) | RTok::LineComment(n) | RTok::BlockComment(n, _) | RTok::Int(_, n, _) | RTok::Real(_, n) | RTok::Str(_, n) | RTok::Bits(_, n, _) => *n,
                _ => break,
            };
            pos += n;
        }
        ev.sample(jo(vec![("family", js(fam)), ("input", js(inp)), ("reference_tokens", J::A(toks))]));
    }
    for s in samples.into_inner().unwrap() {
        ev.sample(s);
    }
    ev.add("families", J::A(fams));
    ev.add("coverage_expected_token_class", tot.cover.json());
    ev.assumptions = vec![
        "reference tokenizer: README grammar (words separated by ASCII whitespace, not starting with a digit or a double quote; `\\` line comment; `\\(` ... standalone `\\)` block comment; decimal / 0x / 0b / `_` literals; reals; string escapes) + the pinned lexer tests (leading zero = hex, prefix wins over leading zero, sign needs a digit after it, closing quote needs a separator)".into(),
        "a token that starts with a digit (or sign and digit) is numeric: it must be the literal with the mathematical value or be rejected; an interior sign (`0x-1`) is not a digit".into(),
        "reals = Rust str::parse::<f64> of the token text without underscores (correctly rounded); rejected when that fails; radix prefix together with '.' is rejected".into(),
        "typographic quotes as string delimiters and non-ASCII whitespace next to token boundaries are undocumented: only the generic obligations (termination, tiling, non-empty tokens) are demanded from that point of the input on".into(),
        "a bit-string literal not followed by a separator may be accepted (token ends at the closing bar) or rejected".into(),
        "the block comment token may or may not include the one separator after `\\)`".into(),
        "print -> read compares with Cell == and with the storage-independent rendering of both values (same build); maps are built with int keys (and single bit-string keys), several bit-string keys in one map are C12's subject".into(),
    ];
    conclude(&ev, &rep)
}
