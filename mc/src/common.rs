// Shared plumbing: JSON writer, evidence files, known-findings handling, violation
// reporting with replay artefacts, parallel work distribution, interpreter helpers.
use std::collections::BTreeMap;
use std::fmt::Write as _;
use std::sync::atomic::{AtomicU64, AtomicUsize, Ordering};
use std::sync::Mutex;
use std::time::Instant;
use xeh::prelude::*;

pub const VERIF: &str = "/verif";
pub const MAX_KEYS: usize = 12;

/// evidence/ and replays/ live under /verif; XMC_OUT redirects them (used when a check is run
/// against a deliberately broken tree, so that the committed evidence is not overwritten)
pub fn out_dir() -> String {
    std::env::var("XMC_OUT").unwrap_or_else(|_| VERIF.to_string())
}

// ---------------------------------------------------------------- JSON (write only)
#[derive(Clone, Debug)]
pub enum J {
    Null,
    B(bool),
    I(i128),
    F(f64),
    S(String),
    A(Vec<J>),
    O(Vec<(String, J)>),
}

pub fn js(s: impl Into<String>) -> J {
    J::S(s.into())
}
pub fn ji(i: impl TryInto<i128>) -> J {
    J::I(i.try_into().ok().unwrap_or(0))
}
pub fn jo(v: Vec<(&str, J)>) -> J {
    J::O(v.into_iter().map(|(k, v)| (k.to_string(), v)).collect())
}
pub fn jmap<K: ToString>(m: &BTreeMap<K, u64>) -> J {
    J::O(m.iter().map(|(k, v)| (k.to_string(), J::I(*v as i128))).collect())
}

impl J {
    pub fn write(&self, out: &mut String) {
        match self {
            J::Null => out.push_str("null"),
            J::B(b) => out.push_str(if *b { "true" } else { "false" }),
            J::I(i) => {
                // keep integers inside the range every JSON reader accepts
                if *i > (1i128 << 62) || *i < -(1i128 << 62) {
                    let _ = write!(out, "\"{}\"", i);
                } else {
                    let _ = write!(out, "{}", i);
                }
            }
            J::F(f) => {
                if f.is_finite() {
                    let _ = write!(out, "{:.3}", f);
                } else {
                    out.push_str("null");
                }
            }
            J::S(s) => {
                out.push('"');
                for c in s.chars() {
                    match c {
                        '"' => out.push_str("\\\""),
                        '\\' => out.push_str("\\\\"),
                        '\n' => out.push_str("\\n"),
                        '\r' => out.push_str("\\r"),
                        '\t' => out.push_str("\\t"),
                        c if (c as u32) < 0x20 => {
                            let _ = write!(out, "\\u{:04x}", c as u32);
                        }
                        c => out.push(c),
                    }
                }
                out.push('"');
            }
            J::A(v) => {
                out.push('[');
                for (i, x) in v.iter().enumerate() {
                    if i > 0 {
                        out.push(',');
                    }
                    x.write(out);
                }
                out.push(']');
            }
            J::O(v) => {
                out.push('{');
                for (i, (k, x)) in v.iter().enumerate() {
                    if i > 0 {
                        out.push(',');
                    }
                    J::S(k.clone()).write(out);
                    out.push(':');
                    x.write(out);
                }
                out.push('}');
            }
        }
    }
    pub fn to_string(&self) -> String {
        let mut s = String::new();
        self.write(&mut s);
        s
    }
}

// ---------------------------------------------------------------- run configuration
#[derive(Clone, Copy, PartialEq, Debug)]
pub enum Tier {
    Quick,
    Thorough,
}

pub struct Cfg {
    pub tier: Tier,
    pub seed: u64,
    pub threads: usize,
}

impl Cfg {
    pub fn from_env(tier_arg: Option<&str>) -> Cfg {
        let t = tier_arg
            .map(|s| s.to_string())
            .or_else(|| std::env::var("VERIF_TIER").ok())
            .unwrap_or_else(|| "quick".into());
        let tier = if t.starts_with("thor") { Tier::Thorough } else { Tier::Quick };
        let seed = std::env::var("VERIF_SEED").ok().and_then(|s| s.parse().ok()).unwrap_or(0);
        let threads = std::env::var("VERIF_THREADS")
            .ok()
            .and_then(|s| s.parse().ok())
            .unwrap_or_else(|| std::thread::available_parallelism().map(|n| n.get()).unwrap_or(4))
            .max(1);
        Cfg { tier, seed, threads }
    }
    pub fn quick(&self) -> bool {
        self.tier == Tier::Quick
    }
    pub fn tier_name(&self) -> &'static str {
        if self.quick() { "quick" } else { "thorough" }
    }
}

/// splitmix64: the only use of the seed is to add extra members to value alphabets
pub fn mix(seed: u64, i: u64) -> u64 {
    let mut z = seed.wrapping_add(i.wrapping_mul(0x9E3779B97F4A7C15)).wrapping_add(0x9E3779B97F4A7C15);
    z = (z ^ (z >> 30)).wrapping_mul(0xBF58476D1CE4E5B9);
    z = (z ^ (z >> 27)).wrapping_mul(0x94D049BB133111EB);
    z ^ (z >> 31)
}

// ---------------------------------------------------------------- known findings
pub struct Known {
    pub open: Vec<(String, String, String)>,  // (property, key, what)
    pub fixed: Vec<(String, String)>,         // (property, rest of line)
}

pub fn load_known() -> Known {
    let mut k = Known { open: vec![], fixed: vec![] };
    let txt = std::fs::read_to_string(format!("{}/known_findings.txt", VERIF)).unwrap_or_default();
    for line in txt.lines() {
        let line = line.trim();
        if let Some(rest) = line.strip_prefix("open:") {
            let rest = rest.trim();
            let (head, what) = rest.split_once("::").unwrap_or((rest, ""));
            let mut prop = String::new();
            let mut key = String::new();
            for w in head.split_whitespace() {
                if let Some(p) = w.strip_prefix("property=") {
                    prop = p.to_string();
                }
                if let Some(p) = w.strip_prefix("key=") {
                    key = p.to_string();
                }
            }
            if !prop.is_empty() && !key.is_empty() {
                k.open.push((prop, key, what.trim().to_string()));
            }
        } else if let Some(rest) = line.strip_prefix("fixed:") {
            let rest = rest.trim();
            let prop = rest
                .split_whitespace()
                .find_map(|w| w.strip_prefix("property=").map(|s| s.to_string()))
                .unwrap_or_default();
            k.fixed.push((prop, rest.to_string()));
        }
    }
    k
}

// ---------------------------------------------------------------- violations
pub struct Reporter {
    pub prop: &'static str,
    known: Vec<(String, String)>,
    inner: Mutex<RepInner>,
    pub nviol: AtomicU64,
    pub nknown: AtomicU64,
}
struct RepInner {
    known_hit: BTreeMap<String, (u64, String)>,
    unknown: BTreeMap<String, (u64, u64, J)>,
}

impl Reporter {
    pub fn new(prop: &'static str) -> Reporter {
        let k = load_known();
        let known = k.open.into_iter().filter(|(p, _, _)| p == prop).map(|(_, k, w)| (k, w)).collect();
        Reporter {
            prop,
            known,
            inner: Mutex::new(RepInner { known_hit: BTreeMap::new(), unknown: BTreeMap::new() }),
            nviol: AtomicU64::new(0),
            nknown: AtomicU64::new(0),
        }
    }
    /// `key` identifies the finding family (word, construct, call site ...); `case` is the
    /// self-contained replay record of the first (smallest) case seen for that key.
    pub fn report(&self, key: &str, case: impl FnOnce() -> J) {
        self.report_w(key, u64::MAX, case)
    }
    /// like `report`, but keeps the case with the smallest `weight` as the replay record
    pub fn report_w(&self, key: &str, weight: u64, case: impl FnOnce() -> J) {
        let mut g = self.inner.lock().unwrap();
        if let Some((_, what)) = self.known.iter().find(|(k, _)| k == key) {
            self.nknown.fetch_add(1, Ordering::Relaxed);
            let e = g.known_hit.entry(key.to_string()).or_insert((0, what.clone()));
            e.0 += 1;
            return;
        }
        self.nviol.fetch_add(1, Ordering::Relaxed);
        UNKNOWN_VIOLATIONS.fetch_add(1, Ordering::Relaxed);
        if let Some(e) = g.unknown.get_mut(key) {
            e.0 += 1;
            if weight < e.1 {
                e.1 = weight;
                e.2 = case();
            }
            return;
        }
        // keep the number of replay artefacts bounded: past the cap, further distinct keys
        // are counted under one overflow key (the verdict is a violation either way)
        if g.unknown.len() >= MAX_KEYS {
            let e = g.unknown.entry("(further-distinct-keys)".to_string()).or_insert((0, u64::MAX, J::Null));
            e.0 += 1;
            if weight < e.1 || matches!(e.2, J::Null) {
                e.1 = weight;
                e.2 = case();
            }
            return;
        }
        let c = case();
        g.unknown.insert(key.to_string(), (1, weight, c));
    }
    pub fn has_unknown(&self) -> bool {
        !self.inner.lock().unwrap().unknown.is_empty()
    }
    pub fn known_keys_hit(&self) -> Vec<String> {
        self.inner.lock().unwrap().known_hit.keys().cloned().collect()
    }
    /// prints KNOWN-FINDING / VIOLATION lines, writes replay files, returns (exit code, #unknown keys)
    pub fn finish(&self) -> (i32, J) {
        let g = self.inner.lock().unwrap();
        let mut summary = vec![];
        for (k, (n, what)) in &g.known_hit {
            println!("KNOWN-FINDING: property={} key={} cases={} {}", self.prop, k, n, what);
            summary.push(jo(vec![("key", js(k.clone())), ("status", js("known-open")), ("cases", ji(*n))]));
        }
        let _ = std::fs::create_dir_all(format!("{}/replays", out_dir()));
        let mut code = 0;
        for (i, (k, (n, _, case))) in g.unknown.iter().enumerate() {
            let path = format!("{}/replays/{}-{}.json", out_dir(), self.prop, i);
            let rec = jo(vec![
                ("property", js(self.prop)),
                ("key", js(k.clone())),
                ("cases_with_this_key", ji(*n)),
                ("case", case.clone()),
            ]);
            let _ = std::fs::write(&path, rec.to_string() + "\n");
            println!("VIOLATION property={} replay={}", self.prop, path);
            println!("  key={} cases={} first={}", k, n, truncate(&case.to_string(), 600));
            summary.push(jo(vec![("key", js(k.clone())), ("status", js("violation")), ("cases", ji(*n)), ("replay", js(path))]));
            code = 1;
        }
        (code, J::A(summary))
    }
}

pub fn truncate(s: &str, n: usize) -> String {
    if s.chars().count() <= n {
        s.to_string()
    } else {
        let t: String = s.chars().take(n).collect();
        format!("{}...", t)
    }
}

// ---------------------------------------------------------------- evidence
pub struct Evidence {
    pub prop: &'static str,
    pub tier: &'static str,
    pub seed: u64,
    pub start: Instant,
    pub states: u64,
    pub transitions: u64,
    pub traces: u64,
    pub evaluations: u64,
    pub nontrivial: u64,
    pub rule: String,
    pub samples: Vec<J>,
    pub exhaustive: bool,
    pub extra: Vec<(String, J)>,
    pub assumptions: Vec<String>,
    pub caps: Vec<String>,
}

impl Evidence {
    pub fn new(prop: &'static str, cfg: &Cfg) -> Evidence {
        watch::start(prop, cfg.tier_name());
        Evidence {
            prop,
            tier: cfg.tier_name(),
            seed: cfg.seed,
            start: Instant::now(),
            states: 0,
            transitions: 0,
            traces: 0,
            evaluations: 0,
            nontrivial: 0,
            rule: String::new(),
            samples: vec![],
            exhaustive: true,
            extra: vec![],
            assumptions: vec![],
            caps: vec![],
        }
    }
    pub fn add(&mut self, k: &str, v: J) {
        self.extra.push((k.to_string(), v));
    }
    pub fn sample(&mut self, v: J) {
        if self.samples.len() < 12 {
            self.samples.push(v);
        }
    }
    pub fn cap(&mut self, what: impl Into<String>) {
        self.exhaustive = false;
        self.caps.push(what.into());
    }
    pub fn write(&self, rep: &Reporter, findings: J) {
        let mut cov = vec![
            ("states".to_string(), J::I(self.states.max(1) as i128)),
            ("transitions".to_string(), J::I(self.transitions.max(1) as i128)),
            ("traces_validated_against_impl".to_string(), J::I(self.traces as i128)),
            ("evaluations".to_string(), J::I(self.evaluations.max(1) as i128)),
            ("distinct_nontrivial".to_string(), J::I(self.nontrivial as i128)),
            ("rule".to_string(), js(self.rule.clone())),
            ("samples".to_string(), J::A(if self.samples.is_empty() { vec![js("(none recorded)")] } else { self.samples.clone() })),
            ("exhaustive".to_string(), J::B(self.exhaustive)),
            ("caps_hit".to_string(), J::A(self.caps.iter().map(|c| js(c.clone())).collect())),
            ("findings".to_string(), findings),
        ];
        for (k, v) in &self.extra {
            cov.push((k.clone(), v.clone()));
        }
        let ev = J::O(vec![
            ("property_id".to_string(), js(self.prop)),
            ("tier".to_string(), js(self.tier)),
            ("seed".to_string(), J::I(self.seed as i128)),
            ("level".to_string(), js("model_checking")),
            ("coverage".to_string(), J::O(cov)),
            ("assumptions".to_string(), J::A(self.assumptions.iter().map(|c| js(c.clone())).collect())),
            ("wall_s".to_string(), J::F(self.start.elapsed().as_secs_f64())),
            ("violations".to_string(), J::I(rep.nviol.load(Ordering::Relaxed) as i128)),
            ("known_finding_cases".to_string(), J::I(rep.nknown.load(Ordering::Relaxed) as i128)),
        ]);
        let _ = std::fs::create_dir_all(format!("{}/evidence", out_dir()));
        let path = format!("{}/evidence/{}.json", out_dir(), self.prop);
        std::fs::write(&path, ev.to_string() + "\n").expect("write evidence");
    }
}

/// standard end of a check: print findings, write evidence, return exit code
pub fn conclude(ev: &Evidence, rep: &Reporter) -> i32 {
    let (code, findings) = rep.finish();
    ev.write(rep, findings);
    println!(
        "{} {}: states={} transitions={} evaluations={} nontrivial={} exhaustive={} violations={} known-finding-cases={} wall={:.1}s -> {}",
        ev.prop,
        ev.tier,
        ev.states,
        ev.transitions,
        ev.evaluations,
        ev.nontrivial,
        ev.exhaustive,
        rep.nviol.load(Ordering::Relaxed),
        rep.nknown.load(Ordering::Relaxed),
        ev.start.elapsed().as_secs_f64(),
        if code == 0 { "OK" } else { "VIOLATION" }
    );
    code
}

static UNKNOWN_VIOLATIONS: AtomicU64 = AtomicU64::new(0);

/// A vacuity guard (a coverage class that must not be empty). It is a machinery error only when
/// the run found no violation: a broken tree may legitimately cut the exploration short, and
/// then the violation is the verdict.
pub fn vacuous(msg: &str) {
    if UNKNOWN_VIOLATIONS.load(Ordering::Relaxed) > 0 {
        println!("note: coverage guard not enforced because violations were found ({})", msg);
    } else {
        machinery_error(msg)
    }
}

pub fn machinery_error(msg: &str) -> ! {
    println!("MACHINERY-ERROR {}", msg);
    std::process::exit(2);
}

// ---------------------------------------------------------------- parallel work
/// Runs `worker(thread_index, &next)` on `threads` threads; workers pull work item
/// indices from `next` (fetch_add) until it reaches `total`. Results are returned in
/// thread order. Each worker builds its own interpreter (State is !Send).
pub fn par_run<T: Send>(threads: usize, total: usize, chunk: usize, worker: impl Fn(usize, &mut dyn FnMut() -> Option<std::ops::Range<usize>>) -> T + Sync) -> Vec<T> {
    let next = AtomicUsize::new(0);
    std::thread::scope(|s| {
        let mut hs = vec![];
        for t in 0..threads {
            let next = &next;
            let worker = &worker;
            hs.push(
                std::thread::Builder::new()
                    .stack_size(256 << 20)
                    .spawn_scoped(s, move || {
                        let mut pull = || {
                            let a = next.fetch_add(chunk, Ordering::Relaxed);
                            if a >= total {
                                None
                            } else {
                                Some(a..(a + chunk).min(total))
                            }
                        };
                        worker(t, &mut pull)
                    })
                    .unwrap(),
            );
        }
        hs.into_iter()
            .map(|h| match h.join() {
                Ok(v) => v,
                Err(e) => {
                    let msg = e.downcast_ref::<String>().cloned().or_else(|| e.downcast_ref::<&str>().map(|s| s.to_string())).unwrap_or_default();
                    machinery_error(&format!("worker thread panicked outside a guarded case: {}", msg))
                }
            })
            .collect()
    })
}

// ---------------------------------------------------------------- interpreter helpers
pub fn silence_panics() {
    std::panic::set_hook(Box::new(|_| {}));
}

// ---------------------------------------------------------------- watchdog
/// An interpreter call that does not return cannot be unwound from inside the process. Every
/// `guarded` call is timed; checks that run arbitrary programs note the case before running it.
/// A call still running after XMC_HANG_S seconds (default 60; the cases take micro- to
/// milliseconds) is reported as a violation of the property under check — the replay record is
/// the noted case — and the process exits 1. (All limits of the implementation are supposed to
/// stop any program; a hang on the unchanged tree would be a defect of it, not of the harness.)
pub mod watch {
    use std::sync::atomic::{AtomicU64, Ordering};
    use std::sync::{Arc, Mutex, OnceLock};
    pub struct Slot {
        text: Mutex<String>,
        since: AtomicU64, // ms since START + 1 while inside a guarded call; 0 = idle
    }
    static SLOTS: Mutex<Vec<Arc<Slot>>> = Mutex::new(Vec::new());
    static START: OnceLock<std::time::Instant> = OnceLock::new();
    static INFO: OnceLock<(&'static str, &'static str)> = OnceLock::new();
    thread_local! {
        static MY: Arc<Slot> = {
            let s = Arc::new(Slot { text: Mutex::new(String::new()), since: AtomicU64::new(0) });
            SLOTS.lock().unwrap().push(s.clone());
            s
        };
    }
    fn now_ms() -> u64 {
        START.get_or_init(std::time::Instant::now).elapsed().as_millis() as u64 + 1
    }
    /// the case the calling thread is about to run (kept until the next note)
    pub fn note(text: &str) {
        MY.with(|s| {
            let mut t = s.text.lock().unwrap();
            t.clear();
            t.push_str(text);
        })
    }
    pub fn enter() -> bool {
        MY.with(|s| {
            if s.since.load(Ordering::Relaxed) == 0 {
                s.since.store(now_ms(), Ordering::Relaxed);
                true
            } else {
                false
            }
        })
    }
    pub fn leave() {
        MY.with(|s| s.since.store(0, Ordering::Relaxed))
    }
    /// started once per check run (by Reporter::new)
    pub fn start(prop: &'static str, tier: &'static str) {
        if INFO.set((prop, tier)).is_err() {
            return;
        }
        let _ = now_ms();
        let limit_ms: u64 = std::env::var("XMC_HANG_S").ok().and_then(|s| s.parse().ok()).unwrap_or(60) * 1000;
        std::thread::spawn(move || loop {
            std::thread::sleep(std::time::Duration::from_millis(500));
            let now = now_ms();
            let slots = SLOTS.lock().unwrap().clone();
            for s in slots {
                let since = s.since.load(Ordering::Relaxed);
                if since != 0 && now.saturating_sub(since) > limit_ms {
                    let text = s.text.lock().map(|t| t.clone()).unwrap_or_default();
                    hang(prop, tier, &text, limit_ms / 1000);
                }
            }
        });
    }
    fn hang(prop: &str, tier: &str, text: &str, secs: u64) -> ! {
        use super::*;
        let case = jo(vec![
            ("kind", js("hang")),
            ("problem", js(format!("a call into the interpreter did not return within {} s", secs))),
            ("case_noted_by_the_stuck_thread", js(if text.is_empty() { "(this check does not note its cases; see the check's enumeration order)".to_string() } else { text.to_string() })),
        ]);
        let key = "hang:interpreter-call-does-not-return";
        let known = load_known().open.into_iter().any(|(p, k, _)| p == prop && k == key);
        let _ = std::fs::create_dir_all(format!("{}/replays", out_dir()));
        let path = format!("{}/replays/{}-hang.json", out_dir(), prop);
        let _ = std::fs::write(&path, jo(vec![("property", js(prop)), ("key", js(key)), ("case", case.clone())]).to_string() + "\n");
        let ev = J::O(vec![
            ("property_id".to_string(), js(prop)),
            ("tier".to_string(), js(tier)),
            ("seed".to_string(), J::I(0)),
            ("level".to_string(), js("model_checking")),
            (
                "coverage".to_string(),
                jo(vec![
                    ("states", ji(1)),
                    ("transitions", ji(1)),
                    ("traces_validated_against_impl", ji(0)),
                    ("evaluations", ji(1)),
                    ("distinct_nontrivial", ji(0)),
                    ("rule", js("run aborted by the watchdog: an interpreter call did not return; counts of the aborted exploration are not available")),
                    ("samples", J::A(vec![case.clone()])),
                    ("exhaustive", J::B(false)),
                    ("findings", J::A(vec![jo(vec![("key", js(key)), ("status", js("violation")), ("replay", js(path.clone()))])])),
                ]),
            ),
            ("wall_s".to_string(), J::F(now_ms() as f64 / 1000.0)),
            ("violations".to_string(), J::I(1)),
        ]);
        let _ = std::fs::create_dir_all(format!("{}/evidence", out_dir()));
        let _ = std::fs::write(format!("{}/evidence/{}.json", out_dir(), prop), ev.to_string() + "\n");
        if known {
            println!("KNOWN-FINDING: property={} key={} (run aborted by the watchdog)", prop, key);
            std::process::exit(0);
        }
        println!("VIOLATION property={} replay={}", prop, path);
        println!("  key={} cases=1 first={}", key, truncate(&case.to_string(), 600));
        std::process::exit(1);
    }
}

pub fn guarded<T>(f: impl FnOnce() -> T) -> Result<T, String> {
    let outer = watch::enter();
    struct Leave(bool);
    impl Drop for Leave {
        fn drop(&mut self) {
            if self.0 {
                watch::leave()
            }
        }
    }
    let _l = Leave(outer);
    std::panic::catch_unwind(std::panic::AssertUnwindSafe(f)).map_err(|e| {
        if let Some(s) = e.downcast_ref::<&str>() {
            s.to_string()
        } else if let Some(s) = e.downcast_ref::<String>() {
            s.clone()
        } else {
            "panic".to_string()
        }
    })
}

pub fn boot() -> Xstate {
    let mut xs = Xstate::boot().expect("boot");
    xs.intercept_stdout(true);
    xs
}

pub fn render(c: &Cell) -> String {
    let mut s = String::new();
    c.verif_render(&mut s);
    s
}

/// visible data stack, bottom first, rendered unambiguously
pub fn stack_of(xs: &Xstate) -> Vec<String> {
    let n = xs.data_depth();
    (0..n).rev().map(|i| render(xs.get_data(i).unwrap())).collect()
}

pub fn dump_get<'a>(d: &'a [(&'static str, String)], k: &str) -> &'a str {
    d.iter().find(|(n, _)| *n == k).map(|(_, v)| v.as_str()).unwrap_or("")
}

/// projection of a dump: all sections except the named ones, as one string
pub fn project(d: &[(&'static str, String)], drop: &[&str]) -> String {
    let mut s = String::new();
    for (k, v) in d {
        if drop.contains(k) {
            continue;
        }
        s.push_str(k);
        s.push('=');
        s.push_str(v);
        s.push('\n');
    }
    s
}

pub fn project_keep(d: &[(&'static str, String)], keep: &[&str]) -> String {
    let mut s = String::new();
    for (k, v) in d {
        if !keep.contains(k) {
            continue;
        }
        s.push_str(k);
        s.push('=');
        s.push_str(v);
        s.push('\n');
    }
    s
}

pub fn first_diff(a: &[(&'static str, String)], b: &[(&'static str, String)], drop: &[&str]) -> Option<String> {
    for ((ka, va), (_, vb)) in a.iter().zip(b.iter()) {
        if drop.contains(ka) {
            continue;
        }
        if va != vb {
            return Some(format!("{}: {} <> {}", ka, truncate(va, 200), truncate(vb, 200)));
        }
    }
    None
}

pub fn hash128(s: &str) -> u128 {
    // FNV-1a 128
    let mut h: u128 = 0x6c62272e07bb014262b821756295c58d;
    for b in s.as_bytes() {
        h ^= *b as u128;
        h = h.wrapping_mul(0x0000000001000000000000000000013B);
    }
    h
}

/// error kind: variant name plus the message for message-only variants
pub fn err_kind(e: &Xerr) -> String {
    match e {
        Xerr::UnknownWord(w) => format!("UnknownWord({})", w),
        Xerr::ParseError { msg, .. } => format!("ParseError({})", msg),
        Xerr::StrDecodeError { .. } => "StrDecodeError".into(),
        Xerr::ExpectingName => "ExpectingName".into(),
        Xerr::ExpectingLiteral => "ExpectingLiteral".into(),
        Xerr::ControlFlowError { msg } => format!("ControlFlowError({})", msg),
        Xerr::IntegerOverflow => "IntegerOverflow".into(),
        Xerr::DivisionByZero => "DivisionByZero".into(),
        Xerr::StackUnderflow => "StackUnderflow".into(),
        Xerr::ReturnStackUnderflow => "ReturnStackUnderflow".into(),
        Xerr::LoopStackUnderflow => "LoopStackUnderflow".into(),
        Xerr::TypeError => "TypeError".into(),
        Xerr::TypeErrorMsg { .. } => "TypeErrorMsg".into(),
        Xerr::TypeNotSupported { .. } => "TypeNotSupported".into(),
        Xerr::IOError { .. } => "IOError".into(),
        Xerr::OutOfBounds { .. } => "OutOfBounds".into(),
        Xerr::AssertFailed => "AssertFailed".into(),
        Xerr::AssertEqFailed { .. } => "AssertEqFailed".into(),
        Xerr::InternalError => "InternalError".into(),
        Xerr::ReadError { .. } => "ReadError".into(),
        Xerr::SeekError { .. } => "SeekError".into(),
        Xerr::MatchError { .. } => "MatchError".into(),
        Xerr::ToBytestrError(_) => "ToBytestrError".into(),
        Xerr::BitstrSliceError(_) => "BitstrSliceError".into(),
        Xerr::ErrorMsg(m) => {
            // strip numbers so that "insn limit reached: 5" and ": 6" are one kind
            let t: String = m.chars().filter(|c| !c.is_ascii_digit()).collect();
            format!("ErrorMsg({})", t)
        }
        Xerr::UserError(_) => "UserError".into(),
        Xerr::Exit(_) => "Exit".into(),
    }
}

pub fn res_kind(r: &Xresult) -> String {
    match r {
        Ok(()) => "Ok".into(),
        Err(e) => err_kind(e),
    }
}

pub fn is_type_error(e: &Xerr) -> bool {
    matches!(e, Xerr::TypeError | Xerr::TypeErrorMsg { .. } | Xerr::TypeNotSupported { .. })
}

/// How this build reports each resource limit, observed once on tiny programs (so that a
/// reworded message does not change any verdict): (insn, stack, heap) error kinds.
pub fn limit_kinds() -> &'static (String, String, String) {
    static K: std::sync::OnceLock<(String, String, String)> = std::sync::OnceLock::new();
    K.get_or_init(|| {
        // (a build in which a limit does not refuse at all yields a kind no error can match, so the
        // checks report "limit not enforced" instead of stopping here)
        let kind = |f: &dyn Fn(&mut Xstate) -> Xresult| {
            let mut xs = boot();
            match guarded(|| f(&mut xs)) {
                Ok(Err(e)) => err_kind(&e),
                Ok(Ok(())) => "(this build did not refuse)".to_string(),
                Err(_) => "(this build panicked instead of refusing)".to_string(),
            }
        };
        watch::note("set_insn_limit(Some(3)); eval \"begin repeat\"   (a limit of each kind is provoked once to learn its error kind)");
        let insn = kind(&|xs| {
            xs.set_insn_limit(Some(3))?;
            xs.eval("begin repeat")
        });
        let stack = kind(&|xs| {
            xs.set_stack_limit(Some(1))?;
            xs.eval("1 2 3")
        });
        let heap = kind(&|xs| {
            let cells: usize = dump_get(&xs.verif_dump_light(), "heap_len").parse().unwrap_or(0);
            xs.set_heap_limit(Some(cells))?;
            xs.eval("1 var calibration")
        });
        (insn, stack, heap)
    })
}

/// `which` starts with "insn", "stack" or "heap"
pub fn is_limit_error(e: &Xerr, which: &str) -> bool {
    let k = limit_kinds();
    let want = if which.starts_with("insn") { &k.0 } else if which.starts_with("stack") { &k.1 } else { &k.2 };
    &err_kind(e) == want
}

pub struct Counters(pub Mutex<BTreeMap<String, u64>>);
impl Counters {
    pub fn new() -> Counters {
        Counters(Mutex::new(BTreeMap::new()))
    }
    pub fn merge(&self, local: &BTreeMap<String, u64>) {
        let mut g = self.0.lock().unwrap();
        for (k, v) in local {
            *g.entry(k.clone()).or_insert(0) += v;
        }
    }
    pub fn json(&self) -> J {
        jmap(&self.0.lock().unwrap())
    }
    pub fn get(&self, k: &str) -> u64 {
        self.0.lock().unwrap().get(k).copied().unwrap_or(0)
    }
}

pub fn bump(m: &mut BTreeMap<String, u64>, k: &str) {
    if let Some(v) = m.get_mut(k) {
        *v += 1;
    } else {
        m.insert(k.to_string(), 1);
    }
}
