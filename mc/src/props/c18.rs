// C18 — text encodings of binary data round-trip.
//
// Complete products, no sampling:
//   A. round trip: every byte string of length 0,1,2 (+ structured longer ones; thorough: every
//      3-byte string) x presentation (bit-string at bit offset 0..=8 and 11 inside a larger
//      buffer with junk before/after, vector of ints, string when the bytes are UTF-8) x 4
//      codecs: `<enc>` yields one string, `<dec>` of it yields exactly the original bytes.
//      zero85 of a length that is not a multiple of 4 may be refused with a clean error
//      (plain Z85 is undefined there); a value it does produce must decode back.
//   B. standard text: the RFC 4648 / Z85 text of each byte string decodes to the bytes (pins the
//      alphabet without comparing renderings of the encoder).
//   C. invalid text: every string up to length L over a 10-character alphabet mixing valid,
//      padding, tail-marker and foreign characters, plus every single-character substitution /
//      insertion / deletion of longer encoder outputs: decode gives nil or a byte-multiple
//      bit-string, never an error or a panic; a character outside the codec's alphabet => nil;
//      a decoded image re-encodes and decodes to itself.
//   D. acceptance: for every value of a mixed-type alphabet, `<enc>` succeeds exactly when
//      `>bitstr` succeeds with a byte-multiple length, and then decodes to that bit-string.
//   E. the same through source text only (literals, `open-bitstr k bits drop n bytes`).
use crate::common::*;
use std::collections::{BTreeMap, BTreeSet};
use std::sync::atomic::{AtomicU64, Ordering};
use std::sync::Mutex;
use xeh::bitstr::Bitstr;
use xeh::prelude::*;

#[derive(Clone, Copy, PartialEq, Debug)]
enum Codec {
    B32,
    B32Hex,
    B64,
    Z85,
}
const CODECS: [Codec; 4] = [Codec::B32, Codec::B32Hex, Codec::B64, Codec::Z85];
impl Codec {
    fn enc(self) -> &'static str {
        match self {
            Codec::B32 => "base32",
            Codec::B32Hex => "base32hex",
            Codec::B64 => "base64",
            Codec::Z85 => "zero85",
        }
    }
    fn dec(self) -> &'static str {
        match self {
            Codec::B32 => "base32>",
            Codec::B32Hex => "base32hex>",
            Codec::B64 => "base64>",
            Codec::Z85 => "zero85>",
        }
    }
    /// input block size in bytes (a length that is not a multiple needs padding / a tail)
    fn block(self) -> usize {
        match self {
            Codec::B32 | Codec::B32Hex => 5,
            Codec::B64 => 3,
            Codec::Z85 => 4,
        }
    }
    /// characters that are outside the codec's alphabet under every reading of it
    /// (case-insensitive and url-safe/hyphenated variants are left open)
    fn foreign(self, c: char) -> bool {
        match self {
            Codec::B32 => !(c.is_ascii_alphabetic() || ('2'..='7').contains(&c) || c == '=' || c == '-'),
            Codec::B32Hex => !(c.is_ascii_alphanumeric() || c == '=' || c == '-'),
            Codec::B64 => !(c.is_ascii_alphanumeric() || "+/=-_".contains(c)),
            Codec::Z85 => !Z85_ALPHABET.contains(c),
        }
    }
}

const Z85_ALPHABET: &str = "0123456789abcdefghijklmnopqrstuvwxyzABCDEFGHIJKLMNOPQRSTUVWXYZ.-:+=^!/*?&<>()[]{}@%$#";
const RFC_B32: &[u8] = b"ABCDEFGHIJKLMNOPQRSTUVWXYZ234567";
const RFC_B32HEX: &[u8] = b"0123456789ABCDEFGHIJKLMNOPQRSTUV";
const CROCKFORD: &[u8] = b"0123456789ABCDEFGHJKMNPQRSTVWXYZ";
const B64: &[u8] = b"ABCDEFGHIJKLMNOPQRSTUVWXYZabcdefghijklmnopqrstuvwxyz0123456789+/";

// ------------------------------------------------------------------ reference encoders
fn ref_bits_groups(bytes: &[u8], group: usize, alphabet: &[u8], pad_to: usize, pad: bool) -> String {
    let mut out = String::new();
    let nbits = bytes.len() * 8;
    let mut pos = 0;
    while pos < nbits {
        let mut x = 0usize;
        for i in 0..group {
            let p = pos + i;
            let bit = if p < nbits { (bytes[p / 8] >> (7 - p % 8)) & 1 } else { 0 };
            x = (x << 1) | bit as usize;
        }
        out.push(alphabet[x] as char);
        pos += group;
    }
    if pad {
        while out.len() % pad_to != 0 {
            out.push('=');
        }
    }
    out
}
fn ref_base32(b: &[u8]) -> String {
    ref_bits_groups(b, 5, RFC_B32, 8, true)
}
fn ref_base64(b: &[u8]) -> String {
    ref_bits_groups(b, 6, B64, 4, true)
}
fn ref_z85(b: &[u8]) -> Option<String> {
    if b.len() % 4 != 0 {
        return None;
    }
    let al = Z85_ALPHABET.as_bytes();
    let mut out = String::new();
    for ch in b.chunks(4) {
        let mut x = u32::from_be_bytes([ch[0], ch[1], ch[2], ch[3]]) as u64;
        let mut d = [0u8; 5];
        for i in (0..5).rev() {
            d[i] = al[(x % 85) as usize];
            x /= 85;
        }
        for c in d {
            out.push(c as char);
        }
    }
    Some(out)
}
/// the readings of "base32hex" a conforming implementation may have chosen
fn ref_base32hex_variants(b: &[u8]) -> [(&'static str, String); 3] {
    [
        ("crockford", ref_bits_groups(b, 5, CROCKFORD, 8, false)),
        ("rfc4648-hex-padded", ref_bits_groups(b, 5, RFC_B32HEX, 8, true)),
        ("rfc4648-hex-unpadded", ref_bits_groups(b, 5, RFC_B32HEX, 8, false)),
    ]
}

// ------------------------------------------------------------------ operands
fn hex(b: &[u8]) -> String {
    b.iter().map(|x| format!("{:02x}", x)).collect::<Vec<_>>().join("")
}
fn bits_of(bs: &Bitstr) -> Vec<u8> {
    bs.bits().collect()
}
fn bytes_bits(bytes: &[u8]) -> Vec<u8> {
    let mut v = Vec::with_capacity(bytes.len() * 8);
    for b in bytes {
        for i in (0..8).rev() {
            v.push((b >> i) & 1);
        }
    }
    v
}

#[derive(Clone, Copy, PartialEq, Debug)]
enum Pres {
    Bits { k: usize, junk: u8 },
    Vector,
    Str,
    /// a vector of mixed pieces that add up to the same bytes: whole-byte integers, then the next
    /// byte as two bit-strings of `cut` and 8-`cut` bits (slices of a buffer with junk around them),
    /// then the rest as a nested vector of integers
    Pieces { cut: usize },
}
impl Pres {
    fn class(self) -> &'static str {
        match self {
            Pres::Bits { k: 0, .. } => "bitstr-aligned",
            Pres::Bits { k, .. } if k % 8 == 0 => "bitstr-byte-offset",
            Pres::Bits { .. } => "bitstr-unaligned",
            Pres::Vector => "vector",
            Pres::Str => "string",
            Pres::Pieces { .. } => "vector-of-pieces",
        }
    }
}

/// (integers before the split byte, the split byte, the rest)
fn pieces_of(bytes: &[u8]) -> Option<(&[u8], u8, &[u8])> {
    if bytes.is_empty() {
        return None;
    }
    let lead = if bytes.len() >= 2 { 1 } else { 0 };
    Some((&bytes[..lead], bytes[lead], &bytes[lead + 1..]))
}

/// buffer: k junk bits, the bytes, junk up to the next byte boundary plus one junk byte
fn embed_buf(bytes: &[u8], k: usize, junk: u8) -> Vec<u8> {
    let total = k + bytes.len() * 8;
    let nbytes = (total + 7) / 8 + 1;
    let mut buf = vec![if junk != 0 { 0xffu8 } else { 0u8 }; nbytes];
    for (i, b) in bytes_bits(bytes).iter().enumerate() {
        let pos = k + i;
        let m = 0x80u8 >> (pos % 8);
        if *b != 0 {
            buf[pos / 8] |= m;
        } else {
            buf[pos / 8] &= !m;
        }
    }
    buf
}

fn operand(bytes: &[u8], p: Pres) -> Option<Cell> {
    match p {
        Pres::Bits { k: 0, junk: 2 } => Some(Cell::from(Bitstr::from(bytes.to_vec()))),
        Pres::Bits { k, junk } => {
            let buf = embed_buf(bytes, k, junk);
            Some(Cell::from(Bitstr::from(buf).substr(k, k + bytes.len() * 8).expect("substr")))
        }
        Pres::Vector => {
            let mut v = Xvec::new();
            for b in bytes {
                v.push_back_mut(Cell::Int(*b as Xint));
            }
            Some(Cell::from(v))
        }
        Pres::Str => std::str::from_utf8(bytes).ok().map(|s| Cell::from(s.to_string())),
        Pres::Pieces { cut } => {
            let (lead, b, rest) = pieces_of(bytes)?;
            let mut v = Xvec::new();
            for x in lead {
                v.push_back_mut(Cell::Int(*x as Xint));
            }
            // the split byte sits at bit 3 of a junk-filled buffer: both pieces are unaligned slices
            let buf = Bitstr::from(embed_buf(&[b], 3, 1));
            v.push_back_mut(Cell::from(buf.substr(3, 3 + cut).expect("substr")));
            v.push_back_mut(Cell::from(buf.substr(3 + cut, 11).expect("substr")));
            let mut inner = Xvec::new();
            for x in rest {
                inner.push_back_mut(Cell::Int(*x as Xint));
            }
            v.push_back_mut(Cell::from(inner));
            Some(Cell::from(v))
        }
    }
}

/// source text that builds the same operand (where expressible without string escapes)
fn operand_source(bytes: &[u8], p: Pres) -> Option<String> {
    match p {
        Pres::Bits { k: 0, junk: 2 } => Some(format!("|{}|", hex(bytes))),
        Pres::Bits { k, junk } => {
            let buf = embed_buf(bytes, k, junk);
            let lit: String = (0..buf.len() * 8).map(|p| if (buf[p / 8] >> (7 - p % 8)) & 1 != 0 { 'x' } else { '.' }).collect();
            Some(format!("|{}| open-bitstr {} bits drop {} bytes", lit, k, bytes.len()))
        }
        Pres::Vector => Some(format!("[ {}]", bytes.iter().map(|b| format!("{} ", b)).collect::<String>())),
        Pres::Str => {
            let s = std::str::from_utf8(bytes).ok()?;
            if s.chars().all(|c| c.is_ascii_alphanumeric()) {
                Some(format!("\"{}\"", s))
            } else {
                None
            }
        }
        Pres::Pieces { cut } => {
            let (lead, b, rest) = pieces_of(bytes)?;
            let bits: String = (0..8).map(|i| if (b >> (7 - i)) & 1 != 0 { 'x' } else { '.' }).collect();
            Some(format!(
                "[ {}|{}| |{}| [ {}] ]",
                lead.iter().map(|x| format!("{} ", x)).collect::<String>(),
                &bits[..cut],
                &bits[cut..],
                rest.iter().map(|x| format!("{} ", x)).collect::<String>()
            ))
        }
    }
}

fn presentations() -> Vec<Pres> {
    let mut v = vec![Pres::Bits { k: 0, junk: 2 }];
    for k in [0usize, 1, 2, 3, 4, 5, 6, 7, 8, 11] {
        for junk in [1u8, 0u8] {
            v.push(Pres::Bits { k, junk });
        }
    }
    v.push(Pres::Vector);
    v.push(Pres::Str);
    v.push(Pres::Pieces { cut: 4 });
    v.push(Pres::Pieces { cut: 3 });
    v
}

// ------------------------------------------------------------------ byte-string sets
fn structured(maxlen: usize, seed: u64) -> Vec<Vec<u8>> {
    let mut s: BTreeSet<Vec<u8>> = BTreeSet::new();
    for n in 3..=maxlen {
        s.insert(vec![0u8; n]);
        s.insert(vec![0xffu8; n]);
        s.insert((0..n).map(|i| (i + 1) as u8).collect());
        s.insert((0..n).map(|i| 0xff - i as u8).collect());
        s.insert((0..n).map(|i| if i % 2 == 0 { 0xa5 } else { 0x3c }).collect());
        s.insert((0..n).map(|i| b"Hello, World! xeh"[i % 17]).collect());
        s.insert((0..n).map(|i| [0x86u8, 0x4f, 0xd2, 0x6f, 0xb5, 0x59, 0xf7, 0x5b][i % 8]).collect());
        s.insert((0..n).map(|i| "é¿".as_bytes()[i % 4]).collect());
        // a single set bit at the first, a middle and the last position; a single cleared bit
        for pos in [0usize, n * 4, n * 8 - 1] {
            let mut v = vec![0u8; n];
            v[pos / 8] |= 0x80 >> (pos % 8);
            s.insert(v.clone());
            s.insert(v.iter().map(|x| !x).collect());
        }
        s.insert((0..n).map(|i| (mix(seed, (n * 64 + i) as u64) & 0xff) as u8).collect());
    }
    s.into_iter().collect()
}

// ------------------------------------------------------------------ evaluation helpers
enum Ev {
    Panic(String),
    Err(Xerr),
    Stack(Vec<Cell>),
}
fn step(xs: &mut Xstate, src: &str) -> Ev {
    match guarded(|| xs.eval(src)) {
        Err(p) => Ev::Panic(p),
        Ok(Err(e)) => Ev::Err(e),
        Ok(Ok(())) => {
            let n = xs.data_depth();
            Ev::Stack((0..n).rev().map(|i| xs.get_data(i).unwrap().clone()).collect())
        }
    }
}
fn ev_text(e: &Ev) -> String {
    match e {
        Ev::Panic(p) => format!("panic: {}", p),
        Ev::Err(e) => format!("error: {}", err_kind(e)),
        Ev::Stack(s) => format!("stack: [{}]", truncate(&s.iter().map(render).collect::<Vec<_>>().join(" "), 300)),
    }
}
fn one_str(e: &Ev) -> Option<String> {
    match e {
        Ev::Stack(s) if s.len() == 1 => match s[0].value() {
            Cell::Str(x) => Some(x.to_string()),
            _ => None,
        },
        _ => None,
    }
}
fn one_bitstr(e: &Ev) -> Option<Bitstr> {
    match e {
        Ev::Stack(s) if s.len() == 1 => match s[0].value() {
            Cell::Bitstr(x) => Some(x.clone()),
            _ => None,
        },
        _ => None,
    }
}

struct Tot {
    cases: AtomicU64,
    evals: AtomicU64,
    cmps: AtomicU64,
    nontrivial: AtomicU64,
}
struct Local {
    cases: u64,
    evals: u64,
    cmps: u64,
    nontrivial: u64,
    cov: BTreeMap<String, u64>,
}
impl Local {
    fn new() -> Local {
        Local { cases: 0, evals: 0, cmps: 0, nontrivial: 0, cov: BTreeMap::new() }
    }
    fn flush(&self, tot: &Tot, cov: &Counters) {
        tot.cases.fetch_add(self.cases, Ordering::Relaxed);
        tot.evals.fetch_add(self.evals, Ordering::Relaxed);
        tot.cmps.fetch_add(self.cmps, Ordering::Relaxed);
        tot.nontrivial.fetch_add(self.nontrivial, Ordering::Relaxed);
        cov.merge(&self.cov);
    }
}

fn bytes_weight(bytes: &[u8]) -> u64 {
    (bytes.len() as u64) * 100_000 + bytes.iter().map(|b| *b as u64).sum::<u64>()
}

// ------------------------------------------------------------------ A. round trip
/// encode then decode `cell` (which denotes `bytes`); reports violations; returns the text
fn roundtrip_case(base: &Xstate, c: Codec, cell: &Cell, bytes: &[u8], p: Pres, rep: &Reporter, l: &mut Local) -> Option<String> {
    // every other case is preceded, on the same thread, by an encoder call that is rightly refused
    // (12 bits are not a byte string): what a refused call leaves behind must not reach the next one
    if l.cases % 2 == 1 {
        let mut ys = base.clone();
        let junk = Cell::from(Bitstr::from(vec![0x41u8, 0x30, 0x77]).substr(3, 15).expect("substr"));
        let _ = ys.push_data(junk);
        let _ = step(&mut ys, c.enc());
    }
    let mut xs = base.clone();
    xs.push_data(cell.clone()).expect("push");
    l.evals += 1;
    l.cmps += 1;
    let r1 = step(&mut xs, c.enc());
    let replay = |obs: String, text: Option<&str>| {
        jo(vec![
            ("kind", js("push+eval")),
            ("operand", js(truncate(&render(cell), 400))),
            ("operand_presentation", js(format!("{:?}", p))),
            ("operand_source", js(operand_source(bytes, p).unwrap_or_else(|| "(pushed through the API)".into()))),
            ("source", js(format!("{} {}", c.enc(), c.dec()))),
            ("encoded_text", js(text.unwrap_or("(none)").to_string())),
            ("expected", js(format!("the {} bytes {}", bytes.len(), hex(bytes)))),
            ("observed", js(obs)),
        ])
    };
    let w = bytes_weight(bytes) + match p {
        Pres::Bits { k, .. } => k as u64 * 1000,
        _ => 500,
    };
    let text = match one_str(&r1) {
        Some(t) => t,
        None => {
            if let Ev::Panic(_) = r1 {
                rep.report_w(&format!("panic:{}:{}", c.enc(), p.class()), w, || replay(ev_text(&r1), None));
                return None;
            }
            if c == Codec::Z85 && bytes.len() % 4 != 0 && matches!(r1, Ev::Err(_)) {
                bump(&mut l.cov, "zero85:length-not-multiple-of-4:refused-cleanly");
                return None;
            }
            rep.report_w(&format!("roundtrip:{}:{}", c.enc(), p.class()), w, || replay(ev_text(&r1), None));
            return None;
        }
    };
    l.evals += 1;
    l.cmps += 1;
    let r2 = step(&mut xs, c.dec());
    let ok = match one_bitstr(&r2) {
        Some(b) => b.len() == bytes.len() * 8 && b.to_bytes().as_deref() == Some(bytes),
        None => false,
    };
    if !ok {
        let key = match r2 {
            Ev::Panic(_) => format!("panic:{}", c.dec()),
            _ => format!("roundtrip:{}:{}", c.enc(), p.class()),
        };
        rep.report_w(&key, w, || replay(ev_text(&r2), Some(&text)));
    }
    Some(text)
}

struct HexVariants {
    fails: [AtomicU64; 3],
    first: Mutex<[Option<(u64, J)>; 3]>,
    checked: AtomicU64,
}

/// B. the standard's text of `bytes` must decode to `bytes`
fn standard_text_case(base: &Xstate, c: Codec, bytes: &[u8], rep: &Reporter, l: &mut Local, hv: &HexVariants) {
    let dec_is = |text: &str, l: &mut Local| -> (bool, String) {
        let mut xs = base.clone();
        xs.push_data(Cell::from(text.to_string())).expect("push");
        l.evals += 1;
        l.cmps += 1;
        let r = step(&mut xs, c.dec());
        let ok = match one_bitstr(&r) {
            Some(b) => b.to_bytes().as_deref() == Some(bytes),
            None => false,
        };
        (ok, ev_text(&r))
    };
    let text = match c {
        Codec::B32 => Some(ref_base32(bytes)),
        Codec::B64 => Some(ref_base64(bytes)),
        Codec::Z85 => ref_z85(bytes),
        Codec::B32Hex => None,
    };
    if let Some(text) = text {
        bump(&mut l.cov, &format!("standard-text:{}", c.dec()));
        let (ok, obs) = dec_is(&text, l);
        if !ok {
            rep.report_w(&format!("standard-text:{}", c.dec()), bytes_weight(bytes), || {
                jo(vec![
                    ("kind", js("push+eval")),
                    ("operand", js(format!("s:{:?}", text))),
                    ("source", js(c.dec())),
                    ("what", js("the RFC 4648 / Z85 text of the bytes must decode to the bytes")),
                    ("expected", js(hex(bytes))),
                    ("observed", js(obs)),
                ])
            });
        }
    }
    if c == Codec::B32Hex {
        bump(&mut l.cov, "standard-text:base32hex>");
        hv.checked.fetch_add(1, Ordering::Relaxed);
        for (i, (name, text)) in ref_base32hex_variants(bytes).iter().enumerate() {
            let (ok, obs) = dec_is(text, l);
            if !ok {
                hv.fails[i].fetch_add(1, Ordering::Relaxed);
                let w = bytes_weight(bytes);
                let mut g = hv.first.lock().unwrap();
                if g[i].as_ref().map(|(ow, _)| w < *ow).unwrap_or(true) {
                    g[i] = Some((
                        w,
                        jo(vec![
                            ("kind", js("push+eval")),
                            ("alphabet_reading", js(*name)),
                            ("operand", js(format!("s:{:?}", text))),
                            ("source", js(c.dec())),
                            ("expected", js(hex(bytes))),
                            ("observed", js(obs)),
                        ]),
                    ));
                }
            }
        }
    }
}

// ------------------------------------------------------------------ C. invalid text
const TEXT_ALPHABET: [char; 10] = ['A', '7', '0', 'u', '+', '=', '#', '`', ' ', 'é'];

fn nth_text(mut idx: usize, maxlen: usize) -> String {
    // strings ordered by length, then lexicographically by alphabet index
    let a = TEXT_ALPHABET.len();
    let mut len = 0;
    let mut count = 1usize;
    while len <= maxlen {
        if idx < count {
            break;
        }
        idx -= count;
        count *= a;
        len += 1;
    }
    let mut cs = vec![' '; len];
    for i in (0..len).rev() {
        cs[i] = TEXT_ALPHABET[idx % a];
        idx /= a;
    }
    cs.into_iter().collect()
}
fn text_count(maxlen: usize) -> usize {
    let a = TEXT_ALPHABET.len();
    let mut n = 0;
    let mut c = 1;
    for _ in 0..=maxlen {
        n += c;
        c *= a;
    }
    n
}

fn invalid_text_case(base: &Xstate, c: Codec, text: &str, rep: &Reporter, l: &mut Local, images: &mut BTreeSet<Vec<u8>>) {
    let mut xs = base.clone();
    xs.push_data(Cell::from(text.to_string())).expect("push");
    l.evals += 1;
    l.cmps += 1;
    l.cases += 1;
    let r = step(&mut xs, c.dec());
    let foreign = text.chars().any(|ch| c.foreign(ch));
    bump(&mut l.cov, &format!("invalid-text:{}:input:{}", c.dec(), if foreign { "has-foreign-char" } else { "in-alphabet" }));
    let w = (text.chars().count() as u64) * 1000 + text.bytes().map(|b| b as u64 % 97).sum::<u64>();
    let replay = |what: &str, obs: String| {
        jo(vec![("kind", js("push+eval")), ("operand", js(format!("s:{:?}", text))), ("source", js(c.dec())), ("expected", js(what)), ("observed", js(obs))])
    };
    match &r {
        Ev::Panic(_) => rep.report_w(&format!("panic:{}", c.dec()), w, || replay("nil or a bit-string", ev_text(&r))),
        Ev::Err(_) => rep.report_w(&format!("invalid-text:{}:error", c.dec()), w, || replay("nil or a bit-string, not an error", ev_text(&r))),
        Ev::Stack(s) => {
            let top = if s.len() == 1 { Some(s[0].value().clone()) } else { None };
            match top {
                Some(Cell::Nil) => {
                    bump(&mut l.cov, &format!("invalid-text:{}:{}", c.dec(), if foreign { "foreign->nil" } else { "nil" }));
                }
                Some(Cell::Bitstr(b)) if b.len() % 8 == 0 => {
                    if foreign {
                        rep.report_w(&format!("invalid-text:{}:foreign-char-accepted", c.dec()), w, || replay("nil (the text has a character outside the alphabet)", ev_text(&r)));
                    } else {
                        bump(&mut l.cov, &format!("invalid-text:{}:decoded", c.dec()));
                        // a decoded image must re-encode and decode to itself
                        let bytes = b.to_bytes().unwrap_or_default();
                        if images.insert(bytes.clone()) {
                            let cell = Cell::from(Bitstr::from(bytes.clone()));
                            roundtrip_case(base, c, &cell, &bytes, Pres::Bits { k: 0, junk: 2 }, rep, l);
                        }
                    }
                }
                _ => rep.report_w(&format!("invalid-text:{}:bad-result", c.dec()), w, || replay("exactly one result: nil or a byte-multiple bit-string", ev_text(&r))),
            }
        }
    }
}

// ------------------------------------------------------------------ D. acceptance alphabet
fn value_alphabet() -> Vec<(String, Cell)> {
    let bs = |bytes: Vec<u8>| Bitstr::from(bytes);
    let k = Cell::from("k");
    let tag = |c: Cell| c.insert_tag(k.clone(), Cell::Int(1));
    let vec_of = |items: Vec<Cell>| {
        let mut v = Xvec::new();
        for i in items {
            v.push_back_mut(i);
        }
        Cell::from(v)
    };
    let four = bs(vec![0xa5]).substr(0, 4).unwrap();
    let four_b = bs(vec![0xa5]).substr(4, 8).unwrap();
    let mut v: Vec<(String, Cell)> = vec![
        ("nil".into(), Cell::Nil),
        ("flag".into(), Cell::Flag(true)),
        ("int-0".into(), Cell::Int(0)),
        ("int-255".into(), Cell::Int(255)),
        ("int-max".into(), Cell::Int(i128::MAX)),
        ("real".into(), Cell::Real(1.5)),
        ("real-nan".into(), Cell::Real(f64::NAN)),
        ("str-empty".into(), Cell::from("")),
        ("str-ascii".into(), Cell::from("a1")),
        ("str-non-ascii".into(), Cell::from("héllo→")),
        ("str-76-bytes".into(), Cell::from("é".repeat(38))),
        ("bitstr-empty".into(), Cell::from(Bitstr::new())),
        ("bitstr-1-bit".into(), Cell::from(bs(vec![0x80]).substr(0, 1).unwrap())),
        ("bitstr-3-bits-at-3".into(), Cell::from(bs(vec![0xff]).substr(3, 6).unwrap())),
        ("bitstr-1-byte".into(), Cell::from(bs(vec![0x41]))),
        ("bitstr-1-byte-at-4".into(), Cell::from(bs(vec![0x12, 0x34]).substr(4, 12).unwrap())),
        ("bitstr-3-bytes-at-5".into(), Cell::from(bs(vec![1, 2, 3, 4]).substr(5, 29).unwrap())),
        ("bitstr-12-bits".into(), Cell::from(bs(vec![0xab, 0xcd]).substr(0, 12).unwrap())),
        ("bitstr-12-bits-at-4".into(), Cell::from(bs(vec![0xab, 0xcd]).substr(4, 16).unwrap())),
        ("bitstr-static".into(), Cell::from(Bitstr::from(&b"xyz"[..]))),
        ("vec-empty".into(), vec_of(vec![])),
        ("vec-ints".into(), vec_of(vec![Cell::Int(1), Cell::Int(255), Cell::Int(0)])),
        ("vec-int-256".into(), vec_of(vec![Cell::Int(1), Cell::Int(256)])),
        ("vec-int-neg".into(), vec_of(vec![Cell::Int(-1)])),
        ("vec-int-str".into(), vec_of(vec![Cell::Int(1), Cell::from("a")])),
        ("vec-real".into(), vec_of(vec![Cell::Real(1.5)])),
        ("vec-nil".into(), vec_of(vec![Cell::Nil])),
        ("vec-flag".into(), vec_of(vec![Cell::Int(1), Cell::Flag(false)])),
        ("vec-map".into(), vec_of(vec![Cell::Map(Xmap::new())])),
        ("vec-nested".into(), vec_of(vec![Cell::from("X"), vec_of(vec![Cell::Int(0x1a), vec_of(vec![Cell::Int(0x30)])])])),
        ("vec-nested-bad".into(), vec_of(vec![Cell::Int(1), vec_of(vec![Cell::Int(2), vec_of(vec![Cell::Nil])])])),
        ("vec-4bits-4bits".into(), vec_of(vec![Cell::from(four.clone()), Cell::from(four_b.clone())])),
        ("vec-4bits".into(), vec_of(vec![Cell::from(four.clone())])),
        ("vec-4bits-int".into(), vec_of(vec![Cell::from(four.clone()), Cell::Int(7)])),
        ("vec-4bits-int-4bits".into(), vec_of(vec![Cell::from(four_b.clone()), Cell::Int(0x5a), Cell::from(four.clone())])),
        ("vec-bytes-unaligned".into(), vec_of(vec![Cell::from(bs(vec![0x12, 0x34]).substr(4, 12).unwrap()), Cell::from("z")])),
        ("vec-tagged-items".into(), vec_of(vec![tag(Cell::Int(7)), tag(Cell::from("q")), tag(vec_of(vec![Cell::Int(9)]))])),
        ("map-empty".into(), Cell::Map(Xmap::new())),
        ("map".into(), Cell::Map(Xmap::new().insert(Cell::Int(1), Cell::Int(2)))),
    ];
    let tagged: Vec<(String, Cell)> = v
        .iter()
        .filter(|(n, _)| ["int-255", "str-ascii", "bitstr-1-byte", "bitstr-12-bits", "bitstr-1-byte-at-4", "vec-ints", "vec-int-256", "nil", "vec-4bits-4bits"].contains(&n.as_str()))
        .map(|(n, c)| (format!("tagged:{}", n), tag(c.clone())))
        .collect();
    v.extend(tagged);
    v
}

fn acceptance(rep: &Reporter, cov: &Counters, tot: &Tot) -> J {
    let base = boot();
    let mut l = Local::new();
    let mut table = vec![];
    for (name, cell) in value_alphabet() {
        let tclass = match cell.value() {
            Cell::Str(_) => "string",
            Cell::Bitstr(_) => "bitstr",
            Cell::Vector(_) => "vector",
            _ => "other-type",
        };
        let mut xs = base.clone();
        xs.push_data(cell.clone()).expect("push");
        l.evals += 1;
        let r0 = step(&mut xs, ">bitstr");
        let accepted: Option<Bitstr> = one_bitstr(&r0);
        if let Ev::Panic(_) = r0 {
            rep.report_w(&format!("panic:>bitstr:{}", tclass), 10, || jo(vec![("kind", js("push+eval")), ("operand", js(render(&cell))), ("source", js(">bitstr")), ("observed", js(ev_text(&r0)))]));
            continue;
        }
        if accepted.is_none() && !matches!(r0, Ev::Err(_)) {
            machinery_error(&format!("C18 acceptance: `>bitstr` on {} gave neither a bit-string nor an error: {}", name, ev_text(&r0)));
        }
        let expect_ok = accepted.as_ref().map(|b| b.len() % 8 == 0).unwrap_or(false);
        bump(&mut l.cov, &format!("acceptance:{}", if expect_ok { "accepted" } else if accepted.is_some() { "bitstr-not-byte-multiple" } else { "rejected-by->bitstr" }));
        table.push(jo(vec![("value", js(name.clone())), (">bitstr", js(truncate(&ev_text(&r0), 80))), ("encoders_must_accept", J::B(expect_ok))]));
        for c in CODECS {
            l.cases += 1;
            l.evals += 1;
            l.cmps += 1;
            let mut xs = base.clone();
            xs.push_data(cell.clone()).expect("push");
            let r1 = step(&mut xs, c.enc());
            let replay = |r: &Ev, what: String| {
                jo(vec![("kind", js("push+eval")), ("operand", js(truncate(&render(&cell), 300))), ("operand_name", js(name.clone())), ("source", js(c.enc())), (">bitstr_gives", js(truncate(&ev_text(&r0), 200))), ("expected", js(what)), ("observed", js(ev_text(r)))])
            };
            let text = one_str(&r1);
            match (&r1, expect_ok, &text) {
                (Ev::Panic(_), _, _) => rep.report_w(&format!("panic:{}:{}", c.enc(), tclass), 10, || replay(&r1, "no panic".into())),
                (_, true, Some(t)) => {
                    // decodes to what >bitstr gives
                    l.evals += 1;
                    l.cmps += 1;
                    let r2 = step(&mut xs, c.dec());
                    let want = accepted.as_ref().unwrap();
                    let ok = one_bitstr(&r2).map(|b| bits_of(&b) == bits_of(want)).unwrap_or(false);
                    if !ok {
                        rep.report_w(&format!("acceptance:{}:{}:value", c.enc(), tclass), render(&cell).len() as u64, || {
                            jo(vec![("kind", js("push+eval")), ("operand", js(truncate(&render(&cell), 300))), ("source", js(format!("{} {}", c.enc(), c.dec()))), ("encoded_text", js(t.clone())), ("expected", js(format!("the bit-string `>bitstr` gives: {}", ev_text(&r0)))), ("observed", js(ev_text(&r2)))])
                        });
                    }
                }
                (Ev::Err(_), false, _) => {}
                (_, true, None) => rep.report_w(&format!("acceptance:{}:{}:refused", c.enc(), tclass), render(&cell).len() as u64, || replay(&r1, "a string (`>bitstr` accepts this value and the length is a byte multiple)".into())),
                (_, false, _) => rep.report_w(&format!("acceptance:{}:{}:accepted", c.enc(), tclass), render(&cell).len() as u64, || replay(&r1, "an error (`>bitstr` refuses this value or its length is not a byte multiple)".into())),
            }
        }
    }
    l.flush(tot, cov);
    J::A(table)
}

// ------------------------------------------------------------------ E. source text only
fn language_only(rep: &Reporter, cov: &Counters, tot: &Tot, cfg: &Cfg) {
    let mut set: Vec<Vec<u8>> = vec![vec![]];
    for b in 0..=255u8 {
        set.push(vec![b]);
    }
    for b in [[0x41u8, 0x31], [0xff, 0x00], [0x00, 0xff], [0x80, 0x01]] {
        set.push(b.to_vec());
    }
    set.extend(structured(9, cfg.seed).into_iter().filter(|b| b.len() <= 9));
    let pres: Vec<Pres> = presentations().into_iter().filter(|p| !matches!(p, Pres::Bits { junk: 0, .. })).collect();
    par_run(cfg.threads, set.len(), 4, |_t, pull| {
        let base = boot();
        let mut l = Local::new();
        while let Some(r) = pull() {
            for i in r {
                let bytes = &set[i];
                for &p in &pres {
                    let Some(osrc) = operand_source(bytes, p) else { continue };
                    for c in CODECS {
                        let src = format!("{} {} {}", osrc, c.enc(), c.dec());
                        let mut xs = base.clone();
                        l.cases += 1;
                        l.evals += 1;
                        l.cmps += 1;
                        bump(&mut l.cov, &format!("source-only:{}:{}", c.enc(), p.class()));
                        let r = step(&mut xs, &src);
                        let ok = one_bitstr(&r).map(|b| b.to_bytes().as_deref() == Some(&bytes[..])).unwrap_or(false);
                        if ok {
                            continue;
                        }
                        if c == Codec::Z85 && bytes.len() % 4 != 0 && matches!(r, Ev::Err(_)) {
                            continue;
                        }
                        let key = match r {
                            Ev::Panic(_) => format!("panic:{}:{}", c.enc(), p.class()),
                            _ => format!("roundtrip:{}:{}", c.enc(), p.class()),
                        };
                        rep.report_w(&key, bytes_weight(bytes) + 50, || jo(vec![("kind", js("eval")), ("source", js(src.clone())), ("expected", js(format!("the {} bytes {}", bytes.len(), hex(bytes)))), ("observed", js(ev_text(&r)))]));
                    }
                }
            }
        }
        l.flush(tot, cov);
    });
}

// ------------------------------------------------------------------ driver
pub fn run(cfg: &Cfg) -> i32 {
    let rep = Reporter::new("C18");
    let mut ev = Evidence::new("C18", cfg);
    let cov = Counters::new();
    let tot = Tot { cases: AtomicU64::new(0), evals: AtomicU64::new(0), cmps: AtomicU64::new(0), nontrivial: AtomicU64::new(0) };
    ev.rule = "distinct (byte string, presentation, codec) round-trip cases with a non-empty byte string that is presented as an unaligned bit-string or whose length is not a multiple of the codec's block (padding / tail path)".into();
    let hv = HexVariants { fails: [AtomicU64::new(0), AtomicU64::new(0), AtomicU64::new(0)], first: Mutex::new([None, None, None]), checked: AtomicU64::new(0) };

    // ---- A + B: byte strings
    let maxlen = if cfg.quick() { 16 } else { 40 };
    let mut longer = structured(maxlen, cfg.seed);
    // long operands: around the sizes at which an implementation might switch to working in pieces
    for n in [31usize, 32, 33, 47, 48, 49, 50, 63, 64, 65, 95, 96, 97, 100, 127, 128, 129, 255, 256, 257] {
        longer.push((0..n).map(|i| (i as u8).wrapping_mul(37).wrapping_add(11)).collect());
        longer.push((0..n).map(|i| b"Hello, World! xeh"[i % 17]).collect());
    }
    // 4-byte groups whose zero85 digits end in 1..4 times the digit 84 (written `#`, which is also the padding
    // mark), alone and followed by 1..3 more bytes
    for r in 1..=4u32 {
        let p = 85u64.pow(r);
        for k in [0u64, 1, 7, (u32::MAX as u64 - (p - 1)) / p] {
            let v = (p - 1 + k * p) as u32;
            for tail in [&[][..], &[7u8][..], &[1, 2][..], &[1, 2, 3][..]] {
                let mut b = v.to_be_bytes().to_vec();
                b.extend_from_slice(tail);
                longer.push(b.clone());
                let mut b2 = vec![3u8, 0x1c, 0x84, 0xb0];
                b2.extend_from_slice(&b);
                longer.push(b2);
            }
        }
    }
    longer.sort();
    longer.dedup();
    let n_small = 1 + 256 + 65536;
    let n_all3 = if cfg.quick() { 0 } else { 1usize << 24 };
    let total = n_small + longer.len() + n_all3;
    let pres_all = presentations();
    // every 3-byte string (thorough): aligned, two unaligned offsets and the vector form
    let pres_3: Vec<Pres> = vec![Pres::Bits { k: 0, junk: 2 }, Pres::Bits { k: 5, junk: 1 }, Pres::Bits { k: 2, junk: 0 }, Pres::Vector, Pres::Pieces { cut: 4 }];
    let texts_seen = Mutex::new(Vec::<(Codec, String)>::new());
    let t0 = std::time::Instant::now();
    par_run(cfg.threads, total, 256, |_t, pull| {
        let base = boot();
        let mut l = Local::new();
        let mut bytes: Vec<u8> = vec![];
        while let Some(r) = pull() {
            for i in r {
                bytes.clear();
                let pres: &[Pres];
                if i == 0 {
                    pres = &pres_all;
                } else if i < 257 {
                    bytes.push((i - 1) as u8);
                    pres = &pres_all;
                } else if i < n_small {
                    let x = i - 257;
                    bytes.push((x >> 8) as u8);
                    bytes.push(x as u8);
                    pres = &pres_all;
                } else if i < n_small + longer.len() {
                    bytes.extend_from_slice(&longer[i - n_small]);
                    pres = &pres_all;
                } else {
                    let x = i - n_small - longer.len();
                    bytes.extend_from_slice(&[(x >> 16) as u8, (x >> 8) as u8, x as u8]);
                    pres = &pres_3;
                }
                for &p in pres {
                    let Some(cell) = operand(&bytes, p) else { continue };
                    for c in CODECS {
                        l.cases += 1;
                        let unaligned = matches!(p, Pres::Bits { k, .. } if k % 8 != 0);
                        if !bytes.is_empty() && (unaligned || bytes.len() % c.block() != 0) {
                            l.nontrivial += 1;
                        }
                        bump(&mut l.cov, &format!("roundtrip:{}:{}", c.enc(), p.class()));
                        let text = roundtrip_case(&base, c, &cell, &bytes, p, &rep, &mut l);
                        // keep a few encoder outputs as seeds for the mutation sweep (section C)
                        if let (Some(t), Pres::Bits { k: 0, junk: 2 }) = (text, p) {
                            if i >= n_small && i < n_small + longer.len() && bytes.len() <= 12 && (i - n_small) % 7 == 0 {
                                texts_seen.lock().unwrap().push((c, t));
                            }
                        }
                    }
                }
                // B: once per byte string
                for c in CODECS {
                    standard_text_case(&base, c, &bytes, &rep, &mut l, &hv);
                }
            }
        }
        l.flush(&tot, &cov);
    });
    println!("C18 round-trip: {} byte strings, {} cases, {:.1}s", total, tot.cases.load(Ordering::Relaxed), t0.elapsed().as_secs_f64());

    // base32hex: at least one reading of the alphabet must hold for every byte string
    let fails: Vec<u64> = hv.fails.iter().map(|a| a.load(Ordering::Relaxed)).collect();
    let names = ["crockford", "rfc4648-hex-padded", "rfc4648-hex-unpadded"];
    let in_force: Vec<&str> = names.iter().zip(&fails).filter(|(_, f)| **f == 0).map(|(n, _)| *n).collect();
    ev.add("base32hex_alphabet_readings_consistent_with_every_case", J::A(in_force.iter().map(|n| js(*n)).collect()));
    if in_force.is_empty() {
        let best = (0..3).min_by_key(|i| fails[*i]).unwrap();
        let first = hv.first.lock().unwrap()[best].clone();
        if let Some((w, j)) = first {
            for _ in 0..fails[best].max(1) {
                rep.report_w("standard-text:base32hex>", w, || j.clone());
            }
        }
    }

    // ---- C: invalid text
    let t1 = std::time::Instant::now();
    let maxl = if cfg.quick() { 5 } else { 6 };
    let n_texts = text_count(maxl);
    par_run(cfg.threads, n_texts, 1024, |_t, pull| {
        let base = boot();
        let mut l = Local::new();
        let mut images: Vec<BTreeSet<Vec<u8>>> = vec![BTreeSet::new(); 4];
        while let Some(r) = pull() {
            for i in r {
                let t = nth_text(i, maxl);
                for (ci, c) in CODECS.into_iter().enumerate() {
                    invalid_text_case(&base, c, &t, &rep, &mut l, &mut images[ci]);
                }
            }
        }
        l.flush(&tot, &cov);
    });
    // mutation sweep over longer encoder outputs
    let mut seeds = texts_seen.into_inner().unwrap();
    seeds.sort_by(|a, b| (a.0 as u8, &a.1).cmp(&(b.0 as u8, &b.1)));
    seeds.dedup();
    let mut mutants: BTreeSet<(u8, String)> = BTreeSet::new();
    for (c, t) in &seeds {
        let cs: Vec<char> = t.chars().collect();
        for i in 0..=cs.len() {
            for a in TEXT_ALPHABET {
                let mut ins = cs.clone();
                ins.insert(i, a);
                mutants.insert((*c as u8, ins.into_iter().collect()));
                if i < cs.len() {
                    let mut sub = cs.clone();
                    sub[i] = a;
                    mutants.insert((*c as u8, sub.into_iter().collect()));
                }
            }
            if i < cs.len() {
                let mut del = cs.clone();
                del.remove(i);
                mutants.insert((*c as u8, del.into_iter().collect()));
                mutants.insert((*c as u8, cs[..i].iter().collect()));
            }
        }
    }
    let mutants: Vec<(u8, String)> = mutants.into_iter().collect();
    par_run(cfg.threads, mutants.len(), 256, |_t, pull| {
        let base = boot();
        let mut l = Local::new();
        let mut images: Vec<BTreeSet<Vec<u8>>> = vec![BTreeSet::new(); 4];
        while let Some(r) = pull() {
            for i in r {
                let (ci, t) = &mutants[i];
                bump(&mut l.cov, "invalid-text:mutants");
                invalid_text_case(&base, CODECS[*ci as usize], t, &rep, &mut l, &mut images[*ci as usize]);
            }
        }
        l.flush(&tot, &cov);
    });
    println!("C18 invalid text: {} strings x 4 codecs + {} mutants of {} encoder outputs, {:.1}s", n_texts, mutants.len(), seeds.len(), t1.elapsed().as_secs_f64());

    // ---- D, E
    let table = acceptance(&rep, &cov, &tot);
    language_only(&rep, &cov, &tot, cfg);

    // samples
    {
        let base = boot();
        for (c, bytes, p) in [(Codec::B64, vec![0x41u8, 0x31], Pres::Bits { k: 3, junk: 1 }), (Codec::B32, vec![0x41, 0x31], Pres::Vector), (Codec::Z85, vec![0x86, 0x4f, 0xd2, 0x6f], Pres::Bits { k: 5, junk: 0 }), (Codec::Z85, vec![1, 2, 3], Pres::Bits { k: 0, junk: 2 }), (Codec::B32Hex, vec![0xff], Pres::Str)] {
            if let Some(cell) = operand(&bytes, p) {
                let mut xs = base.clone();
                xs.push_data(cell).unwrap();
                let r1 = step(&mut xs, c.enc());
                let t = one_str(&r1);
                let r2 = step(&mut xs, c.dec());
                ev.sample(jo(vec![("bytes", js(hex(&bytes))), ("presentation", js(format!("{:?}", p))), ("source", js(format!("{} {}", c.enc(), c.dec()))), ("text", js(t.unwrap_or_else(|| ev_text(&r1)))), ("decoded", js(ev_text(&r2)))]));
            }
        }
        for (c, t) in [(Codec::B64, "A==="), (Codec::Z85, "####0"), (Codec::B32, "A`"), (Codec::B32Hex, "u0")] {
            let mut xs = base.clone();
            xs.push_data(Cell::from(t)).unwrap();
            let r = step(&mut xs, c.dec());
            ev.sample(jo(vec![("text", js(t)), ("source", js(c.dec())), ("result", js(ev_text(&r)))]));
        }
    }

    ev.states = tot.cases.load(Ordering::Relaxed);
    ev.evaluations = tot.evals.load(Ordering::Relaxed);
    ev.transitions = ev.evaluations;
    ev.traces = tot.cmps.load(Ordering::Relaxed);
    ev.nontrivial = tot.nontrivial.load(Ordering::Relaxed);
    ev.add(
        "byte_strings",
        jo(vec![
            ("all_of_length_0_1_2", ji(n_small)),
            ("structured_lengths_3_to", ji(maxlen)),
            ("structured_count", ji(longer.len())),
            ("all_of_length_3", ji(n_all3)),
            ("presentations", J::A(pres_all.iter().map(|p| js(format!("{:?}", p))).collect())),
            ("presentations_for_all_of_length_3", J::A(pres_3.iter().map(|p| js(format!("{:?}", p))).collect())),
        ]),
    );
    ev.add(
        "invalid_text",
        jo(vec![
            ("alphabet", js(TEXT_ALPHABET.iter().collect::<String>())),
            ("max_length", ji(maxl)),
            ("strings", ji(n_texts)),
            ("mutation_seeds", ji(seeds.len())),
            ("mutants", ji(mutants.len())),
        ]),
    );
    ev.add("acceptance_alphabet", table);
    ev.add("coverage_counts", cov.json());
    ev.assumptions = vec![
        "zero85 of a length that is not a multiple of 4 may be refused with a clean error (plain Z85 is undefined there; the z85 crate in use encodes a '#'-marked tail instead); whatever it does produce must decode back".into(),
        "`base32` / `base64` / `zero85` name RFC 4648 base32, RFC 4648 base64 and ZeroMQ Z85 (pinned by the unit tests): the standard's text must decode to the bytes; for `base32hex` any of Crockford / RFC 4648 base32hex (padded or not) is accepted as long as one reading holds for every case".into(),
        "a character is 'outside the alphabet' only if it is outside every reading of the codec (lower case, url-safe and hyphenated variants are left open); for such a character nil is demanded, otherwise nil or a bit-string is accepted".into(),
        "acceptance compares success/failure with `>bitstr` run on the same value by the same build; error kinds are not compared".into(),
    ];
    // vacuity
    let mut need: Vec<String> = vec![];
    for c in CODECS {
        for pc in ["bitstr-aligned", "bitstr-byte-offset", "bitstr-unaligned", "vector", "string"] {
            need.push(format!("roundtrip:{}:{}", c.enc(), pc));
            need.push(format!("source-only:{}:{}", c.enc(), pc));
        }
        need.push(format!("invalid-text:{}:input:has-foreign-char", c.dec()));
        need.push(format!("invalid-text:{}:input:in-alphabet", c.dec()));
        need.push(format!("invalid-text:{}:decoded", c.dec()));
        need.push(format!("invalid-text:{}:foreign->nil", c.dec()));
        need.push(format!("standard-text:{}", c.dec()));
    }
    for n in ["acceptance:accepted", "acceptance:bitstr-not-byte-multiple", "acceptance:rejected-by->bitstr", "invalid-text:mutants"] {
        need.push(n.to_string());
    }
    for n in need {
        if cov.get(&n) == 0 {
            if rep.nviol.load(Ordering::Relaxed) == 0 {
                vacuous(&format!("vacuous: C18 coverage cell {} was never exercised", n));
            }
            // outcome cells can be empty because the cases failed: the verdict is a violation, the run is not exhaustive
            ev.cap(format!("coverage cell {} not exercised (the cases that feed it failed)", n));
        }
    }
    conclude(&ev, &rep)
}
