// C14 — resource limits are hard bounds and hitting one is recoverable.
// For every program: an unconstrained stepped run records the trace T (instruction meter,
// stack length, heap length after compile and after every step). Then EVERY instruction
// limit N in [0, |T|+1] (+ 2|T|, usize::MAX), EVERY stack limit S in [0, maxdepth+2] and
// EVERY heap limit H in [h0, h0+allocs+1] is applied, the program is stepped again and a
// monitor checks after every step: meter <= N, stack <= S, heap <= H, steps <= N; early stop
// => error; no spurious refusal; refusal no later than the first exceeding step of T; after
// raising the limit the interpreter works (resume for N, probes for S and H).
use crate::cf::*;
use crate::common::*;
use crate::corpus;
use std::collections::BTreeMap;
use std::sync::atomic::{AtomicU64, Ordering};
use xeh::prelude::*;

#[derive(Clone, Debug, PartialEq)]
struct Pt {
    meter: usize,
    stack: usize,
    heap: usize,
}
fn pt(xs: &Xstate) -> Pt {
    let d = xs.verif_dump_light();
    let g = |k: &str| dump_get(&d, k).parse::<usize>().unwrap_or(usize::MAX);
    Pt { meter: g("meter"), stack: g("stack_len"), heap: g("heap_len") }
}
#[derive(Clone, Debug, PartialEq)]
struct Final {
    kind: String,
    stack: String,
    heap: String,
    out: String,
}
fn fin(xs: &mut Xstate, r: &Xresult) -> Final {
    let d = xs.verif_dump_light();
    Final { kind: res_kind(r), stack: dump_get(&d, "data").to_string(), heap: dump_get(&d, "heap").to_string(), out: xs.read_stdout().unwrap_or_default() }
}

#[derive(Clone, Copy, Debug, PartialEq)]
enum Lim {
    Insn(Option<usize>),
    Stack(Option<usize>),
    Heap(Option<usize>),
}
fn apply_limit(xs: &mut Xstate, l: Lim) {
    match l {
        Lim::Insn(n) => xs.set_insn_limit(n).unwrap(),
        Lim::Stack(n) => xs.set_stack_limit(n).unwrap(),
        Lim::Heap(n) => xs.set_heap_limit(n).unwrap(),
    }
}

struct Run {
    compiled: bool,
    trace: Vec<Pt>, // after compile, then after each completed step
    result: Xresult,
    xs: Xstate,
}

const STEP_CAP: usize = 400;

/// compile + next* under the given limit, with the monitor
fn stepped(base: &Xstate, src: &str, lim: Option<Lim>, violations: &mut Vec<(String, String)>) -> Result<Run, String> {
    let mut xs = base.clone();
    xs.set_insn_limit(None).unwrap(); // resets the meter: "instructions executed after the limit is set"
    if let Some(l) = lim {
        apply_limit(&mut xs, l);
    }
    let monitor = |xs: &Xstate, steps: usize, when: &str, violations: &mut Vec<(String, String)>| {
        let p = pt(xs);
        match lim {
            Some(Lim::Insn(Some(n))) => {
                if p.meter > n {
                    violations.push(("insn-meter-exceeds-limit".into(), format!("{}: meter {} > limit {}", when, p.meter, n)));
                }
                if steps > n {
                    violations.push(("more-steps-than-limit".into(), format!("{}: {} steps completed under limit {}", when, steps, n)));
                }
            }
            Some(Lim::Stack(Some(n))) => {
                if p.stack > n {
                    violations.push(("stack-exceeds-limit".into(), format!("{}: stack holds {} items under limit {}", when, p.stack, n)));
                }
            }
            Some(Lim::Heap(Some(n))) => {
                if p.heap > n {
                    violations.push(("heap-exceeds-limit".into(), format!("{}: heap holds {} cells under limit {}", when, p.heap, n)));
                }
            }
            _ => {}
        }
        p
    };
    watch::note(AsRef::<str>::as_ref(&src));
    let r = guarded(|| xs.compile(src))?;
    let mut trace = vec![monitor(&xs, 0, "after compile", violations)];
    if let Err(e) = r {
        return Ok(Run { compiled: false, trace, result: Err(e), xs });
    }
    let mut steps = 0;
    let mut result = OK;
    while xs.is_running() && steps < STEP_CAP {
        let r = guarded(|| xs.next())?;
        if let Err(e) = r {
            monitor(&xs, steps, &format!("after failing step {}", steps + 1), violations);
            result = Err(e);
            break;
        }
        steps += 1;
        trace.push(monitor(&xs, steps, &format!("after step {}", steps), violations));
    }
    Ok(Run { compiled: true, trace, result, xs })
}

fn lim_err(r: &Xresult, which: &str) -> bool {
    match r {
        Err(e) => is_limit_error(e, which),
        _ => false,
    }
}

struct Ctx<'a> {
    rep: &'a Reporter,
    src: &'a str,
    recording: bool,
}
impl<'a> Ctx<'a> {
    fn report(&self, key: &str, lim: Lim, detail: String) {
        let src = self.src.to_string();
        let rec = self.recording;
        self.rep.report_w(key, src.len() as u64 + rec as u64, || jo(vec![("kind", js("limits")), ("reverse_recording", J::B(rec)), ("source", js(src.clone())), ("limit", js(format!("{:?}", lim))), ("problem", js(detail.clone()))]));
    }
}

fn check_program(base: &Xstate, src: &str, rep: &Reporter, stats: &mut BTreeMap<String, u64>) -> Result<(u64, u64), String> {
    let cx = Ctx { rep, src, recording: base.is_recording() };
    let mut v = vec![];
    let mut u = stepped(base, src, None, &mut v)?;
    if u.trace.len() > STEP_CAP {
        bump(stats, "skipped:too-long");
        return Ok((0, 0));
    }
    if u.xs.is_running() && u.result.is_ok() {
        bump(stats, "skipped:step-cap");
        return Ok((0, 0));
    }
    let ufin = fin(&mut u.xs, &u.result);
    let t = &u.trace;
    let need_n = t.last().unwrap().meter + if u.result.is_err() && u.compiled { 1 } else { 0 }; // the failing instruction is metered too
    let need_n = if u.compiled { need_n } else { t[0].meter };
    let max_stack = t.iter().map(|p| p.stack).max().unwrap();
    let max_heap = t.iter().map(|p| p.heap).max().unwrap();
    let h0 = pt(base).heap;
    let s0 = pt(base).stack;
    let (mut runs, mut steps) = (1u64, t.len() as u64);
    bump(stats, if u.result.is_ok() { "unconstrained:ok" } else { "unconstrained:own-error" });

    // ---------------- instruction limits
    let mut ns: Vec<Option<usize>> = (0..=need_n + 1).map(Some).collect();
    ns.push(Some(2 * need_n + 2));
    ns.push(Some(usize::MAX));
    for n in ns {
        let lim = Lim::Insn(n);
        let mut viol = vec![];
        let mut r = stepped(base, src, Some(lim), &mut viol)?;
        runs += 1;
        steps += r.trace.len() as u64;
        for (k, d) in viol {
            cx.report(&k, lim, d);
        }
        let nn = n.unwrap();
        let f = fin(&mut r.xs, &r.result);
        if nn >= need_n {
            if f != ufin {
                cx.report("insn-limit:sufficient-but-differs", lim, format!("needs {} instructions; unconstrained {:?} / limited {:?}", need_n, ufin, f));
            }
            bump(stats, "insn:sufficient");
        } else {
            if !lim_err(&r.result, "insn limit") {
                // the program may fail on its own before the limit only if that happens within nn instructions — it cannot, since need_n > nn
                cx.report("insn-limit:not-enforced", lim, format!("needs {} instructions but under limit {} the run ended with {:?}", need_n, nn, r.result));
                continue;
            }
            bump(stats, "insn:refused");
            // the completed prefix is the prefix of T
            if r.compiled && r.trace[..] != t[..r.trace.len().min(t.len())] {
                cx.report("insn-limit:prefix-differs", lim, format!("trace under the limit {:?} is not a prefix of {:?}", r.trace, t));
            }
            // recoverable: lift the limit and resume
            if r.compiled {
                let mut xs = r.xs;
                xs.set_insn_limit(None).unwrap();
                let rr = guarded(|| xs.run())?;
                runs += 1;
                let f2 = fin(&mut xs, &rr);
                // output printed before the cut was already read by fin(): compare the concatenation
                let mut whole = f.out.clone();
                whole.push_str(&f2.out);
                if f2.kind != ufin.kind || f2.stack != ufin.stack || f2.heap != ufin.heap || whole != ufin.out {
                    cx.report("insn-limit:resume-differs", lim, format!("after lifting the limit run() ended with {:?} (output {:?}); unconstrained {:?}", f2, whole, ufin));
                }
                bump(stats, "insn:resumed");
            } else {
                // refused while compiling (meta block): the source was rejected, a later source must work
                let mut xs = r.xs;
                xs.set_insn_limit(None).unwrap();
                let before = stack_of(&xs);
                let rr = guarded(|| xs.eval("1 2 +"))?;
                runs += 1;
                let mut want = before.clone();
                want.push("i:3".into());
                if rr.is_err() || stack_of(&xs) != want {
                    cx.report("insn-limit:not-recoverable", lim, format!("probe after lifting the limit: {:?}, stack {:?}", rr, stack_of(&xs)));
                }
            }
        }
    }
    // ---------------- stack limits
    for s in 0..=max_stack + 2 {
        let lim = Lim::Stack(Some(s));
        let mut viol = vec![];
        let r = stepped(base, src, Some(lim), &mut viol)?;
        runs += 1;
        steps += r.trace.len() as u64;
        for (k, d) in viol {
            cx.report(&k, lim, d);
        }
        let f = fin(&mut r.xs.clone(), &r.result);
        let refused = lim_err(&r.result, "stack limit");
        if s >= max_stack + 2 {
            if f != ufin {
                cx.report("stack-limit:sufficient-but-differs", lim, format!("deepest stack {}; unconstrained {:?} / limited {:?}", max_stack, ufin, f));
            }
        } else if s < max_stack {
            if !refused {
                cx.report("stack-limit:not-enforced", lim, format!("the unconstrained run reaches depth {} but under limit {} the run ended with {:?}", max_stack, s, r.result));
                continue;
            }
            // refused no later than the first step of T that exceeds
            let first_exceed = t.iter().position(|p| p.stack > s).unwrap();
            if r.trace.len() > first_exceed {
                cx.report("stack-limit:refused-too-late", lim, format!("{} trace points completed, but point {} of the unconstrained trace already holds {} items", r.trace.len(), first_exceed, t[first_exceed].stack));
            }
            bump(stats, "stack:refused");
            // recoverable: lift the limit; a probe evaluates normally above the intact stack
            let mut xs = r.xs;
            xs.set_stack_limit(None).unwrap();
            let before = stack_of(&xs);
            let rr = guarded(|| xs.eval("1 2 +"))?;
            runs += 1;
            let mut want = before.clone();
            want.push("i:3".into());
            if rr.is_err() || stack_of(&xs) != want {
                cx.report("stack-limit:not-recoverable", lim, format!("probe `1 2 +` after lifting the limit: {:?}, stack {:?} (before {:?})", rr, stack_of(&xs), before));
            }
        } else {
            bump(stats, if refused { "stack:boundary-refused" } else { "stack:boundary-accepted" });
            if !refused && f != ufin {
                cx.report("stack-limit:sufficient-but-differs", lim, format!("unconstrained {:?} / limited {:?}", ufin, f));
            }
        }
    }
    let _ = s0;
    // ---------------- heap limits
    for h in h0..=max_heap + 1 {
        let lim = Lim::Heap(Some(h));
        let mut viol = vec![];
        let r = stepped(base, src, Some(lim), &mut viol)?;
        runs += 1;
        steps += r.trace.len() as u64;
        for (k, d) in viol {
            cx.report(&k, lim, d);
        }
        let f = fin(&mut r.xs.clone(), &r.result);
        let refused = lim_err(&r.result, "heap limit");
        if h >= max_heap {
            // a source that is rejected gives its variables back: the cells it needed while it was
            // being compiled are not visible in the trace, so "sufficient" is not known for it
            if f != ufin && u.compiled {
                cx.report("heap-limit:sufficient-but-differs", lim, format!("largest heap {}; unconstrained {:?} / limited {:?}", max_heap, ufin, f));
            }
        } else {
            if !refused {
                cx.report("heap-limit:not-enforced", lim, format!("the unconstrained run grows the heap to {} but under limit {} the run ended with {:?}", max_heap, h, r.result));
                continue;
            }
            bump(stats, "heap:refused");
            let mut xs = r.xs;
            xs.set_heap_limit(None).unwrap();
            let rr = guarded(|| xs.eval("7 var zz zz"))?;
            runs += 1;
            if rr.is_err() || stack_of(&xs).last().map(|s| s.as_str()) != Some("i:7") {
                cx.report("heap-limit:not-recoverable", lim, format!("probe `7 var zz zz` after lifting the limit: {:?}, stack {:?}", rr, stack_of(&xs)));
            }
        }
    }
    // ---------------- the same limits under eval (one call): final invariants + outcome
    let mut ueval = base.clone();
    ueval.set_insn_limit(None).unwrap();
    watch::note(AsRef::<str>::as_ref(&src));
    let ur = guarded(|| ueval.eval(src))?;
    let need_eval = pt(&ueval).meter;
    let uf = fin(&mut ueval, &ur);
    for lim in [Lim::Insn(Some(need_eval)), Lim::Insn(Some(need_eval.saturating_sub(1))), Lim::Stack(Some(max_stack + 2)), Lim::Stack(Some(max_stack.saturating_sub(1))), Lim::Heap(Some(max_heap)), Lim::Heap(Some(max_heap.saturating_sub(1).max(h0)))] {
        let mut xs = base.clone();
        xs.set_insn_limit(None).unwrap();
        apply_limit(&mut xs, lim);
        watch::note(AsRef::<str>::as_ref(&src));
        let r = guarded(|| xs.eval(src))?;
        runs += 1;
        let p = pt(&xs);
        let bad = match lim {
            Lim::Insn(Some(n)) => p.meter > n,
            Lim::Stack(Some(n)) => p.stack > n,
            Lim::Heap(Some(n)) => p.heap > n,
            _ => false,
        };
        if bad {
            cx.report("eval:bound-exceeded", lim, format!("after eval: {:?}", p));
        }
        let f = fin(&mut xs, &r);
        let sufficient = match lim {
            Lim::Insn(Some(n)) => n >= need_eval,
            Lim::Stack(Some(n)) => n >= max_stack + 2,
            Lim::Heap(Some(n)) => n >= max_heap,
            _ => true,
        };
        let heap_need_unknown = matches!(lim, Lim::Heap(_)) && !u.compiled;
        if sufficient && f != uf && !heap_need_unknown {
            cx.report("eval:sufficient-but-differs", lim, format!("unconstrained {:?} / limited {:?}", uf, f));
        }
        if let (Lim::Insn(Some(n)), true) = (lim, need_eval > 0) {
            if n < need_eval && !lim_err(&r, "insn limit") {
                cx.report("eval:insn-limit-not-enforced", lim, format!("eval needs {} instructions, ended with {:?}", need_eval, r));
            }
        }
    }
    Ok((runs, steps))
}

fn programs() -> Vec<String> {
    let mut v: Vec<String> = [
        "1 2 3 4 5",
        "[ 1 2 3 ] unbox",
        "1 2 3 3 collect",
        "1 2 3 3 collect unbox",
        "5 0 do I loop",
        "3 0 do I I loop drop",
        ": r local n n 0 > if n n 1 - r then ; 4 r",
        ": f 1 2 3 ; f f",
        "#( 1 2 3 #)",
        "#( 1 2 + #) 4",
        "1 #( 2 3 4 * * #) +",
        "1 var a 2 var b 3 var c a b c",
        "[ 1 2 ] let [ p q ] p q",
        "9 let z z z",
        "[ 1 2 3 ] foreach I loop",
        "{ 1 \"a\" 2 \"b\" } foreach I loop",
        "1 dup dup over over rot",
        "1 2 over over over",
        "\"a\" \"b\" \"c\" 3 collect \"-\" join",
        "late w : u w ; : w 9 ; u u",
        "late w : u w w ; 3 var w u",
        ": f : g 1 2 ; g ; f",
        "depth depth depth",
        "[ [ 1 2 ] [ 3 ] ] unbox unbox",
        "0 begin dup 3 < while 1 + repeat",
        "1 begin dup 4 < while dup 1 + repeat",
        "2 case 1 of 10 endof 2 of 20 30 endof endcase",
        "|01 02 03| open-bitstr u8 u8 u8 close-bitstr",
        "1 2 3 drop drop drop drop",
        "1 2 \"x\" +",
        "true if 1 2 3 else 4 then",
        "nil [ ] { } \"s\" |ff| 1.5",
    ]
    .iter()
    .map(|s| s.to_string())
    .collect();
    // one word that puts more on the stack than the program ever held before: a vector grown with
    // `push` (never more than two items on the stack while it is built), then unboxed
    for k in 2..6 {
        let grow: String = (0..k).map(|i| format!("{} swap push ", i)).collect();
        v.push(format!("[ ] {}unbox", grow));
        v.push(format!("7 [ ] {}unbox", grow));
        v.push(format!(": ub [ ] {}unbox ; ub", grow));
        v.push(format!("[ ] {}var gv 2 0 do gv unbox loop", grow));
    }
    for k in 0..5 {
        v.push(format!("[ {} 0 do I loop ] unbox", k));
        v.push((0..k).map(|i| format!("{} var g{}", i, i)).collect::<Vec<_>>().join(" "));
        v.push(format!(": r local n n 0 > if n 1 - r then n ; {} r", k));
    }
    v
}

fn bump_stat(stats: &Counters, k: &str) {
    let mut m = BTreeMap::new();
    m.insert(k.to_string(), 1u64);
    stats.merge(&m);
}

pub fn run(cfg: &Cfg) -> i32 {
    let rep = Reporter::new("C14");
    let mut ev = Evidence::new("C14", cfg);
    let quick = cfg.quick();
    let stats = Counters::new();
    let nprog = AtomicU64::new(0);
    let nruns = AtomicU64::new(0);
    let nsteps = AtomicU64::new(0);
    // (a) hand-written growth-path programs
    let progs = programs();
    // each of them with reverse recording off and on (the recording paths of the stack words are separate code)
    par_run(cfg.threads, progs.len() * 2, 1, |_t, pull| {
        let base = boot();
        let mut rec_base = boot();
        rec_base.set_recording_enabled(true);
        let mut local = BTreeMap::new();
        while let Some(r) = pull() {
            for j in r {
                let (i, rec) = (j / 2, j % 2 == 1);
                nprog.fetch_add(1, Ordering::Relaxed);
                match check_program(if rec { &rec_base } else { &base }, &progs[i], &rep, &mut local) {
                    Ok((a, b)) => {
                        nruns.fetch_add(a, Ordering::Relaxed);
                        nsteps.fetch_add(b, Ordering::Relaxed);
                        if rec {
                            bump(&mut local, "recording-on:programs");
                        }
                    }
                    Err(p) => rep.report_w("panic", progs[i].len() as u64, || jo(vec![("source", js(progs[i].clone())), ("recording", J::B(rec)), ("panic", js(p))])),
                }
            }
        }
        stats.merge(&local);
    });
    // (b) every program of the control-flow and repertoire grammars up to a node bound
    let gsets: Vec<(&str, Grammar, usize)> =
        vec![("control-flow-grammar", corpus::grammar_full(), if quick { 3 } else { 4 }), ("repertoire-grammar", corpus::grammar_repertoire(), if quick { 3 } else { 4 })];
    let mut corp = vec![jo(vec![("corpus", js("growth-path programs")), ("programs", ji(progs.len()))])];
    for (name, gr, maxn) in &gsets {
        let mut tasks_all: Vec<Task> = vec![];
        for s in 0..=*maxn {
            tasks_all.extend(tasks(gr, s, 2, &G::top()));
        }
        let before = nprog.load(Ordering::Relaxed);
        par_run(cfg.threads, tasks_all.len(), 1, |_t, pull| {
            let base = boot();
            let mut local = BTreeMap::new();
            while let Some(r) = pull() {
                for ti in r {
                    run_task(gr, &tasks_all[ti], &mut |prog, _| {
                        let src = source(prog);
                        nprog.fetch_add(1, Ordering::Relaxed);
                        match check_program(&base, &src, &rep, &mut local) {
                            Ok((a, b)) => {
                                nruns.fetch_add(a, Ordering::Relaxed);
                                nsteps.fetch_add(b, Ordering::Relaxed);
                            }
                            Err(p) => rep.report_w("panic", src.len() as u64, || jo(vec![("source", js(src.clone())), ("panic", js(p))])),
                        }
                    });
                }
            }
            stats.merge(&local);
        });
        corp.push(jo(vec![("corpus", js(*name)), ("max_nodes", ji(*maxn)), ("programs", ji(nprog.load(Ordering::Relaxed) - before))]));
    }
    // (c) limits changed between evaluations: every sequence of 3 (program, limit) steps
    let seq_progs = ["1 2 3", "5 0 do I loop", "9 var q q", "[ 1 2 ] unbox +", "drop drop", ": z 1 ; z"];
    #[derive(Clone, Copy, Debug)]
    enum L {
        InsnZero,
        InsnExact,
        InsnExactPlus,
        StackOne,
        StackExact,
        HeapNow,
        NoLimit,
    }
    let ls = [L::InsnZero, L::InsnExact, L::InsnExactPlus, L::StackOne, L::StackExact, L::HeapNow, L::NoLimit];
    let choices: Vec<(usize, usize)> = (0..seq_progs.len()).flat_map(|p| (0..ls.len()).map(move |l| (p, l))).collect();
    let nseq = AtomicU64::new(0);
    par_run(cfg.threads, choices.len() * choices.len(), 8, |_t, pull| {
        let base = boot();
        while let Some(r) = pull() {
            for ij in r {
                let (c1, c2) = (choices[ij / choices.len()], choices[ij % choices.len()]);
                for c3 in &choices {
                    let seq = [c1, c2, *c3];
                    nseq.fetch_add(1, Ordering::Relaxed);
                    let mut xs = base.clone(); // under the chosen limits
                    let mut un = base.clone(); // the same sources without any limit
                    let mut all_sufficient = true;
                    let mut desc = vec![];
                    for (pi, li) in seq {
                        let src = seq_progs[pi];
                        // what this evaluation needs from the current state
                        let mut probe = xs.clone();
                        probe.set_insn_limit(None).unwrap();
                        probe.set_stack_limit(None).unwrap();
                        probe.set_heap_limit(None).unwrap();
                        watch::note(AsRef::<str>::as_ref(&src));
                        let _ = guarded(|| probe.eval(src));
                        let need = pt(&probe);
                        let cur = pt(&xs);
                        xs.set_insn_limit(None).unwrap();
                        xs.set_stack_limit(None).unwrap();
                        xs.set_heap_limit(None).unwrap();
                        let (lim, sufficient): (Option<Lim>, bool) = match ls[li] {
                            L::InsnZero => (Some(Lim::Insn(Some(0))), need.meter == 0),
                            L::InsnExact => (Some(Lim::Insn(Some(need.meter))), true),
                            L::InsnExactPlus => (Some(Lim::Insn(Some(need.meter + 1))), true),
                            L::StackOne => (Some(Lim::Stack(Some(cur.stack.max(1)))), false),
                            L::StackExact => (Some(Lim::Stack(Some(need.stack.max(cur.stack) + 2))), true),
                            L::HeapNow => (Some(Lim::Heap(Some(cur.heap))), need.heap <= cur.heap),
                            L::NoLimit => (None, true),
                        };
                        if let Some(l) = lim {
                            apply_limit(&mut xs, l);
                        }
                        desc.push(format!("{} under {:?}", src, ls[li]));
                        watch::note(AsRef::<str>::as_ref(&src));
                        let r = match guarded(|| xs.eval(src)) {
                            Ok(r) => r,
                            Err(pn) => {
                                rep.report_w("panic:limit-sequence", 3, || jo(vec![("sequence", js(format!("{:?}", desc))), ("panic", js(pn))]));
                                break;
                            }
                        };
                        watch::note(AsRef::<str>::as_ref(&src));
                        let _ = guarded(|| un.eval(src));
                        let after = pt(&xs);
                        let bad = match lim {
                            Some(Lim::Insn(Some(n))) => after.meter > n,
                            Some(Lim::Stack(Some(n))) => after.stack > n,
                            Some(Lim::Heap(Some(n))) => after.heap > n,
                            _ => false,
                        };
                        if bad {
                            let d = desc.clone();
                            rep.report_w("sequence:bound-exceeded", 3, || jo(vec![("kind", js("limit-sequence")), ("sequence", js(format!("{:?}", d))), ("after", js(format!("{:?}", after)))]));
                        }
                        if !sufficient {
                            all_sufficient = false;
                        } else if all_sufficient {
                            let _ = r;
                        }
                        if !all_sufficient {
                            // from here on the two interpreters may legitimately differ: resynchronise
                            un = xs.clone();
                            un.set_insn_limit(None).unwrap();
                            un.set_stack_limit(None).unwrap();
                            un.set_heap_limit(None).unwrap();
                            all_sufficient = true;
                        } else {
                            let (a, b) = (xs.verif_dump_light(), un.verif_dump_light());
                            if let Some(d) = first_diff(&a, &b, &["meter", "limits", "ctx", "nested", "ip", "running"]) {
                                let dd = desc.clone();
                                rep.report_w("sequence:sufficient-limits-change-the-outcome", 3, || jo(vec![("kind", js("limit-sequence")), ("sequence", js(format!("{:?}", dd))), ("difference_limited_vs_unlimited", js(d.clone()))]));
                                un = xs.clone();
                            }
                        }
                    }
                    // all limits lifted: the interpreter works
                    xs.set_insn_limit(None).unwrap();
                    xs.set_stack_limit(None).unwrap();
                    xs.set_heap_limit(None).unwrap();
                    let before = stack_of(&xs);
                    let r = guarded(|| xs.eval("1 2 + 8 var zq zq"));
                    let mut want = before;
                    want.push("i:3".into());
                    want.push("i:8".into());
                    if !matches!(r, Ok(Ok(()))) || stack_of(&xs) != want {
                        rep.report_w("sequence:not-recoverable", 3, || jo(vec![("kind", js("limit-sequence")), ("sequence", js(format!("{:?}", desc))), ("probe_result", js(format!("{:?} {:?}", r, stack_of(&xs))))]));
                    }
                }
            }
        }
    });
    corp.push(jo(vec![("corpus", js("limit sequences of 3 evaluations")), ("sequences", ji(nseq.load(Ordering::Relaxed)))]));
    nruns.fetch_add(nseq.load(Ordering::Relaxed) * 3, Ordering::Relaxed);

    // (d) limits below what is already in use, and peaks inside meta blocks: the stack holds k items
    //     when the limit is set; a meta block needs (k + peak of its body) cells at compile time
    {
        let bodies = ["10 20 30 drop drop drop", "1 2 3", "[ 1 2 3 ] unbox + +", "4 0 do I loop drop drop drop drop", "7"];
        let base = boot();
        let h0 = pt(&base).heap;
        let mut n = 0u64;
        for k in [0usize, 1, 3, 5] {
            let mut start = base.clone();
            for i in 0..k {
                start.eval(&format!("{}", 100 + i)).unwrap();
            }
            for body in bodies {
                // peak of the body measured by stepping it as ordinary code on an empty stack
                let mut v = vec![];
                let u = stepped(&base, body, None, &mut v).unwrap();
                let peak = u.trace.iter().map(|p| p.stack).max().unwrap();
                for src in [format!("#( {} #)", body), body.to_string()] {
                    let need = k + peak;
                    for s_lim in 0..=need + 2 {
                        for drive in 0..2 {
                            let mut xs = start.clone();
                            xs.set_stack_limit(Some(s_lim)).unwrap();
                            n += 1;
                            watch::note(AsRef::<str>::as_ref(&src));
                            let r = guarded(|| if drive == 0 { xs.eval(&src) } else { xs.compile(&src).and_then(|_| xs.run()) });
                            let r = match r {
                                Ok(r) => r,
                                Err(pn) => {
                                    rep.report_w("panic:stack-limit-below-usage", src.len() as u64, || jo(vec![("source", js(src.clone())), ("panic", js(pn))]));
                                    continue;
                                }
                            };
                            let after = pt(&xs);
                            let lim = Lim::Stack(Some(s_lim));
                            let cx = Ctx { rep: &rep, src: &src, recording: false };
                            if after.stack > s_lim.max(k) {
                                cx.report("stack-exceeds-limit", lim, format!("{} items were on the stack when the limit was set; afterwards it holds {}", k, after.stack));
                            }
                            if s_lim < need && r.is_ok() {
                                cx.report("stack-limit:not-enforced", lim, format!("{} items were on the stack when the limit was set and the source needs {} more at its deepest point, yet it ran to the end ({})", k, peak, if drive == 0 { "eval" } else { "compile+run" }));
                            }
                            if s_lim >= need + 2 && r.is_err() {
                                cx.report("stack-limit:spurious-refusal", lim, format!("{} items + a peak of {}: {:?}", k, peak, r));
                            }
                        }
                    }
                }
            }
        }
        // heap limits below the cells already in use: every allocation is refused, nothing else is
        for h in [0usize, 1, h0 - 1, h0] {
            for src in ["1 var hv", "5 let hl", ": hf 1 ; hf", "1 2 +"] {
                let mut xs = base.clone();
                xs.set_heap_limit(Some(h)).unwrap();
                n += 1;
                watch::note(AsRef::<str>::as_ref(&src));
                let r = guarded(|| xs.eval(src)).unwrap_or(Err(Xerr::InternalError));
                let allocates = src.contains("var") || src.contains("let");
                let cx = Ctx { rep: &rep, src, recording: false };
                if allocates && r.is_ok() {
                    cx.report("heap-limit:not-enforced", Lim::Heap(Some(h)), format!("the heap already holds {} cells, the limit is {}, and `{}` still allocated", h0, h, src));
                }
                if !allocates && r.is_err() {
                    cx.report("heap-limit:spurious-refusal", Lim::Heap(Some(h)), format!("`{}` allocates nothing but failed: {:?}", src, r));
                }
                if pt(&xs).heap > h0.max(h) {
                    cx.report("heap-exceeds-limit", Lim::Heap(Some(h)), format!("heap grew to {}", pt(&xs).heap));
                }
            }
        }
        corp.push(jo(vec![("corpus", js("limits below current usage / meta-block peaks")), ("runs", ji(n))]));
        nruns.fetch_add(n, Ordering::Relaxed);
    }
    // (e) the instruction budget is spent whatever becomes of the source: with a limit N set once,
    //     every sequence of 4 sources prints at most N markers in total (a print costs an instruction)
    {
        let srcs = ["#( \"a\" print \"a\" print #) oops", "\"a\" print", "#( \"a\" print #)", "\"a\" print 1 0 /", ": m \"a\" print ; m m"];
        let base = boot();
        let mut n = 0u64;
        let ns = srcs.len();
        for limit in 0..=9usize {
            for code in 0..ns.pow(4) {
                let seq: Vec<usize> = (0..4).map(|i| (code / ns.pow(i)) % ns).collect();
                for drive in 0..4 {
                    let mut xs = base.clone();
                    if drive == 3 {
                        xs.set_recording_enabled(true);
                    }
                    xs.set_insn_limit(Some(limit)).unwrap();
                    let mut out = String::new();
                    for si in &seq {
                        let _ = guarded(|| if drive == 0 { xs.eval(srcs[*si]) } else { xs.compile(srcs[*si]).and_then(|_| xs.run()) });
                        out.push_str(&xs.read_stdout().unwrap_or_default());
                        if drive == 3 {
                            // stepping back and running again re-executes instructions: they count too
                            for _ in 0..3 {
                                let _ = guarded(|| xs.rnext());
                            }
                            let _ = guarded(|| xs.run());
                            out.push_str(&xs.read_stdout().unwrap_or_default());
                        }
                        if drive == 2 {
                            // a host adjusting the OTHER limits between sources does not refill the instruction budget
                            let _ = xs.set_stack_limit(Some(1000));
                            let _ = xs.set_heap_limit(None);
                        }
                    }
                    n += 1;
                    let printed = out.matches('a').count();
                    if printed > limit {
                        let d: Vec<String> = seq.iter().map(|i| srcs[*i].to_string()).collect();
                        rep.report_w("insn-limit:budget-refunded", (limit * 10 + d.join(" ").len()) as u64, || {
                            jo(vec![
                                ("kind", js("limit-sequence")),
                                ("insn_limit_set_once", ji(limit)),
                                ("sources", J::A(d.iter().map(|s| js(s.clone())).collect())),
                                ("drive", js(["eval", "compile+run", "compile+run, then set_stack_limit(Some(1000)) and set_heap_limit(None) after every source", "recording on: compile+run, then rnext() x 3 and run() after every source"][drive])),
                                ("markers_printed", ji(printed)),
                                ("what", js("every printed marker costs at least one instruction, so more markers than the limit were printed")),
                            ])
                        });
                    }
                }
            }
        }
        corp.push(jo(vec![("corpus", js("instruction budget over sequences of 4 sources")), ("runs", ji(n))]));
        nruns.fetch_add(n, Ordering::Relaxed);
    }

    // (f) definitions made by the host (plugin loaders, embedders) under a heap limit: every
    //     headroom 0..=6 cells x every host operation; whatever the outcome, every variable name of
    //     the dictionary refers to a cell that exists and no two names made in this step share one;
    //     after the limit is lifted scripts define variables as usual and a name whose definition
    //     was refused is unknown
    {
        let parse_vars = |xs: &Xstate| -> (usize, Vec<(String, usize)>) {
            let d = xs.verif_dump();
            let heap_len: usize = dump_get(&d, "heap_len").parse().unwrap_or(0);
            let mut v = vec![];
            for part in dump_get(&d, "dict").split(' ') {
                if let Some((name, rest)) = part.rsplit_once(":var@") {
                    if let Ok(i) = rest.parse::<usize>() {
                        v.push((name.to_string(), i));
                    }
                }
            }
            (heap_len, v)
        };
        let host_ops: [(&str, fn(&mut Xstate) -> Xresult); 4] = [
            ("defvar(\"hv\", 1)", |xs| xs.defvar("hv".into(), Cell::Int(1)).map(|_| ())),
            ("defvar_anonymous(1)", |xs| xs.defvar_anonymous(Cell::Int(1)).map(|_| ())),
            ("d2_plugin::load", |xs| xeh::d2_plugin::load(xs)),
            ("defvar(\"hv\", 1); defvar(\"hw\", 2)", |xs| {
                xs.defvar("hv".into(), Cell::Int(1))?;
                xs.defvar("hw".into(), Cell::Int(2)).map(|_| ())
            }),
        ];
        let base = boot();
        let mut n = 0u64;
        for headroom in 0..=6usize {
            for (oname, op) in host_ops.iter() {
                let mut xs = base.clone();
                let (h0, vars0) = parse_vars(&xs);
                xs.set_heap_limit(Some(h0 + headroom)).unwrap();
                let words0: Vec<String> = xs.word_list().iter().map(|s| s.to_string()).collect();
                let r = guarded(|| op(&mut xs));
                n += 1;
                let mut problem: Option<String> = None;
                let (h1, vars1) = parse_vars(&xs);
                if h1 > h0 + headroom {
                    problem = Some(format!("the heap holds {} cells under limit {}", h1, h0 + headroom));
                }
                if let Some((nm, i)) = vars1.iter().find(|(_, i)| *i >= h1) {
                    problem = Some(format!("variable `{}` refers to cell {} but the heap has {} cells", nm, i, h1));
                }
                let new: Vec<&(String, usize)> = vars1.iter().filter(|v| !vars0.contains(v)).collect();
                for (a, x) in new.iter().enumerate() {
                    if new[..a].iter().any(|y| y.1 == x.1 && y.0 != x.0) {
                        problem = Some(format!("two new variables share cell {}", x.1));
                    }
                }
                // lift the limit: scripts work, refused names are unknown
                let refused = matches!(r, Ok(Err(_)));
                bump_stat(&stats, if refused { "host-heap:refused" } else { "host-heap:accepted" });
                xs.set_heap_limit(None).unwrap();
                let rr = guarded(|| xs.eval("7 var seven-c14 seven-c14"));
                if !matches!(rr, Ok(Ok(()))) || xs.get_data(0).map(render) != Some("i:7".to_string()) {
                    problem = Some(format!("after lifting the limit `7 var seven-c14 seven-c14` gives {:?} {:?}", rr.map(|r| res_kind(&r)), xs.get_data(0).map(render)));
                }
                let words1: Vec<String> = xs.word_list().iter().map(|s| s.to_string()).collect();
                for w in words1.iter().filter(|w| !words0.contains(w) && w.as_str() != "seven-c14") {
                    let mut y = xs.clone();
                    let before = y.data_depth();
                    let r2 = guarded(|| y.eval(w));
                    if let (Ok(Ok(())), Some(c)) = (&r2, y.get_data(0)) {
                        if y.data_depth() == before + 1 && render(c) == "i:7" {
                            problem = Some(format!("`{}`, defined by the host operation, now reads the script's new variable (7)", w));
                        }
                    }
                }
                if let Some(pb) = problem {
                    rep.report_w("host-definition-under-heap-limit", (headroom * 100 + oname.len()) as u64, || {
                        jo(vec![("kind", js("host-definition")), ("heap_limit", js(format!("cells in use + {}", headroom))), ("host_operation", js(*oname)), ("result", js(format!("{:?}", r.as_ref().map(|r| res_kind(r))))), ("problem", js(pb.clone()))])
                    });
                }
            }
        }
        corp.push(jo(vec![("corpus", js("host definitions under a heap limit")), ("runs", ji(n))]));
        nruns.fetch_add(n, Ordering::Relaxed);
    }

    for need in ["insn:refused", "insn:resumed", "stack:refused", "heap:refused", "insn:sufficient", "host-heap:refused", "host-heap:accepted"] {
        if stats.get(need) == 0 && !rep.has_unknown() {
            vacuous(&format!("vacuous: no case of class {}", need));
        }
    }
    ev.states = nruns.load(Ordering::Relaxed);
    ev.transitions = nsteps.load(Ordering::Relaxed);
    ev.traces = nruns.load(Ordering::Relaxed);
    ev.evaluations = nruns.load(Ordering::Relaxed);
    ev.nontrivial = stats.get("insn:refused") + stats.get("stack:refused") + stats.get("heap:refused");
    ev.rule = format!(
        "{} growth-path programs (pushes, unbox, collect, loops, recursion, meta blocks, var/let chains, foreach, late binding) and every program of the control-flow and repertoire grammars up to {} nodes; per program every instruction limit 0..=needed+1, every stack limit 0..=deepest+2, every heap limit h0..=largest+1, stepped with a per-step monitor, plus the same limits under a single eval; states = limited runs, transitions = monitored steps; non-trivial = runs in which a limit actually refused an operation",
        progs.len(), gsets[0].2
    );
    ev.add("corpora", J::A(corp));
    ev.add("case_classes", stats.json());
    ev.sample(jo(vec![("program", js(progs[6].clone())), ("limits", js("Insn 0..=needed+1, Stack 0..=deepest+2, Heap h0..=largest+1"))]));
    ev.sample(jo(vec![("program", js(progs[11].clone()))]));
    ev.assumptions = vec![
        "a stack limit between the deepest observed depth and that depth + 1 may or may not refuse (intra-instruction peaks); outside that band the verdict is exact".into(),
        "how instructions are counted is not assumed: the needed count is measured by the unconstrained run of the same drive mode".into(),
    ];
    let _ = Ordering::Relaxed;
    conclude(&ev, &rep)
}
