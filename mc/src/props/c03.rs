// C03 — a cloned interpreter is an independent snapshot; re-running it is deterministic.
// Stateless exhaustive search over histories on up to three copies (original A, clone B,
// clone-of-clone / sibling C): {eval source on X, clone X->Y, compile+step on X, reverse step
// on X}. Every history is rebuilt by replay from boot (cloning the harness state would change
// the sharing the property is about). After every operation on X:
//   (1) isolation: the complete dump, the captured output and the host-object probe of every
//       OTHER copy are unchanged;
//   (2) determinism: X's complete dump equals that of a freshly booted interpreter fed X's
//       lineage without any clone (different Rc sharing, same behaviour), result kinds equal.
//   (3) boot() twice and clone-of-boot render the same state.
use crate::common::*;
use std::sync::atomic::{AtomicU64, Ordering};
use xeh::prelude::*;

#[derive(Clone, Debug, PartialEq)]
enum Op {
    Eval(usize, usize),    // copy, source index
    Clone(usize, usize),   // from, to
    Step(usize, usize),    // copy, source index: compile + next x2 (recording on)
    Rnext(usize),
    Run(usize),
}

const SOURCES: [&str; 35] = [
    "|12 34 56| var b",
    "b open-bitstr 8 bits drop 4 bits",
    "|ff| b bitstr-append ! b",
    "b bitstr-not ! b",
    "b |0f| bitstr-and ! b",
    "[ 1 2 ] var v",
    "3 v push ! v",
    "{ 1 \"k\" } var m",
    "m 2 \"j\" insert ! m",
    "m \"k\" remove ! m",
    ": w 1 ;",
    ": w 2 ; w",
    "late q : u q ;",
    ": q 5 ; u",
    "5 var g",
    "g 1 + ! g g",
    "0x33 u8! emit output",
    "\"x\" print",
    "u8 u8 offset",
    "3 bits 5 bits bitstr-append",
    "3 2 d2-resize 7 d2-color! 1 1 d2-data!",
    "d2-width d2-height 1 1 d2-data",
    // a run-time built bit-string slice that only the data stack refers to (uniquely owned in a
    // lone interpreter, shared right after a clone), consumed by mutators, base made visible
    "[ 1 2 3 ] >bitstr open-bitstr 1 bytes drop 1 bytes close-bitstr",
    "|FF| swap bitstr-append",
    "bitstr-not",
    "dup open-bitstr offset remain close-bitstr",
    "[ 1 2 3 ] >bitstr open-bitstr 1 bytes close-bitstr",
    "w",
    // an input opened and left open (the stash of suspended inputs is part of the copy), closed later
    "|12 34 56| open-bitstr 8 bits drop",
    "close-bitstr offset remain",
    // a vector read with `get`
    "[ 7 8 ] 0 get",
    // tagged values held by the stack only (uniquely owned in a lone interpreter, shared after a clone),
    // then consumed by words that might work in place when they are the only owner
    "5 1 \"k\" insert-tag",
    "\"k\" remove-tag dup tags",
    "[ 1 2 ] 7 \"t\" insert-tag",
    "3 swap push dup tags",
];
const D2_PROBE: &str = "d2-width d2-height 1 1 d2-data";
const COPIES: usize = 3;

struct World {
    copies: Vec<Option<Xstate>>,
    lineage: Vec<Vec<Op>>,      // operations that formed each copy (clone points erased)
    results: Vec<Vec<String>>,  // result kind of each lineage op
}

thread_local! {
    static RECORDING: std::cell::Cell<bool> = std::cell::Cell::new(true);
}

fn fresh() -> Xstate {
    let mut xs = boot();
    xeh::d2_plugin::load(&mut xs).unwrap();
    xs.set_binary_input(Xbitstr::from(vec![0xA1u8, 0xB2, 0xC3, 0xD4])).unwrap();
    let _ = xs.intercept_output(true);
    // with recording on, the reverse log keeps references to old values (more sharing); with it
    // off, values on the stack can be uniquely owned: both configurations are explored
    xs.set_recording_enabled(RECORDING.with(|r| r.get()));
    let _ = xs.set_insn_limit(Some(10_000));
    xs
}

fn apply_one(xs: &mut Xstate, op: &Op) -> Result<String, String> {
    let r = guarded(|| match op {
        Op::Eval(_, s) => xs.eval(SOURCES[*s]),
        Op::Step(_, s) => {
            xs.compile(SOURCES[*s])?;
            xs.next()?;
            xs.next()
        }
        Op::Rnext(_) => xs.rnext(),
        Op::Run(_) => xs.run(),
        Op::Clone(..) => OK,
    })?;
    Ok(res_kind(&r))
}

fn target(op: &Op) -> usize {
    match op {
        Op::Eval(x, _) | Op::Step(x, _) | Op::Rnext(x) | Op::Run(x) => *x,
        Op::Clone(_, y) => *y,
    }
}

impl World {
    fn new() -> World {
        let mut w = World { copies: (0..COPIES).map(|_| None).collect(), lineage: vec![vec![]; COPIES], results: vec![vec![]; COPIES] };
        w.copies[0] = Some(fresh());
        w
    }
    /// Ok(false) = not applicable
    fn apply(&mut self, op: &Op) -> Result<bool, String> {
        match op {
            Op::Clone(x, y) => {
                if self.copies[*x].is_none() || self.copies[*y].is_some() {
                    return Ok(false);
                }
                let c = self.copies[*x].as_ref().unwrap().clone();
                self.copies[*y] = Some(c);
                self.lineage[*y] = self.lineage[*x].clone();
                self.results[*y] = self.results[*x].clone();
                Ok(true)
            }
            _ => {
                let x = target(op);
                let Some(xs) = self.copies[x].as_mut() else { return Ok(false) };
                let k = apply_one(xs, op)?;
                self.lineage[x].push(op.clone());
                self.results[x].push(k);
                Ok(true)
            }
        }
    }
}

struct Obs {
    dump: Vec<(&'static str, String)>,
    d2: String,
}
fn observe(xs: &Xstate) -> Obs {
    let dump = xs.verif_dump();
    // the host object is invisible in the dump: probe it on a throw-away clone
    let mut c = xs.clone();
    let r = guarded(|| c.eval(D2_PROBE));
    let d2 = format!("{:?} {:?}", r.map(|r| res_kind(&r)), stack_of(&c).iter().rev().take(3).collect::<Vec<_>>());
    Obs { dump, d2 }
}

/// histories that use the 2D canvas (a host object, shared by clone: the open finding) — any
/// difference they show is filed under that finding's key, whatever section it appears in
fn uses_host_object(ops: &[Op], hist: &[usize]) -> bool {
    hist.iter().any(|h| match &ops[*h] {
        Op::Eval(_, s) | Op::Step(_, s) => SOURCES[*s].contains("d2-"),
        _ => false,
    })
}

fn op_text(op: &Op) -> String {
    let n = ["A", "B", "C"];
    match op {
        Op::Eval(x, s) => format!("eval {}: {}", n[*x], SOURCES[*s]),
        Op::Clone(x, y) => format!("clone {} -> {}", n[*x], n[*y]),
        Op::Step(x, s) => format!("compile+next+next {}: {}", n[*x], SOURCES[*s]),
        Op::Rnext(x) => format!("rnext {}", n[*x]),
        Op::Run(x) => format!("run {}", n[*x]),
    }
}

fn alphabet(quick: bool) -> Vec<Op> {
    let mut ops = vec![Op::Clone(0, 1), Op::Clone(1, 2), Op::Clone(0, 2)];
    let srcs: Vec<usize> = if quick { vec![0, 2, 3, 5, 6, 7, 8, 10, 11, 12, 13, 14, 15, 16, 18, 20, 22, 23, 24, 25, 26, 27, 28, 29, 30, 31, 32, 33, 34] } else { (0..SOURCES.len()).collect() };
    for x in 0..2 {
        for s in &srcs {
            ops.push(Op::Eval(x, *s));
        }
        for s in [15usize, 2, 6] {
            ops.push(Op::Step(x, s));
        }
        ops.push(Op::Rnext(x));
        ops.push(Op::Run(x));
    }
    // the third copy only gets a few mutators (clone-of-clone / sibling independence)
    for s in [2usize, 6, 15, 20] {
        ops.push(Op::Eval(2, s));
    }
    ops
}

fn replay(ops: &[Op], hist: &[usize]) -> Option<World> {
    let mut w = World::new();
    for h in hist {
        match w.apply(&ops[*h]) {
            Ok(true) => {}
            _ => return None,
        }
    }
    Some(w)
}

struct Stats {
    nodes: u64,
    applied: u64,
    clones_alive_checks: u64,
}

fn explore(ops: &[Op], hist: &mut Vec<usize>, depth: usize, rep: &Reporter, st: &mut Stats, only: Option<usize>, allowed: &[bool]) {
    if hist.len() == depth {
        st.nodes += 1;
        return;
    }
    for (k, op) in ops.iter().enumerate() {
        if let Some(o) = only {
            if o != k {
                continue;
            }
        }
        if !allowed[k] {
            continue;
        }
        let Some(mut w) = replay(ops, hist) else { continue };
        // a history is only interesting once a second copy exists or is being created
        let before: Vec<Option<Obs>> = w.copies.iter().map(|c| c.as_ref().map(observe)).collect();
        let applied = match w.apply(op) {
            Ok(a) => a,
            Err(p) => {
                hist.push(k);
                rep.report_w("panic", hist.len() as u64, || jo(vec![("history", J::A(hist.iter().map(|h| js(op_text(&ops[*h]))).collect())), ("panic", js(p))]));
                hist.pop();
                continue;
            }
        };
        if !applied {
            continue;
        }
        st.applied += 1;
        hist.push(k);
        let x = target(op);
        let hist_txt = || J::A(hist.iter().map(|h| js(op_text(&ops[*h]))).collect());
        let mut ok = true;
        // (1) isolation of every other live copy
        if !matches!(op, Op::Clone(..)) {
            for y in 0..COPIES {
                if y == x {
                    continue;
                }
                if let (Some(b), Some(c)) = (&before[y], &w.copies[y]) {
                    st.clones_alive_checks += 1;
                    let a = observe(c);
                    if let Some(d) = first_diff(&b.dump, &a.dump, &[]) {
                        let sect = d.split(':').next().unwrap_or("?").to_string();
                        let key = if uses_host_object(ops, hist) { "host-object:d2-canvas-shared".to_string() } else { format!("isolation:{}", sect) };
                        rep.report_w(&key, hist.len() as u64, || {
                            jo(vec![("kind", js("clone-isolation")), ("recording", J::B(RECORDING.with(|r| r.get()))), ("history", hist_txt()), ("copy_that_changed", js(["A", "B", "C"][y])), ("difference", js(d.clone()))])
                        });
                        ok = false;
                    } else if b.d2 != a.d2 {
                        rep.report_w("host-object:d2-canvas-shared", hist.len() as u64, || {
                            jo(vec![
                                ("kind", js("clone-isolation")),
                                ("history", hist_txt()),
                                ("copy_that_changed", js(["A", "B", "C"][y])),
                                ("probe", js(D2_PROBE)),
                                ("before", js(b.d2.clone())),
                                ("after", js(a.d2.clone())),
                            ])
                        });
                        ok = false;
                    }
                }
            }
        } else {
            // a fresh clone renders exactly like its origin
            if let Op::Clone(from, to) = op {
                let (a, b) = (observe(w.copies[*from].as_ref().unwrap()), observe(w.copies[*to].as_ref().unwrap()));
                if let Some(d) = first_diff(&a.dump, &b.dump, &[]) {
                    rep.report_w("clone-differs-from-origin", hist.len() as u64, || jo(vec![("history", hist_txt()), ("difference", js(d.clone()))]));
                    ok = false;
                }
            }
        }
        // (2) determinism: X equals a fresh replay of its lineage without clones
        {
            let mut f = fresh();
            let mut kinds = vec![];
            let mut panicked = false;
            for lop in &w.lineage[x] {
                match apply_one(&mut f, lop) {
                    Ok(k) => kinds.push(k),
                    Err(_) => {
                        panicked = true;
                        break;
                    }
                }
            }
            if !panicked {
                let (a, b) = (observe(w.copies[x].as_ref().unwrap()), observe(&f));
                if kinds != w.results[x] {
                    let key = if uses_host_object(ops, hist) { "host-object:d2-canvas-shared" } else { "replay-differs:results" };
                    rep.report_w(key, hist.len() as u64, || {
                        jo(vec![("kind", js("clone-determinism")), ("history", hist_txt()), ("copy", js(["A", "B", "C"][x])), ("on_the_copy", js(format!("{:?}", w.results[x]))), ("fresh_replay", js(format!("{:?}", kinds)))])
                    });
                    ok = false;
                } else if let Some(d) = first_diff(&a.dump, &b.dump, &[]) {
                    let sect = d.split(':').next().unwrap_or("?").to_string();
                    let key = if uses_host_object(ops, hist) { "host-object:d2-canvas-shared".to_string() } else { format!("replay-differs:{}", sect) };
                    rep.report_w(&key, hist.len() as u64, || {
                        jo(vec![("kind", js("clone-determinism")), ("recording", J::B(RECORDING.with(|r| r.get()))), ("history", hist_txt()), ("copy", js(["A", "B", "C"][x])), ("difference_copy_vs_fresh_replay", js(d.clone()))])
                    });
                    ok = false;
                } else if a.d2 != b.d2 {
                    rep.report_w("host-object:d2-canvas-shared", hist.len() as u64, || {
                        jo(vec![("kind", js("clone-determinism")), ("history", hist_txt()), ("copy", js(["A", "B", "C"][x])), ("probe", js(D2_PROBE)), ("on_the_copy", js(a.d2.clone())), ("fresh_replay", js(b.d2.clone()))])
                    });
                    ok = false;
                }
            }
        }
        if ok || true {
            // keep exploring below a violation too: different defects may hide deeper
            explore(ops, hist, depth, rep, st, None, allowed);
        }
        hist.pop();
    }
}


// ---------- observer leg ----------
// The dump is read through a hook; users see a copy through its public observers. This leg
// explores short histories over {eval on A/B, clone, drop a copy} with the observers of the
// public API as the oracle — captured stdout, pretty_error, last_err_location,
// location_from_current_ip — on interpreters configured with output interception OFF (so `emit`
// takes the path to the process's stdout) as well as on. Sources differ only in where their line
// breaks are (same length, same tokens): a location computed from anything but the copy's own
// text shows. Copies are dropped and re-created all the time, so state keyed by an address that
// a dead copy used is reachable too. fd 1 is pointed at /dev/null while the leg runs.
mod observers {
    use super::*;

    extern "C" {
        fn dup(fd: i32) -> i32;
        fn dup2(a: i32, b: i32) -> i32;
        fn close(fd: i32) -> i32;
    }
    pub struct Quiet(i32);
    impl Quiet {
        pub fn new() -> Quiet {
            use std::io::Write;
            use std::os::fd::AsRawFd;
            let _ = std::io::stdout().flush();
            let saved = unsafe { dup(1) };
            if let Ok(f) = std::fs::OpenOptions::new().write(true).open("/dev/null") {
                unsafe { dup2(f.as_raw_fd(), 1) };
            }
            Quiet(saved)
        }
    }
    impl Drop for Quiet {
        fn drop(&mut self) {
            use std::io::Write;
            let _ = std::io::stdout().flush();
            if self.0 >= 0 {
                unsafe {
                    dup2(self.0, 1);
                    close(self.0);
                }
            }
        }
    }

    #[derive(Clone, Debug, PartialEq)]
    pub enum O {
        Eval(usize, usize),
        Clone,
        DropB,
        /// what the REPL's trial mode does per key stroke: a throw-away copy evaluates the text
        Trial(usize),
    }
    pub fn sources() -> Vec<String> {
        let mut v = vec!["10 u8! emit".to_string(), "\"x\" print".to_string(), "5 var g".to_string()];
        // a conversion that fails after some good elements, and one that succeeds
        v[2] = "5 var g [ 7 \"ab\" 9 ] >bitstr".to_string();
        v[1] = "\"x\" print [ 1 2 300 ] >bitstr".to_string();
        // the same failing token list with its line breaks in different places
        let toks = ["1", "2", "drop", "drop", "drop", "7"];
        for mask in [0b00000u32, 0b00010, 0b01001, 0b10100, 0b11111] {
            let mut s = String::new();
            for (i, t) in toks.iter().enumerate() {
                s.push_str(t);
                if i + 1 < toks.len() {
                    s.push(if mask >> i & 1 == 1 { '\n' } else { ' ' });
                }
            }
            v.push(s);
        }
        v.push("[ [ [ [ [ [ [ [ 1 ] ] ] ] ] ] ] ] error".to_string());
        v.push("[ [ 2 ] ] error".to_string());
        v.push(": e1 0\nget ; [ ] e1".to_string());
        v.push(": e1 0 get ;\n[ ] e1".to_string());
        // all location sources have the same length
        for s in v.iter_mut().skip(3) {
            while s.len() < 300 {
                s.push(' ');
            }
        }
        v
    }
    fn fresh(output_on: bool) -> Xstate {
        let mut xs = boot();
        xs.intercept_stdout(true);
        let _ = xs.intercept_output(output_on);
        let _ = xs.set_insn_limit(Some(10_000));
        xs
    }
    pub fn observe(xs: &Xstate) -> Vec<(&'static str, String)> {
        let mut c = xs.clone();
        vec![
            ("read_stdout", format!("{:?}", c.read_stdout())),
            ("pretty_error", format!("{:?}", xs.pretty_error())),
            ("last_err_location", format!("{:?}", xs.last_err_location())),
            ("location_from_current_ip", format!("{:?}", xs.location_from_current_ip())),
            ("data_stack", format!("{:?}", stack_of(xs))),
        ]
    }
    pub fn op_text(o: &O, srcs: &[String]) -> String {
        match o {
            O::Eval(x, s) => format!("eval {}: {:?}{}", ["A", "B"][*x], srcs[*s].trim_end(), if srcs[*s].ends_with(' ') { " (padded with blanks to 300 bytes)" } else { "" }),
            O::Clone => "clone A -> B".into(),
            O::DropB => "drop B".into(),
            O::Trial(s) => format!("clone A -> T, eval T: {:?}, drop T", srcs[*s].trim_end()),
        }
    }
    /// runs the history; returns the observations of both copies after every operation, or None
    /// when an operation is not applicable
    fn run_hist(ops: &[O], hist: &[usize], srcs: &[String], output_on: bool, rep: &Reporter, checks: &mut u64) -> Option<()> {
        let mut a = fresh(output_on);
        let mut b: Option<Xstate> = None;
        let mut lin: [Vec<usize>; 2] = [vec![], vec![]];
        for (step, h) in hist.iter().enumerate() {
            let before = [Some(observe(&a)), b.as_ref().map(observe)];
            let touched: usize;
            match &ops[*h] {
                O::Clone => {
                    if b.is_some() {
                        return None;
                    }
                    b = Some(a.clone());
                    lin[1] = lin[0].clone();
                    touched = 1;
                }
                O::DropB => {
                    if b.is_none() {
                        return None;
                    }
                    b = None;
                    lin[1].clear();
                    touched = 1;
                }
                O::Eval(x, s) => {
                    let xs = if *x == 0 { &mut a } else { b.as_mut()? };
                    let _ = guarded(|| xs.eval(&srcs[*s]));
                    lin[*x].push(*s);
                    touched = *x;
                }
                O::Trial(s) => {
                    let mut t = a.clone();
                    let _ = guarded(|| t.eval(&srcs[*s]));
                    drop(t);
                    touched = 2; // neither A nor B
                }
            }
            if step + 1 < hist.len() {
                continue; // prefixes were checked as shorter histories
            }
            let hist_txt = || J::A(hist.iter().map(|h| js(op_text(&ops[*h], srcs))).collect());
            let after = [Some(observe(&a)), b.as_ref().map(observe)];
            for y in 0..2 {
                // isolation: the copy not operated on shows the same through every observer
                if y != touched {
                    if let (Some(p), Some(q)) = (&before[y], &after[y]) {
                        *checks += 1;
                        if let Some(d) = first_diff(p, q, &[]) {
                            let sect = d.split(':').next().unwrap_or("?").to_string();
                            rep.report_w(&format!("observer-isolation:{}", sect), hist.len() as u64, || {
                                jo(vec![("kind", js("clone-isolation-public-observers")), ("output_interception", J::B(output_on)), ("history", hist_txt()), ("copy_that_changed", js(["A", "B"][y])), ("difference", js(d.clone()))])
                            });
                        }
                    }
                }
                // determinism: every live copy shows what a lone interpreter fed its lineage shows
                if let Some(q) = &after[y] {
                    let mut f = fresh(output_on);
                    for s in &lin[y] {
                        let _ = guarded(|| f.eval(&srcs[*s]));
                    }
                    *checks += 1;
                    if let Some(d) = first_diff(q, &observe(&f), &[]) {
                        let sect = d.split(':').next().unwrap_or("?").to_string();
                        rep.report_w(&format!("observer-replay-differs:{}", sect), hist.len() as u64, || {
                            jo(vec![("kind", js("clone-determinism-public-observers")), ("output_interception", J::B(output_on)), ("history", hist_txt()), ("copy", js(["A", "B"][y])), ("difference_copy_vs_lone_replay", js(d.clone()))])
                        });
                    }
                }
            }
        }
        Some(())
    }
    pub fn run(depth: usize, threads: usize, rep: &Reporter) -> (u64, u64, usize) {
        let srcs = sources();
        let mut ops = vec![O::Clone, O::DropB];
        for s in 3..srcs.len() {
            ops.push(O::Trial(s));
        }
        for x in 0..2 {
            for s in 0..srcs.len() {
                ops.push(O::Eval(x, s));
            }
        }
        let _q = Quiet::new();
        // every history of length 1..=depth; the work is split by the first two operations
        fn rec(ops: &[O], hist: &mut Vec<usize>, depth: usize, srcs: &[String], output_on: bool, rep: &Reporter, nh: &mut u64, checks: &mut u64) {
            if hist.len() == depth {
                return;
            }
            for k in 0..ops.len() {
                hist.push(k);
                if run_hist(ops, hist, srcs, output_on, rep, checks).is_some() {
                    *nh += 1;
                    rec(ops, hist, depth, srcs, output_on, rep, nh, checks);
                }
                hist.pop();
            }
        }
        let n = ops.len();
        let totals = par_run(threads, 2 * n * n, 1, |_t, pull| {
            let (mut nh, mut checks) = (0u64, 0u64);
            while let Some(r) = pull() {
                for item in r {
                    let output_on = item / (n * n) == 1;
                    let (a, b) = ((item / n) % n, item % n);
                    let mut hist = vec![a];
                    if run_hist(&ops, &hist, &srcs, output_on, rep, &mut checks).is_none() {
                        continue;
                    }
                    if b == 0 {
                        nh += 1; // the one-operation history is counted once
                    }
                    if depth >= 2 {
                        hist.push(b);
                        if run_hist(&ops, &hist, &srcs, output_on, rep, &mut checks).is_some() {
                            nh += 1;
                            rec(&ops, &mut hist, depth, &srcs, output_on, rep, &mut nh, &mut checks);
                        }
                    }
                }
            }
            (nh, checks)
        });
        let nh: u64 = totals.iter().map(|t| t.0).sum();
        let checks: u64 = totals.iter().map(|t| t.1).sum();
        (nh, checks, ops.len())
    }
}

pub fn run(cfg: &Cfg) -> i32 {
    let rep = Reporter::new("C03");
    let mut ev = Evidence::new("C03", cfg);
    let quick = cfg.quick();
    let ops = alphabet(quick);
    let depth = 3;
    // thorough: the full source alphabet at the same depth, plus one operation more after the bare clone
    let deep_first = !quick;
    // (3) no hidden global state: two boots and a clone of a boot render the same
    {
        let (a, b) = (fresh(), fresh());
        let c = a.clone();
        if let Some(d) = first_diff(&a.verif_dump(), &b.verif_dump(), &[]) {
            rep.report("boot-not-deterministic", || jo(vec![("difference", js(d.clone()))]));
        }
        if let Some(d) = first_diff(&a.verif_dump(), &c.verif_dump(), &[]) {
            rep.report("clone-differs-from-origin", || jo(vec![("difference", js(d.clone()))]));
        }
    }
    // every history must contain a clone to be about C03: fix the first op to be one of the
    // clone-creating prefixes [s, clone A->B] for every source s (share first, then diverge), or clone first
    let mut prefixes: Vec<(Vec<usize>, usize)> = vec![];
    let clone_ab = ops.iter().position(|o| *o == Op::Clone(0, 1)).unwrap();
    prefixes.push((vec![clone_ab], if deep_first { depth + 1 } else { depth }));
    for (i, o) in ops.iter().enumerate() {
        if let Op::Eval(0, _) | Op::Step(0, _) = o {
            // definitions shared by both copies get the full depth (shadowing / caching across copies)
            let shared_def = matches!(o, Op::Eval(0, 10)) || (!quick && matches!(o, Op::Eval(0, 14) | Op::Eval(0, 0)));
            prefixes.push((vec![i, clone_ab], if shared_def { depth } else { depth - 1 }));
            for (j, o2) in ops.iter().enumerate() {
                if let Op::Eval(0, _) = o2 {
                    prefixes.push((vec![i, j, clone_ab], depth - 2));
                }
            }
        }
    }
    let nodes = AtomicU64::new(0);
    let applied = AtomicU64::new(0);
    let checks = AtomicU64::new(0);
    let nops = ops.len();
    let allowed_all = vec![true; nops];
    let quick_ops = alphabet(true);
    let allowed_deep: Vec<bool> = ops.iter().map(|o| quick_ops.contains(o)).collect();
    par_run(cfg.threads, prefixes.len() * nops * 2, 1, |_t, pull| {
        let mut st = Stats { nodes: 0, applied: 0, clones_alive_checks: 0 };
        while let Some(r) = pull() {
            for ti in r {
                RECORDING.with(|r| r.set(ti % 2 == 0));
                let ti = ti / 2;
                let (pi, first) = (ti / nops, ti % nops);
                let mut hist = prefixes[pi].0.clone();
                if replay(&ops, &hist).is_none() {
                    continue;
                }
                let d = hist.len() + prefixes[pi].1;
                // the one-operation-deeper search after the bare clone uses the sub-alphabet of the quick tier
                let allowed = if prefixes[pi].1 > depth { &allowed_deep } else { &allowed_all };
                explore(&ops, &mut hist, d, &rep, &mut st, Some(first), allowed);
            }
        }
        nodes.fetch_add(st.nodes, Ordering::Relaxed);
        applied.fetch_add(st.applied, Ordering::Relaxed);
        checks.fetch_add(st.clones_alive_checks, Ordering::Relaxed);
    });
    // ---------- process-level leg: /snapshot and /rollback of the real REPL
    let mut repl_runs = 0u64;
    {
        use crate::repl_leg::*;
        let setup: Vec<&str> = if quick { vec!["", "|12 34 56| var b [ 1 2 ] var v 5 var g", ": w 1 ; { 1 \"k\" } var m"] } else { vec!["", "|12 34 56| var b", "[ 1 2 ] var v", "5 var g", ": w 1 ;", "{ 1 \"k\" } var m", "late q : u q ; : q 1 ;", "|12 34 56| var b [ 1 2 ] var v 5 var g : w 1 ; { 1 \"k\" } var m"] };
        let muts: Vec<&str> = if quick {
            vec!["|ff| b bitstr-append ! b", "b bitstr-not ! b", "3 v push ! v", "g 1 + ! g", ": w 2 ;", "m 2 \"j\" insert ! m", "7 8", "3 2 d2-resize 7 d2-color! 1 1 d2-data!"]
        } else {
            vec!["|ff| b bitstr-append ! b", "b bitstr-not ! b", "3 v push ! v", "g 1 + ! g", ": w 2 ;", "m 2 \"j\" insert ! m", "m \"k\" remove ! m", "7 8", "drop", ": q 5 ;", "9 var g", "u8 u8", "3 2 d2-resize 7 d2-color! 1 1 d2-data!", "1 0 /", "foo"]
        };
        let probes = ["depth", "b", "v", "m", "g", "w", "u", "offset", "d2-width d2-height 1 1 d2-data"];
        let mut jobs: Vec<(Vec<String>, Vec<String>, bool)> = vec![];
        for g in &setup {
            for m1 in &muts {
                for m2 in &muts {
                    let mk = |with: bool| -> Vec<String> {
                        let mut v = vec!["/repl".to_string()];
                        if !g.is_empty() {
                            v.push(g.to_string());
                        }
                        if with {
                            v.push("/snapshot".into());
                            v.push(m1.to_string());
                            v.push(m2.to_string());
                            v.push("/rollback".into());
                        }
                        v.push(probe_line(""));
                        for q in probes {
                            v.push(q.to_string());
                        }
                        v
                    };
                    jobs.push((mk(true), mk(false), m1.contains("d2-") || m2.contains("d2-")));
                }
            }
        }
        let cnt = AtomicU64::new(0);
        par_run(cfg.threads, jobs.len(), 2, |_t, pull| {
            while let Some(rg) = pull() {
                for j in rg {
                    let (with, without, d2) = &jobs[j];
                    cnt.fetch_add(2, Ordering::Relaxed);
                    match (run_repl(with), run_repl(without)) {
                        (Ok(a), Ok(b)) => {
                            if a != b {
                                let key = if *d2 { "host-object:d2-canvas-shared" } else { "repl:rollback-does-not-restore-snapshot" };
                                rep.report_w(key, with.len() as u64, || {
                                    jo(vec![
                                        ("kind", js("repl-snapshot-rollback")),
                                        ("lines", J::A(with.iter().map(|l| js(l.clone())).collect())),
                                        ("output_after_marker", js(truncate(&a, 400))),
                                        ("output_without_the_snapshot_section", js(truncate(&b, 400))),
                                    ])
                                });
                            }
                        }
                        (a, b) => {
                            cleanup();
                            machinery_error(&format!("REPL leg: {:?} {:?}", a.err(), b.err()))
                        }
                    }
                }
            }
        });
        repl_runs = cnt.load(Ordering::Relaxed);
        cleanup();
    }
    ev.add("repl_process_runs", ji(repl_runs));
    // ---------- long recorded histories: a copy taken at step k of a recorded run of ~10^5 steps runs to the same
    // end as the original and rewinds through the same states (growth policies of the containers behind the
    // stacks and the reverse log differ between a grown container and its copy; behaviour must not)
    {
        let prog = "0 14000 0 do 1 + loop";
        let mut longrun = vec![];
        for k1 in [5usize, 3_000, 40_000] {
            let mut a = fresh();
            a.set_recording_enabled(true);
            let _ = a.set_insn_limit(None);
            let r = guarded(|| -> Xresult {
                a.compile(prog)?;
                for _ in 0..k1 {
                    a.next()?;
                }
                OK
            });
            if !matches!(r, Ok(Ok(()))) {
                machinery_error(&format!("C03 long-run leg: cannot step the program: {:?}", r.map(|x| x.map_err(|e| err_kind(&e)))));
            }
            let mut b = a.clone();
            let ra = guarded(|| a.run());
            let rb = guarded(|| b.run());
            let mut milestones = vec![("run to the end".to_string(), 0usize)];
            for back in [1usize, 999, 19_000, 50_000, 30_000] {
                milestones.push((format!("{} more reverse steps", back), back));
            }
            let mut total_back = 0;
            for (what, back) in milestones {
                let mut res = (String::new(), String::new());
                for _ in 0..back {
                    let (x, y) = (guarded(|| a.rnext()), guarded(|| b.rnext()));
                    res = (format!("{:?}", x.map(|r| res_kind(&r))), format!("{:?}", y.map(|r| res_kind(&r))));
                    if res.0 != res.1 || !res.0.contains("Ok") {
                        break;
                    }
                }
                total_back += back;
                let keep = ["ip", "data", "return", "loops", "special", "heap"];
                let (da, db) = (project_keep(&a.verif_dump_light(), &keep), project_keep(&b.verif_dump_light(), &keep));
                if da != db || res.0 != res.1 || (back == 0 && format!("{:?}", ra.as_ref().map(res_kind)) != format!("{:?}", rb.as_ref().map(res_kind))) {
                    let diff = da.lines().zip(db.lines()).find(|(x, y)| x != y).map(|(x, y)| format!("original `{}` copy `{}`", truncate(x, 200), truncate(y, 200))).unwrap_or_else(|| format!("results {:?}", res));
                    rep.report_w("long-history:copy-diverges", (k1 + total_back) as u64, || {
                        jo(vec![
                            ("kind", js("clone-long-history")),
                            ("calls", J::A(vec![js("set_recording_enabled(true)"), js(format!("compile {:?}", prog)), js(format!("next() x {}", k1)), js("clone -> copy"), js("run() on both"), js(format!("rnext() x {} on both", total_back))])),
                            ("at", js(what.clone())),
                            ("difference", js(diff)),
                        ])
                    });
                    break;
                }
            }
            longrun.push(jo(vec![("copy_taken_after_steps", ji(k1)), ("reverse_steps_compared", ji(total_back))]));
        }
        ev.add("long_history_leg", J::A(longrun));
    }
    // ---------- observer leg (it redirects the process's stdout while it runs)
    let (oh, ochecks, oalpha) = observers::run(if quick { 3 } else { 4 }, cfg.threads, &rep);
    ev.add("observer_leg", jo(vec![("histories", ji(oh)), ("checks", ji(ochecks)), ("alphabet", ji(oalpha)), ("depth", ji(if quick { 3 } else { 4 })), ("sources", J::A(observers::sources().iter().map(|s| js(s.clone())).collect()))]));

    ev.states = nodes.load(Ordering::Relaxed);
    ev.transitions = applied.load(Ordering::Relaxed);
    ev.traces = applied.load(Ordering::Relaxed);
    ev.evaluations = applied.load(Ordering::Relaxed);
    ev.nontrivial = checks.load(Ordering::Relaxed);
    ev.rule = format!(
        "every history = (clone A->B first: {} further operations; one source on the original before the clone: one operation fewer; two sources: two fewer) over a {}-operation alphabet (eval of {} share-then-mutate sources on A/B/C, clone B->C and A->C, compile+2 steps, rnext, run); each history rebuilt by replay; after every operation: complete dump + captured output + host-object probe of every other copy unchanged, and the operated copy equals a fresh clone-free replay of its lineage. states = complete histories, transitions = operations checked, non-trivial = isolation checks made while at least two copies were alive",
        depth, ops.len(), SOURCES.len()
    );
    ev.add("depth_after_clone_prefix", ji(depth));
    ev.add("prefixes", ji(prefixes.len()));
    ev.add("alphabet", J::A(ops.iter().map(|o| js(op_text(o))).collect()));
    ev.sample(jo(vec![("history", J::A(vec![js("eval A: |12 34 56| var b"), js("clone A -> B"), js("eval A: |ff| b bitstr-append ! b"), js("eval B: b bitstr-not ! b"), js("clone B -> C")]))]));
    ev.assumptions = vec![
        "the complete dump (all sections) plus the host-object probe is the observable state of a copy".into(),
        "excluded: random, random-bits, read-all, write-all, exec-piped, include/require".into(),
    ];
    conclude(&ev, &rep)
}
