#!/usr/bin/env python3
# regenerates /verif/MANIFEST.json from the table below
import json, subprocess

def repo_commits(prefix):
    out = subprocess.run(['git', '-C', '/repo', 'log', '--format=%h %s'], capture_output=True, text=True).stdout
    return [l.split()[0] for l in out.splitlines() if l.split(' ', 1)[1].startswith(prefix)]

CHECKS = {
 'C01': dict(
   technique='stateless exhaustive enumeration of all control-flow programs up to a node bound, each executed on the real interpreter and compared with an independent structural evaluator (reference model)',
   text='Every AST of five sub-grammars of the control-flow language (full grammar, definition bodies, construct skeletons, counted loops, definitions) up to 4-6 nodes (quick) / 5-7 nodes (thorough) is compiled and run by the real interpreter and by a big-step evaluator that never sees bytecode; result class, stack, global cells and output must agree, non-terminating programs must hit the instruction limit, after-loop index probes must fail. Complete below the bound, nothing sampled.',
   note='Trusts the structural evaluator in mc/src/cf.rs as the meaning of the source; programs above the node bound and values outside {0,1,2,3,true,false,nil} are not covered.',
   ref='DESIGN.md §4 C01'),
}

CHECKS['C04'] = dict(
   technique='stateless exhaustive DFS over bit-string operation histories (states rebuilt by replay) plus complete single-operation product sweep, against a Vec-of-bits reference model',
   text='All operation sequences of length 5 over a 78 (quick) / 152 (thorough) operation alphabet on a pool of 3 bit-strings (fresh, borrowed static, hex, builder, read, peek, seek, substr, split_at, append, insert, invert, detach, clone, drop) with every observer checked on every live value after every step; and every bit-string of length 0..=9/11 x 8 start alignments x 6 ownership recipes x 2 junk patterns x every operation with every small argument. Ownership classes reached are tabulated; a class never reached is a machinery error.',
   note='Reference model = Vec of bits; slice() may decline for unaligned values; buffers longer than a few bytes and histories longer than 5 operations are not covered.',
   ref='DESIGN.md §4 C04')
CHECKS['C09'] = dict(
   technique='exhaustive product sweep of every arithmetic/comparison/bitwise word over boundary alphabets, a complete small square and the full type matrix, against checked-i128 / IEEE f64 reference',
   text='28 words x (boundary alphabet squared + every pair in [-17,17]^2 (quick) / [-64,64]^2 (thorough)) x every shift count 0..=127 x real alphabet squared x full operand type matrix, each executed on the real interpreter under a sentinel; result must be the exact value when representable, otherwise wrapped value or IntegerOverflow; division errors and type-error payload rule checked.',
   note='Reference = Rust checked i128 / f64 operations. NaN for comparisons/min/max, shift counts outside 0..=127 and >int outside the i128 range are left unspecified by the property and not enumerated.',
   ref='DESIGN.md §4 C09')
CHECKS['C16'] = dict(
   technique='exhaustive enumeration of all strings up to a length bound over adversarial alphabets, lexed by the real lexer and by an independent reference tokenizer; print->read round trip over complete small value sets',
   text='Seven families: all strings <= 5 (quick) / 6 (thorough) over a 27-character adversarial alphabet (termination within len+2 calls, tiling by last_substr, token agreement), all integer spellings (sign x radix prefix x digit bodies + boundary spellings around +-2^127), reals, string bodies, bit-string bodies, comments, and print->read of ints, all bit-strings of 0..=12 bits and nested vectors/maps.',
   note='Reference tokenizer written from README + pinned lexer tests; typographic quotes and non-ASCII whitespace are undocumented (only generic obligations checked there); strings longer than the bound not covered.',
   ref='DESIGN.md §4 C16')

NOT_BUILT = {}

props = [json.loads(l) for l in open('/verif/properties.jsonl')]
checks = []
na = []
for p in props:
    i = p['id']
    if i in CHECKS:
        c = CHECKS[i]
        checks.append({
            'property_id': i,
            'quick_cmd': f'./check {i} quick',
            'thorough_cmd': f'./check {i} thorough',
            'evidence_file': f'/verif/evidence/{i}.json',
            'replay_cmd_template': './check replay {path}',
            'engine': 'xmc',
            'level_claimed': {'category': 'model_checking', 'text': c['text'], 'design_ref': c['ref']},
            'level_note': c['note'],
            'technique': c['technique'],
        })
    else:
        na.append({'property_id': i, 'reason': NOT_BUILT.get(i, 'check not built yet (work in progress); model checking applies, see DESIGN.md')})

m = {
 'version': 1,
 'setup_cmd': 'cd /verif/mc && CARGO_NET_OFFLINE=true cargo build --release --offline',
 'hooks': {
   'guard': 'cargo feature verif_hooks',
   'enable': 'mc/Cargo.toml depends on xeh = { path = "/repo", features = ["verif_hooks"] }; every ./check rebuilds from the working tree',
   'baseline_off_cmd': 'cd /repo && cargo test --workspace --no-fail-fast --offline',
   'source_commits': repo_commits('verif hooks'),
   'add_only': True,
 },
 'engines': [{
   'name': 'xmc', 'path': '/verif/mc',
   'serves_properties': [c['property_id'] for c in checks],
   'kind_free_text': 'hand-written Rust explorer: exhaustive enumeration / explicit-state BFS over the real interpreter (linked by path, hooks on), reference models in Rust, 16-way partitioning',
 }],
 'checks': checks,
 'not_applicable': na,
 'notes': 'Genuine defects repaired in /repo as fix: commits are listed in /verif/known_findings.txt (fixed: lines); open findings there are printed as KNOWN-FINDING by the checks.',
}
json.dump(m, open('/verif/MANIFEST.json', 'w'), indent=1)
print('wrote MANIFEST.json with', len(checks), 'checks')
