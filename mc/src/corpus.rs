// Program corpora shared by the differential checks (C02 reverse stepping, C14 limits,
// C15 drive modes, C11 purity of compile): grammars for the exhaustive generator of cf.rs
// and a list of hand-written repertoire programs that reach the opcodes/primitives the
// grammars cannot (late binding, binary reads, nested builders, meta blocks).
use crate::cf::*;

fn p(s: &'static str) -> N {
    N::Prim(s)
}

/// the C01 full grammar (same atoms and constructs)
pub fn grammar_full() -> Grammar {
    Grammar {
        atoms: vec![N::Int(0), N::Int(1), N::Int(2), N::Flag(true), N::Flag(false), p("dup"), p("drop"), p("+"), p("<"), p("print")],
        if_: true,
        if_else: true,
        case_arms: 1,
        until: true,
        while_: true,
        repeat: true,
        do_: true,
        do_ranges: vec![],
        defs: vec!["f", "g"],
        locals: vec!["x"],
        vars: vec!["v"],
        index_words: true,
        breaks: true,
        max_depth: 3,
        wraps: vec![],
    }
}

/// stack shufflers, builders, foreach over vectors and maps, locals, variables
pub fn grammar_repertoire() -> Grammar {
    Grammar {
        atoms: vec![N::Int(1), N::Int(2), N::Flag(true), p("over"), p("rot"), p("swap"), p("dup"), p("drop"), p("+"), p("\"k\"")],
        if_: true,
        if_else: false,
        case_arms: 1,
        until: false,
        while_: false,
        repeat: false,
        do_: true,
        do_ranges: vec![],
        defs: vec!["f"],
        locals: vec!["x"],
        vars: vec!["v"],
        index_words: true,
        breaks: true,
        max_depth: 3,
        wraps: vec![("[ 7 8 ] foreach", "loop", true), ("{ 1 \"a\" 2 \"b\" } foreach", "loop", true), ("[", "]", false), ("{", "}", false)],
    }
}

/// binary input given to every program of the template corpus
pub const BIN_INPUT: [u8; 6] = [0x12, 0x34, 0x56, 0x78, 0x9a, 0xbc];

/// hand-written programs covering what the grammars do not reach
pub fn templates() -> Vec<String> {
    let mut v: Vec<String> = vec![];
    let fixed = [
        // arithmetic / stack words
        "100 4 / 3 * 5 +",
        "1 2 3 rot rot over swap drop drop drop drop",
        "1 2 over over + rot drop",
        "nil nil? nil 1 swap drop",
        // locals re-initialised inside loops, locals in branches
        ": f 2 0 do I local x x drop loop ; f",
        ": f 3 0 do I local x I local y x y + drop loop ; f",
        ": f local a begin a 0 > while a 1 - local a repeat a ; 3 f",
        ": f true if 1 local x x else 2 local y y then ; f",
        ": f false if 1 local x then 5 local y y ; f",
        // recursion with locals
        ": fact local n n 1 < if 1 else n n 1 - fact * then ; 4 fact",
        ": hanoi local aux local to local from local n n 1 == if [ n from to ] else n 1 - from aux to hanoi [ n from to ] n 1 - aux to from hanoi then ; 3 \"a\" \"c\" \"b\" hanoi",
        // builders, nested builders in loops
        "[ 3 0 do I loop ] length",
        "[ [ 1 2 ] [ 3 [ 4 ] ] ] length",
        "{ 1 \"a\" [ 2 ] \"b\" } \"b\" get",
        "3 0 do [ I I ] loop",
        "[ 2 0 do { I \"k\" } loop ]",
        // foreach over vectors and maps, with break and nesting
        "[ 10 20 30 ] foreach I 1 + loop",
        "{ 1 \"x\" 2 \"y\" } foreach I drop drop loop",
        "[ 1 2 3 ] foreach I 2 == if break then loop",
        "[ [ 1 2 ] [ 3 4 ] ] foreach I foreach I J length + drop loop loop",
        "[ 5 6 ] foreach 2 0 do J I + drop loop loop",
        "[ ] foreach I loop",
        // case, break out of do
        "2 case 1 of 100 endof 2 of 200 endof endcase",
        "5 case 1 of 100 endof 2 of 200 endof 0 endcase",
        "10 0 do I I case 5 of break endof drop endcase loop",
        "begin 1 break repeat",
        "0 begin dup 3 < while 1 + repeat",
        "0 begin 1 + dup 3 == until",
        // variables
        "3 var g g 1 + ! g g",
        "1 var a 2 var b a b + ! a a b",
        "0 var n 4 0 do n I + ! n loop n",
        "1 let q q let 1 q",
        "[ 10 [ 20 30 ] ] let [ a [ b c ] ] a b c",
        // late-bound words
        "late w : u w ; 7 var w u",
        "late w : u w ; : w 9 ; u u",
        "late w : u w 1 + ; : w 2 ; 3 0 do u drop loop",
        // tags
        "1 ^{ 2 \"k\" ^} \"k\" get-tag",
        "5 ^hex dup tags drop",
        "true 1 \"x\" insert-tag \"x\" get-tag",
        // meta blocks (executed at compile time; the run sees only the literals)
        "#( 3 5 * #) 1 +",
        ": f [ #( 3 3 * #) ] ; f 0 get",
        "#( 1 const c #) c c +",
        // blocks that look at their own floor (what is below belongs to the surrounding program)
        "#( depth #)",
        "#( 1 + #) 2",
        "enum E : A : B endenum A B",
        // strings, collections
        "[ 1 \"ss\" [ 15 ] ] concat length",
        "[ 3 1 2 ] sort reverse 0 get",
        "5 6 7 3 collect unbox + +",
        "[ 1 2 3 4 ] 1 3 slice",
        "\"ABCD\" 1 3 slice",
        // binary reads moving the input cursor
        "u8 u8 +",
        "u8 drop i16be 3 bits drop 5 uint",
        "4 uint drop u8 offset remain",
        "8 seek u16le 0 seek u8",
        "big u16 little u16",
        "|01 02 03| open-bitstr u8 u8 close-bitstr u8",
        "|01 02| open-bitstr |ff| open-bitstr u8 close-bitstr u8 close-bitstr offset",
        "|12| magic 8 bits",
        "2 bytes |56| find",
        "f32 drop",
        // construction
        "255 u8! 1 u16be! bitstr-append",
        "[ 1 2 \"a\" |f0| ] >bitstr bitstr-not",
        "0x33 u8! emit 0xf 4 uint! emit output output-length",
        "|ff 00| |0f| bitstr-and |f| bitstr-or",
        // run-time built bit-strings whose only holder is the data stack (uniquely owned unless the
        // reverse log keeps a reference), mutated and re-opened so that their layout shows in `offset`
        "|FF| 0xABCD 16 uint! open-bitstr 8 bits drop 8 bits close-bitstr bitstr-append open-bitstr offset remain",
        "[ 1 2 3 ] >bitstr open-bitstr 1 bytes drop 1 bytes close-bitstr bitstr-not dup open-bitstr offset remain",
        "[ 1 2 3 ] >bitstr open-bitstr 1 bytes close-bitstr |FF| swap bitstr-append dup open-bitstr offset remain",
        "[ 1 2 3 ] >bitstr open-bitstr 4 bits drop 12 bits close-bitstr |F| bitstr-append dup open-bitstr offset 4 bits",
        // stores of a value that compares equal to the one already stored but is distinguishable
        // (tags, position of a slice in its buffer, sign of zero)
        "5 var m m ^hex ! m m tags",
        "18 var v u8 ! v v tags",
        "|07 07| open-bitstr 1 bytes var a 1 bytes ! a a open-bitstr offset",
        "|07 07| open-bitstr 1 bytes 1 bytes open-bitstr offset swap open-bitstr offset remain",
        "0.0 var z 0.0 -1.0 * ! z z",
        "[ 1 ] var w [ 1 ] 2 \"k\" insert-tag ! w w tags",
        // run-time failures at different depths (history ends at the failing step)
        "1 2 3 drop drop drop drop",
        ": k 0 get ; [ ] k",
        "1 \"a\" +",
        "3 0 do I 1 == if 1 0 / then loop",
        "1 0 rem",
        "I",
    ];
    for s in fixed {
        v.push(s.to_string());
    }
    // parameterised families: every (limit, start) in a small square; every nesting of two counted loops
    for lim in 0..4 {
        for st in 0..3 {
            v.push(format!("{} {} do I loop", lim, st));
            v.push(format!(": f {} {} do I local x x drop loop ; f", lim, st));
            v.push(format!("{} {} do 2 0 do I J + drop loop loop", lim, st));
        }
    }
    for n in 0..4 {
        v.push(format!("[ {} 0 do I loop ] foreach I drop loop", n));
        v.push(format!(": r local n n 0 > if n 1 - r then ; {} r", n));
    }
    v
}
