// Process-level leg: drives the real REPL (repl.rs: line execution = compile then run, trial mode,
// /snapshot and /rollback) through a pipe. The REPL runs in a child process of this same binary
// (XMC_REPL_SHIM=1 makes main() call xeh::repl::run_with_args() on the piped stdin), so it is built
// from /repo's working tree like everything else.
use std::io::Write;
use std::process::{Command, Stdio};

pub const MARK: &str = "@@MARK@@";

/// feeds `lines` to a fresh REPL process; returns what it printed on stdout after the last
/// line that printed MARK (the probe's own output and the stack listing that follows it)
pub fn scratch_dir() -> std::path::PathBuf {
    let d = std::env::temp_dir().join(format!("xmc-repl-{}", std::process::id()));
    let _ = std::fs::create_dir_all(&d);
    d
}
pub fn cleanup() {
    let _ = std::fs::remove_dir_all(std::env::temp_dir().join(format!("xmc-repl-{}", std::process::id())));
}

/// Ok(stdout) or Err(reason); a REPL that does not finish within `TIMEOUT` is killed ("hang")
const TIMEOUT: std::time::Duration = std::time::Duration::from_secs(20);

/// A first time-out may be an artefact of machine load (many REPL processes are started in
/// parallel): the run is repeated alone, under a lock, with a six times longer limit, and only a
/// second time-out counts as "hang". After three confirmed hangs the retry is dropped (a tree
/// whose REPL really hangs would otherwise cost minutes per case).
static RETRY: std::sync::Mutex<()> = std::sync::Mutex::new(());
static CONFIRMED_HANGS: std::sync::atomic::AtomicU64 = std::sync::atomic::AtomicU64::new(0);
pub static RETRIES: std::sync::atomic::AtomicU64 = std::sync::atomic::AtomicU64::new(0);

pub fn run_repl_full(lines: &[String]) -> Result<String, String> {
    use std::sync::atomic::Ordering::Relaxed;
    match run_repl_once(lines, TIMEOUT) {
        Err(e) if e == "hang" && CONFIRMED_HANGS.load(Relaxed) < 3 => {
            let _g = RETRY.lock().unwrap_or_else(|p| p.into_inner());
            RETRIES.fetch_add(1, Relaxed);
            let r = run_repl_once(lines, TIMEOUT * 6);
            if matches!(&r, Err(e) if e == "hang") {
                CONFIRMED_HANGS.fetch_add(1, Relaxed);
            }
            r
        }
        r => r,
    }
}

fn run_repl_once(lines: &[String], limit: std::time::Duration) -> Result<String, String> {
    use std::io::Read;
    let exe = std::env::current_exe().map_err(|e| e.to_string())?;
    let dir = scratch_dir();
    let mut child = Command::new(exe)
        .env("XMC_REPL_SHIM", "1")
        .current_dir(dir)
        .stdin(Stdio::piped())
        .stdout(Stdio::piped())
        .stderr(Stdio::null())
        .spawn()
        .map_err(|e| e.to_string())?;
    {
        let mut sin = child.stdin.take().unwrap();
        let mut text = String::new();
        for l in lines {
            text.push_str(l);
            text.push('\n');
        }
        sin.write_all(text.as_bytes()).map_err(|e| e.to_string())?;
    }
    let mut out = child.stdout.take().unwrap();
    let reader = std::thread::spawn(move || {
        let mut buf = Vec::new();
        let _ = out.read_to_end(&mut buf);
        buf
    });
    let start = std::time::Instant::now();
    loop {
        match child.try_wait() {
            Ok(Some(st)) => {
                let buf = reader.join().unwrap_or_default();
                if st.code().is_none() {
                    return Err(format!("REPL process died: {:?}", st));
                }
                return Ok(String::from_utf8_lossy(&buf).to_string());
            }
            Ok(None) => {
                if start.elapsed() > limit {
                    let _ = child.kill();
                    let _ = child.wait();
                    let _ = reader.join();
                    return Err("hang".into());
                }
                std::thread::sleep(std::time::Duration::from_millis(2));
            }
            Err(e) => return Err(e.to_string()),
        }
    }
}

/// what the REPL printed on stdout after the last marker line
pub fn run_repl(lines: &[String]) -> Result<String, String> {
    let s = run_repl_full(lines)?;
    match s.rfind(MARK) {
        Some(i) => Ok(s[i + MARK.len()..].to_string()),
        None => Err(format!("marker not printed; stdout: {}", s.chars().take(300).collect::<String>())),
    }
}

/// a probe line: prints the marker, then the probe runs; the REPL lists the stack afterwards
pub fn probe_line(probe: &str) -> String {
    format!("\"{}\" print {}", MARK, probe)
}
