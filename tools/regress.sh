#!/bin/sh
# tools/regress.sh <lanes> <ID> [<ID> ...]
# Regression pass over the recorded seeded changes of the given properties, meant for
#   vp run --with-repo -- tools/regress.sh 4 C04 C05 ...
# Never touches /repo: every lane works on its own copy of $VP_RUN_REPO (default: a fresh export of
# /repo's HEAD) and its own copy of mc/ with its own target dir. For each seed whose patch still applies
# to HEAD, the patch is applied to the lane's copy, the harness is rebuilt against it, and the quick tier
# of the check(s) recorded as detecting it is run; one line per seed: REGRESS <seed> <check> exit=<n>.
lanes=$1; shift
here=$(cd "$(dirname "$0")/.." && pwd)
src=${VP_RUN_REPO:-}
work=$(mktemp -d /var/tmp/regress.XXXXXX)
trap 'rm -rf "$work"' EXIT INT TERM
if [ -z "$src" ]; then src=$work/src; mkdir -p $src; git -C /repo archive HEAD | tar -x -C $src; fi
ls -d $(for id in "$@"; do echo "$here/seeded/$id-*"; done) > $work/all.txt
n=0
while read d; do echo "$d" >> $work/lane$((n % lanes)).txt; n=$((n+1)); done < $work/all.txt
lane() {
  l=$1
  mkdir -p $work/l$l/repo $work/l$l/mc $work/l$l/ev
  (cd $src && tar -c --exclude=target --exclude=.git .) | tar -x -C $work/l$l/repo
  (cd $here/mc && tar -c --exclude=target .) | tar -x -C $work/l$l/mc
  sed -i "s#path = \"/repo\"#path = \"$work/l$l/repo\"#" $work/l$l/mc/Cargo.toml
  cd $work/l$l/repo && git init -q . && git add -A >/dev/null 2>&1 && git -c user.name=x -c user.email=x@x commit -qm base
  while read d; do
    s=$(basename $d)
    cd $work/l$l/repo
    if ! git apply --check $d/patch.diff 2>/dev/null; then echo "REGRESS $s - patch-no-longer-applies"; continue; fi
    git apply $d/patch.diff
    checks=$(python3 -c "
import json,sys
m=json.load(open('$d/meta.json'))
c=sorted({r['check'] for r in m.get('check_runs',[]) if r.get('detected')})
print(' '.join(c))")
    cd $work/l$l/mc
    if CARGO_NET_OFFLINE=true cargo build --release --offline -q 2>$work/l$l/build.log; then
      for c in $checks; do
        out=$(VERIF_THREADS=6 XMC_OUT=$work/l$l/ev ./target/release/xmc $c quick 2>&1); code=$?
        echo "REGRESS $s $c exit=$code $(echo "$out" | grep -E '^  key=' | head -2 | cut -c1-120 | tr '\n' ' ')"
      done
    else
      echo "REGRESS $s - build-failed"
    fi
    cd $work/l$l/repo && git checkout -q -- . && git clean -fdq
  done < $work/lane$l.txt
}
i=0
while [ $i -lt $lanes ]; do [ -f $work/lane$i.txt ] && lane $i & i=$((i+1)); done
wait
echo "REGRESS done"
