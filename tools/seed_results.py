#!/usr/bin/env python3
# writes /verif/seeded/RESULTS.md from the meta.json files
import json, glob, os
rows = []
for mp in sorted(glob.glob('/verif/seeded/*/meta.json')):
    m = json.load(open(mp))
    d = os.path.basename(os.path.dirname(mp))
    v = m.get('verified_in_scratch_worktree', {})
    ok = all(x == 'yes' for x in v.values())
    runs = m.get('check_runs', [])
    det = [r for r in runs if r['detected']]
    first = det[0] if det else None
    needs = (m.get('needs_to_manifest') or '').strip().split('\n')
    summary = m.get('summary') or (needs[0][:160] if needs else '')
    rows.append((d, m['property'], 'yes' if ok else 'NO ' + json.dumps(v), 
                 ', '.join(f"{r['check']} {r['tier']}: {'caught' if r['detected'] else 'missed (exit %d)' % r['exit']}" for r in runs),
                 (first['keys'][0]['key'] if first and first['keys'] else ''), summary, m.get('note', '')))
with open('/verif/seeded/RESULTS.md', 'w') as f:
    f.write('# Seeded property-breaking changes\n\n')
    f.write('Each change was written by an independent sub-agent that saw only the text of one property and a scratch worktree of /repo. '
            '"verified" = the patch applies to HEAD, the 144 repository tests pass with it, the demonstration test fails with it and passes without it '
            '(all four re-run by tools/try_seed.sh in a scratch worktree). The check columns are runs of `./check` against /repo with the patch applied '
            '(evidence redirected, patch undone afterwards).\n\n')
    f.write('| seed | property | verified | check runs | first finding key | what it is | note |\n|---|---|---|---|---|---|---|\n')
    for r in rows:
        f.write('| ' + ' | '.join(str(x).replace('|', '\\|').replace('\n', ' ') for x in r) + ' |\n')
    n = len(rows); c = sum(1 for r in rows if 'caught' in r[3])
    f.write(f'\n{c} of {n} seeded changes are reported by the registered checks.\n')
print(open('/verif/seeded/RESULTS.md').read()[-400:])
