// C08 — no source text, input or API call sequence can crash the interpreter.
//
// Four exhaustive sweeps (word x arguments, token strings, raw text, API order), each run
// in BOTH build profiles ("checked" = profile release of this crate: overflow-checks and
// debug-assertions on; "unchecked" = profile unchecked: both off).  `xmc C08 <tier>` is the
// driver: it builds the unchecked binary, spawns worker subprocesses of both binaries
// (`xmc C08-worker <sweep> <part> <nparts> <tier> <journal> [<resume-from>]`), every worker
// runs its slice of a sweep with every interpreter call wrapped in `guarded(..)`, writes
// the index of the case it is about to run into the journal (one 8-byte `write_at` on an
// open file per case) and appends violation / counter lines to `<journal>.out`.
// A caught unwind is a violation `panic:...`; a worker that dies (signal, non-zero exit)
// is a violation `abort:<sweep>:<case>` attributed to the journalled case, and the rest of
// its slice is resumed in a fresh worker.
//
// Oracle: the property itself — every call returns (Ok or Err).  Nothing else is demanded.
use crate::common::*;
use std::cell::RefCell;
use std::collections::{BTreeMap, BTreeSet};
use std::io::Write as _;
use std::os::unix::fs::FileExt;
use std::path::{Path, PathBuf};
use std::time::{Duration, Instant};
use xeh::prelude::*;

// ------------------------------------------------------------------------------------
// fixed parameters of every case
const INSN_LIMIT: usize = 2000;
const STACK_LIMIT: usize = 256;
const HEAP_EXTRA: usize = 64;
const GRANULE: u64 = 128; // cases per work granule (granules are dealt round-robin to parts)
const MAX_SIZE: i128 = 1 << 16; // "modest allocation size"
const STEP_CAP: usize = 200;

/// words that reach outside the process or are non-deterministic: never executed
const EXTERNAL: &[&str] = &["random", "random-bits", "read-all", "write-all", "exec-piped", "include", "require"];

/// (word, position counted from the top of the stack, largest integer given in that position)
/// = the positions where an integer argument is an allocation size
const SIZE_TABLE: &[(&str, usize, i128)] = &[
    ("int!", 0, MAX_SIZE),
    ("uint!", 0, MAX_SIZE),
    ("float!", 0, MAX_SIZE),
    ("random-bits", 0, MAX_SIZE), // (listed for completeness; the word is on the external list)
    ("d2-resize", 0, 256),        // width * height <= 2^16
    ("d2-resize", 1, 256),
];

const INPUT_BYTES: [u8; 20] = [0xff, 0x80, 0x01, 0x00, 0x61, 0x62, 0x00, 0x7f, 0xfe, 0x10, 0x20, 0x30, 0x40, 0x50, 0x60, 0x70, 0x80, 0x90, 0xa0, 0xff];

const START_STATES: &[&str] = &["fresh", "in0", "in3", "in8", "d2", "in0-big"];

// ------------------------------------------------------------------------------------
// panic capture: hook stores message + location, `g` wraps `guarded`
thread_local! {
    static LAST_PANIC: RefCell<Option<(String, String)>> = RefCell::new(None);
}

fn install_hook() {
    std::panic::set_hook(Box::new(|info| {
        let loc = info.location().map(|l| format!("{}:{}", l.file(), l.line())).unwrap_or_else(|| "?".into());
        let msg = if let Some(s) = info.payload().downcast_ref::<&str>() {
            s.to_string()
        } else if let Some(s) = info.payload().downcast_ref::<String>() {
            s.clone()
        } else {
            "panic".to_string()
        };
        LAST_PANIC.with(|c| *c.borrow_mut() = Some((msg, loc)));
    }));
}

#[derive(Clone, Debug)]
struct Pan {
    stage: String,   // which call panicked ("eval", "run", "pretty_error", ...)
    msg: String,     // panic message
    loc: String,     // file:line of the panic
    culprit: String, // class of the value / error being formatted (formatting stages only)
}

fn g<T>(stage: &str, f: impl FnOnce() -> T) -> Result<T, Pan> {
    LAST_PANIC.with(|c| *c.borrow_mut() = None);
    match guarded(f) {
        Ok(v) => Ok(v),
        Err(m) => {
            let (msg, loc) = LAST_PANIC.with(|c| c.borrow_mut().take()).unwrap_or((m, "?".into()));
            Err(Pan { stage: stage.to_string(), msg, loc, culprit: String::new() })
        }
    }
}

// ------------------------------------------------------------------------------------
// value alphabet V (DESIGN.md section 4)
struct Val {
    name: String, // xeh source text where one exists, otherwise a description
    rust: String, // Rust expression building the cell
    ty: &'static str,
    cls: String,
    cell: Cell,
    int: Option<i128>,
    core: bool,
}

fn int_class(i: i128) -> &'static str {
    if i == 0 {
        "zero"
    } else if i == 1 {
        "one"
    } else if i == i128::MIN {
        "min"
    } else if i < 0 {
        "negative"
    } else if i <= MAX_SIZE {
        "small"
    } else if i < (1i128 << 63) {
        "big"
    } else {
        "huge"
    }
}

fn type_of(c: &Cell) -> &'static str {
    match c {
        Cell::Nil => "nil",
        Cell::Flag(_) => "flag",
        Cell::Int(_) => "int",
        Cell::Real(_) => "real",
        Cell::Str(_) => "str",
        Cell::Vector(_) => "vec",
        Cell::Map(_) => "map",
        Cell::Fun(_) => "fun",
        Cell::Bitstr(_) => "bitstr",
        Cell::AnyRc(_) => "any",
        Cell::WithTag(_) => "tagged",
    }
}

/// class of an arbitrary cell: fine enough to tell defects apart, coarse enough to be stable
fn classify(c: &Cell) -> String {
    match c {
        Cell::Nil => "nil".into(),
        Cell::Flag(_) => "flag".into(),
        Cell::Int(i) => int_class(*i).into(),
        Cell::Real(r) => (if r.is_nan() {
            "real-nan"
        } else if r.is_infinite() {
            "real-inf"
        } else if *r == 0.0 {
            "real-zero"
        } else {
            "real"
        })
        .into(),
        Cell::Str(s) => (if s.len() > 75 && !s.is_char_boundary(75) {
            "str-long-nonascii"
        } else if s.len() > 75 {
            "str-long"
        } else if s.is_empty() {
            "str-empty"
        } else {
            "str"
        })
        .into(),
        Cell::Vector(v) => (if v.is_empty() { "vec-empty" } else { "vec" }).into(),
        Cell::Map(m) => (if m.is_empty() { "map-empty" } else { "map" }).into(),
        Cell::Fun(_) => "fun".into(),
        Cell::Bitstr(b) => (if b.len() == 0 {
            "bitstr-empty"
        } else if b.start() % 8 != 0 || b.len() % 8 != 0 {
            "bitstr-unaligned"
        } else {
            "bitstr"
        })
        .into(),
        Cell::AnyRc(_) => "any".into(),
        Cell::WithTag(_) => {
            let fmt = c.get_tag(&Cell::from("#fmt"));
            let f = match fmt {
                None => String::new(),
                Some(Cell::Int(i)) if *i >= 0 && *i <= 0xffff => format!("fmt={}", i),
                Some(Cell::Int(i)) if *i > 0xffff => "fmt=wide".to_string(),
                Some(Cell::Int(_)) => "fmt=negative".to_string(),
                Some(o) => format!("fmt={}", type_of(o)),
            };
            format!("tagged[{}]{}", f, classify(c.value()))
        }
    }
}

fn alphabet(seed: u64) -> Vec<Val> {
    let mut v: Vec<Val> = vec![];
    let mut add = |name: &str, rust: &str, cell: Cell, core: bool| {
        let int = if let Cell::Int(i) = &cell { Some(*i) } else { None };
        v.push(Val { name: name.to_string(), rust: rust.to_string(), ty: type_of(cell.value()), cls: classify(&cell), cell, int, core });
    };
    add("nil", "Cell::Nil", Cell::Nil, false);
    add("true", "Cell::Flag(true)", Cell::Flag(true), false);
    add("false", "Cell::Flag(false)", Cell::Flag(false), false);
    let ints: &[(i128, bool)] = &[
        (0, true),
        (1, true),
        (-1, true),
        (2, false),
        (3, false),
        (7, false),
        (8, false),
        (32, false),
        (63, false),
        (64, false),
        (65, false),
        (127, false),
        (128, false),
        (129, false),
        (136, false),
        (255, false),
        (256, false),
        (1 << 16, false),
        ((1 << 31) - 1, false),
        ((1 << 31) + 1, false),
        ((1 << 63) - 1, false),
        (1 << 63, false),
        (-(1 << 63), true),
        ((1 << 64) - 1, false),
        (1 << 64, true),
        (i128::MAX, true),
        (i128::MIN, true),
        (i128::MIN + 1, false),
    ];
    for (i, core) in ints {
        add(&format!("{}", i), &format!("Cell::Int({}i128)", i), Cell::Int(*i), *core);
    }
    if seed != 0 {
        // the seed only ADDS members to the alphabet; the product space is still complete
        let a = (mix(seed, 1) % 60000) as i128 + 300;
        let b = ((mix(seed, 2) as i128) << 40) | 1;
        add(&format!("{}", a), &format!("Cell::Int({}i128)", a), Cell::Int(a), false);
        add(&format!("{}", b), &format!("Cell::Int({}i128)", b), Cell::Int(b), false);
    }
    let reals: &[(&str, f64)] = &[
        ("0.0", 0.0),
        ("-0.0", -0.0),
        ("1.0", 1.0),
        ("1.5", 1.5),
        ("-2.5", -2.5),
        ("1e300", 1e300),
        ("5e-324", 5e-324),
        ("inf", f64::INFINITY),
        ("-inf", f64::NEG_INFINITY),
        ("NaN", f64::NAN),
    ];
    for (n, r) in reals {
        add(n, &format!("Cell::Real(f64::from_bits({:#x}))", r.to_bits()), Cell::Real(*r), false);
    }
    let long: String = "é".repeat(38); // 76 bytes, byte 75 is inside a character
    add("\"\"", "Cell::from(\"\")", Cell::from(""), false);
    add("\"a\"", "Cell::from(\"a\")", Cell::from("a"), true);
    add("\"1\"", "Cell::from(\"1\")", Cell::from("1"), false);
    add(&format!("\"{}\"", long), "Cell::from(\"é\".repeat(38))", Cell::from(long.clone()), true);
    add("\"#fmt\"", "Cell::from(\"#fmt\")", Cell::from("#fmt"), false);
    // multi-byte blanks in front of characters that are valid nowhere (character index != byte offset)
    add("\"\u{2003}zz\"", "Cell::from(\"\\u{2003}zz\")", Cell::from("\u{2003}zz"), false);
    add("\"ff\u{a0}\u{a0}\u{a0}q0\"", "Cell::from(\"ff\\u{a0}\\u{a0}\\u{a0}q0\")", Cell::from("ff\u{a0}\u{a0}\u{a0}q0"), false);
    // bit-strings
    let b1 = Xbitstr::from(vec![0b1011_0100u8]);
    let b4 = Xbitstr::from(vec![1u8, 2, 3, 0x84]);
    add("||", "Cell::from(Xbitstr::new())", Cell::from(Xbitstr::new()), false);
    add("|x|", "Cell::from(Xbitstr::from(vec![0xb4u8]).substr(0,1).unwrap())", Cell::from(b1.substr(0, 1).unwrap()), false);
    add("(bits 3..6 of |B4|)", "Cell::from(Xbitstr::from(vec![0xb4u8]).substr(3,6).unwrap())", Cell::from(b1.substr(3, 6).unwrap()), false);
    add("|B4|", "Cell::from(Xbitstr::from(vec![0xb4u8]))", Cell::from(b1.clone()), false);
    add("(bits 3..27 of |01 02 03 84|)", "Cell::from(Xbitstr::from(vec![1u8,2,3,0x84]).substr(3,27).unwrap())", Cell::from(b4.substr(3, 27).unwrap()), true);
    // vectors
    let mut v0 = Xvec::new();
    add("[ ]", "Cell::from(Xvec::new())", Cell::from(v0.clone()), false);
    v0.push_back_mut(Cell::Int(1));
    add("[ 1 ]", "Cell::from(xeh_vec![1])", Cell::from(v0.clone()), false);
    let mut v2 = v0.clone();
    v2.push_back_mut(Cell::from("a"));
    add("[ 1 \"a\" ]", "Cell::from(xeh_vec![1, \"a\"])", Cell::from(v2.clone()), true);
    let mut v3 = Xvec::new();
    v3.push_back_mut(Cell::from(v0.clone()));
    v3.push_back_mut(Cell::from(Xvec::new()));
    add("[ [ 1 ] [ ] ]", "Cell::from(xeh_vec![xeh_vec![1], xeh_vec![]])", Cell::from(v3), false);
    let mut v13 = Xvec::new();
    for i in 0..13 {
        v13.push_back_mut(Cell::Int(i));
    }
    add("[ 0 1 2 3 4 5 6 7 8 9 10 11 12 ]", "Cell::from((0..13).map(|i| Cell::Int(i)).collect::<Xvec>())", Cell::from(v13), false);
    // maps
    add("{ }", "Cell::Map(Xmap::new())", Cell::Map(Xmap::new()), false);
    let mut m1 = Xmap::new();
    m1.insert_mut(Cell::from("a"), Cell::Int(1));
    add("{ 1 \"a\" }", "Cell::Map(xeh_map![\"a\" => 1])", Cell::Map(m1), false);
    // tagged values
    let fmt = Cell::from("#fmt");
    let tag = |c: Cell, k: Cell, val: Cell| c.insert_tag(k, val);
    add("1 ^{ 2 \"k\" ^}", "Cell::Int(1).insert_tag(Cell::from(\"k\"), Cell::Int(2))", tag(Cell::Int(1), Cell::from("k"), Cell::Int(2)), false);
    add("\"ff\" ^{ 0x110 \"#fmt\" ^}", "Cell::from(\"ff\").insert_tag(Cell::from(\"#fmt\"), Cell::Int(0x110))", tag(Cell::from("ff"), fmt.clone(), Cell::Int(0x110)), false);
    add(
        "255 ^{ 18446744073709551615 \"#fmt\" ^}",
        "Cell::Int(255).insert_tag(Cell::from(\"#fmt\"), Cell::Int(u64::MAX as i128))",
        tag(Cell::Int(255), fmt.clone(), Cell::Int(u64::MAX as i128)),
        true,
    );
    add("255 ^{ 0x1010a \"#fmt\" ^}", "Cell::Int(255).insert_tag(Cell::from(\"#fmt\"), Cell::Int(0x1010a))", tag(Cell::Int(255), fmt.clone(), Cell::Int(0x1010a)), false);
    add("\"1\" ^{ 37 \"#fmt\" ^}", "Cell::from(\"1\").insert_tag(Cell::from(\"#fmt\"), Cell::Int(37))", tag(Cell::from("1"), fmt.clone(), Cell::Int(37)), false);
    // hand-made format tags whose base field is below every legal radix (0, 1, and 0 again above the flag bits)
    add("\"10\" ^{ 0 \"#fmt\" ^}", "Cell::from(\"10\").insert_tag(Cell::from(\"#fmt\"), Cell::Int(0))", tag(Cell::from("10"), fmt.clone(), Cell::Int(0)), false);
    add("\"10\" ^{ 1 \"#fmt\" ^}", "Cell::from(\"10\").insert_tag(Cell::from(\"#fmt\"), Cell::Int(1))", tag(Cell::from("10"), fmt.clone(), Cell::Int(1)), false);
    add("\"10\" ^{ 4096 \"#fmt\" ^}", "Cell::from(\"10\").insert_tag(Cell::from(\"#fmt\"), Cell::Int(4096))", tag(Cell::from("10"), fmt.clone(), Cell::Int(4096)), false);
    add("[ 1 ] ^{ -1 \"#fmt\" ^}", "Cell::from(xeh_vec![1]).insert_tag(Cell::from(\"#fmt\"), Cell::Int(-1))", tag(Cell::from(v0.clone()), fmt.clone(), Cell::Int(-1)), false);
    // host object and function cells (reachable through push_data only)
    add("(host object)", "Cell::from_any(0u8)", Cell::from_any(0u8), false);
    add("(function cell)", "Cell::Fun(Xfn::Interp(7))", Cell::Fun(Xfn::Interp(7)), false);
    v
}

// ------------------------------------------------------------------------------------
// interpreter set-up
fn boot_full() -> Xstate {
    let mut xs = Xstate::boot().expect("boot");
    xeh::d2_plugin::load(&mut xs).expect("d2 plugin");
    xs
}

fn heap_len(xs: &Xstate) -> usize {
    dump_get(&xs.verif_dump(), "heap_len").parse().unwrap_or(0)
}

fn apply_limits(xs: &mut Xstate) {
    xs.intercept_stdout(true);
    let _ = xs.intercept_output(true);
    let _ = xs.set_stack_limit(Some(STACK_LIMIT));
    let h = heap_len(xs);
    let _ = xs.set_heap_limit(Some(h + HEAP_EXTRA));
    let _ = xs.set_insn_limit(Some(INSN_LIMIT));
}

/// start state `s` of START_STATES built on a freshly booted interpreter
fn make_start(s: usize) -> Xstate {
    let mut xs = boot_full();
    xs.intercept_stdout(true);
    xs.intercept_output(true).expect("intercept_output");
    match s {
        0 => {}
        1 | 2 | 3 | 5 => {
            xs.set_binary_input(Xbitstr::from(INPUT_BYTES.to_vec())).expect("set_binary_input");
            if s == 2 {
                xs.eval("3 seek").expect("3 seek");
            }
            if s == 3 {
                xs.eval("8 seek").expect("8 seek");
            }
            if s == 5 {
                xs.eval("big").expect("big");
            }
        }
        4 => xs.eval("3 2 d2-resize").expect("d2-resize"),
        _ => unreachable!(),
    }
    apply_limits(&mut xs);
    xs
}

fn err_class(e: &Xerr) -> String {
    match e {
        Xerr::UserError(c) => format!("UserError({})", classify(c)),
        Xerr::TypeErrorMsg { val, .. } => format!("TypeErrorMsg({})", classify(val)),
        Xerr::TypeNotSupported { val } => format!("TypeNotSupported({})", classify(val)),
        Xerr::AssertEqFailed { a, b } => format!("AssertEqFailed({},{})", classify(a), classify(b)),
        other => {
            let k = err_kind(other);
            match k.find('(') {
                Some(p) => k[..p].to_string(),
                None => k,
            }
        }
    }
}

struct Stats {
    calls: u64, // API calls made on the real interpreter
    counters: BTreeMap<String, u64>,
}

/// the error-formatting calls the property names, each guarded separately
fn post(xs: &Xstate, r: &Xresult, st: &mut Stats) -> Result<(), Pan> {
    let ec = match r {
        Err(e) => err_class(e),
        Ok(()) => "Ok".to_string(),
    };
    let with = |mut p: Pan, c: &str| {
        p.culprit = c.to_string();
        p
    };
    st.calls += 2;
    g("pretty_error", || xs.pretty_error()).map_err(|p| with(p, &ec))?;
    g("last_err_location", || xs.last_err_location().map(|l| format!("{:?}", l))).map_err(|p| with(p, &ec))?;
    if let Some(e) = xs.last_error() {
        st.calls += 1;
        let c = err_class(e);
        g("display_last_error", || format!("{}", e)).map_err(|p| with(p, &c))?;
    }
    if let Err(e) = r {
        st.calls += 2;
        g("display_err", || format!("{}", e)).map_err(|p| with(p, &ec))?;
        g("debug_err", || format!("{:?}", e)).map_err(|p| with(p, &ec))?;
    }
    let mut i = 0;
    while i < 2 * STACK_LIMIT {
        let c = match xs.get_data(i) {
            Some(c) => c,
            None => break,
        };
        st.calls += 2;
        let _ = g("format_cell", || xs.format_cell(c).map(|s| s.len())).map_err(|p| {
            let cu = fmt_culprit(xs, c, false, &p.loc, 0);
            with(p, &cu)
        })?;
        let _ = g("format_cell_safe", || xs.format_cell_safe(c).map(|s| s.len())).map_err(|p| {
            let cu = fmt_culprit(xs, c, true, &p.loc, 0);
            with(p, &cu)
        })?;
        i += 1;
    }
    Ok(())
}

/// smallest part of `c` whose formatting alone panics at `loc` (descends into containers and
/// under tags), as a class label
fn fmt_culprit(xs: &Xstate, c: &Cell, safe: bool, loc: &str, depth: usize) -> String {
    let probe = |x: &Cell| -> bool {
        let r = if safe { g("f", || xs.format_cell_safe(x).map(|s| s.len())) } else { g("f", || xs.format_cell(x).map(|s| s.len())) };
        match r {
            Err(p) => p.loc == loc,
            Ok(_) => false,
        }
    };
    if depth > 6 {
        return classify(c);
    }
    if c.tags().is_some() {
        if probe(c.value()) {
            return fmt_culprit(xs, c.value(), safe, loc, depth + 1);
        }
        let t = Cell::Int(1).with_tags(c.tags().unwrap().clone());
        if probe(&t) {
            return classify(&t).replace("]one", "]");
        }
        return classify(c);
    }
    match c {
        Cell::Vector(v) => {
            for e in v.iter() {
                if probe(e) {
                    return fmt_culprit(xs, e, safe, loc, depth + 1);
                }
            }
        }
        Cell::Map(m) => {
            for (k, v) in m.iter() {
                for e in [k, v] {
                    if probe(e) {
                        return fmt_culprit(xs, e, safe, loc, depth + 1);
                    }
                }
            }
        }
        _ => {}
    }
    classify(c)
}

/// payload part of a finding key: no white space and no ':' (known_findings.txt splits on both)
fn keyify(s: &str) -> String {
    let mut o = String::new();
    for c in s.chars() {
        match c {
            ' ' => o.push('_'),
            ':' => o.push_str("%3a"),
            '\n' => o.push_str("\\n"),
            '\t' => o.push_str("\\t"),
            '\r' => o.push_str("\\r"),
            c if c.is_whitespace() => o.push_str(&format!("%u{:04x}", c as u32)),
            c => o.push(c),
        }
    }
    o
}

fn outcome_name(r: &Xresult) -> String {
    match r {
        Ok(()) => "Ok".into(),
        Err(e) => {
            let k = err_kind(e);
            match k.find('(') {
                Some(p) if !k.starts_with("ErrorMsg") => k[..p].to_string(),
                _ => k,
            }
        }
    }
}

fn is_trivial(r: &Xresult) -> bool {
    matches!(r, Err(Xerr::StackUnderflow) | Err(Xerr::UnknownWord(_)))
}

// ------------------------------------------------------------------------------------
// the sweeps
#[derive(Clone, Copy, PartialEq, Eq, PartialOrd, Ord, Debug)]
enum Sweep {
    Words,
    Tokens,
    Text,
    Api,
}

impl Sweep {
    fn name(self) -> &'static str {
        match self {
            Sweep::Words => "words",
            Sweep::Tokens => "tokens",
            Sweep::Text => "text",
            Sweep::Api => "api",
        }
    }
    fn parse(s: &str) -> Option<Sweep> {
        [Sweep::Words, Sweep::Tokens, Sweep::Text, Sweep::Api].into_iter().find(|x| x.name() == s)
    }
}

struct Block {
    word: usize,
    start: usize,
    doms: Vec<Vec<u16>>, // doms[0] = deepest argument ... doms[k-1] = top of stack
    first: u64,
    size: u64,
}

struct Tok {
    text: String,
    show: String,
}

#[derive(Clone)]
struct ApiOp {
    name: &'static str,
    kind: u8, // 0 eval(src) 1 compile(src) 2 run 3 next 4 rnext 5 insn0 6 stack0 7 heap0 8 rec on 9 rec off 10 push 11 pop
    src: &'static str,
}

const TEXT_SIGMA: &[char] = &[
    ' ', '\n', '\t', '\r', '"', '\\', '(', ')', '|', 'x', '.', '0', '1', '9', 'a', 'f', 'g', '-', '+', '_', 'b', 'e', 'é', '“', '”', '😀', '\u{a0}',
];

fn api_ops() -> Vec<ApiOp> {
    let mut v = vec![];
    for s in ["1 2 +", "#(", "1 #( 2", ": f", "[ 1", "#)", ";", "]", "foo", "begin 1 drop repeat", "1 var x", ": g 1 ; g", "\"s\" error", ": f immediate f ;", ": h immediate 1 ; : k h h ;", ": m 1 immediate m", "3 0 do J drop loop", "2 0 do 2 0 do K drop loop loop", ": jj J ; 2 0 do jj drop loop"] {
        v.push(ApiOp { name: "eval", kind: 0, src: s });
    }
    for s in ["1 2 +", "#(", "1 #( 2", ": f", "[ 1", "begin 1 drop repeat", ": g 1 ; g", "foo"] {
        v.push(ApiOp { name: "compile", kind: 1, src: s });
    }
    // multi-word scenarios: the parsing module's own variables set to extreme values and then used,
    // extreme enum values, a failing token at a very large column
    for s in [
        "18446744073709551615 ! output-length",
        "|ff| emit",
        "18446744073709551615 ! offset",
        "-1 ! offset",
        "nil ! input",
        "\"x\" ! big?",
        "u8 remain 8 bits dump",
        "|01| find nulbytestr",
        "close-bitstr",
        "enum e 170141183460469231731687303715884105727 = a : b endenum",
    ] {
        v.push(ApiOp { name: "eval", kind: 0, src: s });
    }
    let far: &'static str = Box::leak(format!("{}zz9", " ".repeat(70_000)).into_boxed_str());
    v.push(ApiOp { name: "eval", kind: 0, src: far });
    v.push(ApiOp { name: "run", kind: 2, src: "" });
    v.push(ApiOp { name: "next", kind: 3, src: "" });
    v.push(ApiOp { name: "rnext", kind: 4, src: "" });
    v.push(ApiOp { name: "set_insn_limit(Some(0))", kind: 5, src: "" });
    v.push(ApiOp { name: "set_stack_limit(Some(0))", kind: 6, src: "" });
    v.push(ApiOp { name: "set_heap_limit(Some(0))", kind: 7, src: "" });
    v.push(ApiOp { name: "set_recording_enabled(true)", kind: 8, src: "" });
    v.push(ApiOp { name: "set_recording_enabled(false)", kind: 9, src: "" });
    v
}

/// second alphabet of the api sweep: the reverse debugger over histories of sources that fail at
/// run time inside loops / calls (their frames and loop ranges stay behind and the next source
/// runs above them); `rnext*` / `next*` walk as far as the call allows (at most 300 steps)
fn dbg_ops() -> Vec<ApiOp> {
    let mut v = vec![];
    for s in ["2 0 do I 2 0 do I 0 / loop loop", "7 drop 1 0 /", ": pf drop ; pf", "[ 1 2 ] foreach drop drop loop", "2 0 do I drop loop"] {
        v.push(ApiOp { name: "eval", kind: 0, src: s });
    }
    for s in ["2 0 do I drop loop", ": g 1 ; g"] {
        v.push(ApiOp { name: "compile", kind: 1, src: s });
    }
    v.push(ApiOp { name: "run", kind: 2, src: "" });
    v.push(ApiOp { name: "next", kind: 3, src: "" });
    v.push(ApiOp { name: "rnext", kind: 4, src: "" });
    v.push(ApiOp { name: "rnext until it fails", kind: 12, src: "" });
    v.push(ApiOp { name: "next until it fails or stops", kind: 13, src: "" });
    v.push(ApiOp { name: "set_recording_enabled(true)", kind: 8, src: "" });
    v
}

fn api_show(o: &ApiOp) -> String {
    if o.kind <= 1 && o.src.len() > 200 {
        format!("{}(<{} blanks>{})", o.name, o.src.len() - o.src.trim_start().len(), o.src.trim_start())
    } else if o.kind <= 1 {
        format!("{}({:?})", o.name, o.src)
    } else {
        o.name.to_string()
    }
}

struct Ctx {
    vals: Vec<Val>,
    words: Vec<String>,
    immediates: Vec<String>,
    blocks: Vec<Block>,
    words_total: u64,
    toks: Vec<Tok>,
    tok_len: usize,
    text_len: usize,
    ops: Vec<ApiOp>,
    api_len: usize,
    ops2: Vec<ApiOp>,
    api_len2: usize,
    bases: Vec<Option<Xstate>>, // per start state (lazily built)
    plain: Xstate,              // fresh + limits (sweeps 2..4)
}

fn pow_sum(a: u64, max_len: usize, min_len: usize) -> u64 {
    (min_len..=max_len).map(|l| a.pow(l as u32)).sum()
}

/// index within "all sequences of length min_len..=max_len over an alphabet of `a` symbols, shortest first"
fn decode_seq(mut idx: u64, a: u64, min_len: usize, max_len: usize) -> Vec<usize> {
    for l in min_len..=max_len {
        let n = a.pow(l as u32);
        if idx < n {
            let mut d = vec![0usize; l];
            for j in (0..l).rev() {
                d[j] = (idx % a) as usize;
                idx /= a;
            }
            return d;
        }
        idx -= n;
    }
    panic!("sequence index out of range");
}

fn is_immediate(base: &Xstate, w: &str) -> bool {
    // asked of the interpreter itself: `see <word>` prints "#immediate" for immediate words
    let mut xs = base.clone();
    let _ = xs.read_stdout();
    match guarded(|| xs.eval(&format!("see {}", w))) {
        Ok(Ok(())) => xs.read_stdout().map(|s| s.contains("#immediate")).unwrap_or(false),
        _ => false,
    }
}

impl Ctx {
    fn new(cfg: &Cfg) -> Ctx {
        let quick = cfg.quick();
        let vals = alphabet(cfg.seed);
        let plain = make_start(0);
        let mut seen = BTreeSet::new();
        let mut words = vec![];
        for w in plain.word_list() {
            let w = w.to_string();
            if EXTERNAL.contains(&w.as_str()) || !seen.insert(w.clone()) {
                continue;
            }
            words.push(w);
        }
        let immediates: Vec<String> = words.iter().filter(|w| is_immediate(&plain, w)).cloned().collect();
        // ---- sweep 1 blocks
        let all: Vec<u16> = (0..vals.len() as u16).collect();
        let core: Vec<u16> = (0..vals.len() as u16).filter(|i| vals[*i as usize].core).collect();
        let mut blocks = vec![];
        let mut first = 0u64;
        for (wi, w) in words.iter().enumerate() {
            let d2 = w.starts_with("d2-");
            for s in 0..START_STATES.len() {
                if s == 4 && !d2 {
                    continue;
                }
                for k in 0..=3usize {
                    let full_here = k < 3 || (!quick && s != 1 && s != 3 && s != 5);
                    let mut variants: Vec<&Vec<u16>> = vec![];
                    if full_here {
                        variants.push(&all);
                    } else {
                        variants.push(&core);
                    }
                    for dom in variants {
                        let mut doms = vec![];
                        for pos in 0..k {
                            let from_top = k - 1 - pos;
                            let lim = SIZE_TABLE.iter().find(|(n, p, _)| *n == w && *p == from_top).map(|x| x.2);
                            let d: Vec<u16> = dom
                                .iter()
                                .copied()
                                .filter(|i| match (lim, size_value(&vals[*i as usize])) {
                                    (Some(l), Some(x)) => x <= l,
                                    _ => true,
                                })
                                .collect();
                            doms.push(d);
                        }
                        let size: u64 = doms.iter().map(|d| d.len() as u64).product();
                        blocks.push(Block { word: wi, start: s, doms, first, size });
                        first += size;
                    }
                }
            }
        }
        // ---- sweep 2 alphabet
        let mut toks: Vec<Tok> = vec![];
        for w in &immediates {
            toks.push(Tok { text: w.clone(), show: w.clone() });
        }
        for (t, s) in [
            ("x", "x"),
            ("1", "1"),
            ("\"s\"", "\"s\""),
            ("|f|", "|f|"),
            ("\\ c\n", "<line-comment>"),
            ("\\( c \\)", "<block-comment>"),
            ("\n", "<newline>"),
            ("foo", "foo"),
            ("^", "^"),
            ("&", "&"),
        ] {
            toks.push(Tok { text: t.to_string(), show: s.to_string() });
        }
        Ctx {
            vals,
            words,
            immediates,
            blocks,
            words_total: first,
            toks,
            tok_len: if quick { 3 } else { 4 },
            text_len: if quick { 4 } else { 5 },
            ops: api_ops(),
            api_len: if quick { 3 } else { 4 },
            ops2: dbg_ops(),
            api_len2: if quick { 5 } else { 6 },
            bases: (0..START_STATES.len()).map(|_| None).collect(),
            plain,
        }
    }

    fn total(&self, sw: Sweep) -> u64 {
        match sw {
            Sweep::Words => self.words_total,
            Sweep::Tokens => pow_sum(self.toks.len() as u64, self.tok_len, 0) * 3,
            Sweep::Text => pow_sum(TEXT_SIGMA.len() as u64, self.text_len, 0),
            Sweep::Api => pow_sum(self.ops.len() as u64, self.api_len, 1) + pow_sum(self.ops2.len() as u64, self.api_len2, 1),
        }
    }

    /// (alphabet, offset of the alphabet in the op-used table, sequence)
    fn api_decode(&self, idx: u64) -> (&[ApiOp], usize, Vec<usize>) {
        let n1 = pow_sum(self.ops.len() as u64, self.api_len, 1);
        if idx < n1 {
            (&self.ops, 0, decode_seq(idx, self.ops.len() as u64, 1, self.api_len))
        } else {
            (&self.ops2, self.ops.len(), decode_seq(idx - n1, self.ops2.len() as u64, 1, self.api_len2))
        }
    }

    fn find_block(&self, idx: u64) -> &Block {
        let p = self.blocks.partition_point(|b| b.first + b.size <= idx);
        &self.blocks[p]
    }

    fn decode_word_case(&self, idx: u64) -> (usize, usize, Vec<usize>) {
        let b = self.find_block(idx);
        let mut r = idx - b.first;
        let k = b.doms.len();
        let mut args = vec![0usize; k];
        for j in (0..k).rev() {
            let n = b.doms[j].len() as u64;
            args[j] = b.doms[j][(r % n) as usize] as usize;
            r /= n;
        }
        (b.word, b.start, args)
    }

    fn describe(&self, sw: Sweep, idx: u64) -> String {
        match sw {
            Sweep::Words => {
                let (w, s, a) = self.decode_word_case(idx);
                let cl: Vec<&str> = a.iter().map(|i| self.vals[*i].cls.as_str()).collect();
                format!("{}:{}@{}", self.words[w], cl.join(","), START_STATES[s])
            }
            Sweep::Tokens => {
                let seq = decode_seq(idx / 3, self.toks.len() as u64, 0, self.tok_len);
                format!("{}:{}", MODES[(idx % 3) as usize], self.show_toks(&seq))
            }
            Sweep::Text => format!("{:?}", self.text_of(&decode_seq(idx, TEXT_SIGMA.len() as u64, 0, self.text_len))),
            Sweep::Api => {
                let (alpha, _, seq) = self.api_decode(idx);
                Self::show_ops(alpha, &seq)
            }
        }
    }

    fn show_toks(&self, seq: &[usize]) -> String {
        seq.iter().map(|i| self.toks[*i].show.as_str()).collect::<Vec<_>>().join(" ")
    }
    fn src_toks(&self, seq: &[usize]) -> String {
        seq.iter().map(|i| self.toks[*i].text.as_str()).collect::<Vec<_>>().join(" ")
    }
    fn text_of(&self, seq: &[usize]) -> String {
        seq.iter().map(|i| TEXT_SIGMA[*i]).collect()
    }
    fn show_ops(alpha: &[ApiOp], seq: &[usize]) -> String {
        seq.iter().map(|i| api_show(&alpha[*i])).collect::<Vec<_>>().join("; ")
    }

    fn base(&mut self, s: usize, fresh: bool) -> Xstate {
        if fresh {
            // words that touch the d2 host object get their own interpreter: `clone` shares it
            return make_start(s);
        }
        if self.bases[s].is_none() {
            self.bases[s] = Some(make_start(s));
        }
        self.bases[s].as_ref().unwrap().clone()
    }

    // ---------------------------------------------------------------- sweep 1
    fn run_word(&mut self, w: usize, s: usize, args: &[usize], st: &mut Stats) -> (Option<Xresult>, Option<Pan>) {
        let fresh = self.words[w].starts_with("d2-");
        let mut xs = self.base(s, fresh);
        for a in args {
            let c = self.vals[*a].cell.clone();
            st.calls += 1;
            match g("push_data", || xs.push_data(c)) {
                Ok(_) => {}
                Err(p) => return (None, Some(p)),
            }
        }
        let word = self.words[w].as_str();
        st.calls += 1;
        let r = match g("eval", || xs.eval(word)) {
            Ok(r) => r,
            Err(p) => return (None, Some(p)),
        };
        match post(&xs, &r, st) {
            Ok(()) => (Some(r), None),
            Err(p) => (Some(r), Some(p)),
        }
    }

    fn same(p: &Option<Pan>, q: &Pan) -> bool {
        match p {
            Some(p) => p.stage == q.stage && p.loc == q.loc,
            None => false,
        }
    }

    fn allowed(&self, w: usize, from_top: usize, v: usize) -> bool {
        let lim = SIZE_TABLE.iter().find(|(n, p, _)| *n == self.words[w] && *p == from_top).map(|x| x.2);
        match (lim, size_value(&self.vals[v])) {
            (Some(l), Some(x)) => x <= l,
            _ => true,
        }
    }

    /// canonical key of a panicking word case: drop arguments that do not matter, then
    /// generalise each remaining argument to "any" / its type / its class by probing
    fn word_key(&mut self, w: usize, s: usize, args: &[usize], pan: &Pan, out: &mut Out) -> (String, usize, Vec<usize>) {
        let mut st = Stats { calls: 0, counters: BTreeMap::new() };
        let again = self.run_word(w, s, args, &mut st).1;
        if !Self::same(&again, pan) {
            out.machinery(&format!("non-deterministic panic: word {} args {:?} start {}: first {:?}, second {:?}", self.words[w], args, s, pan, again));
        }
        if pan.stage != "eval" && pan.stage != "push_data" {
            // the defect is in a formatter: key by what was being formatted
            return (format!("panic:{}:{}", pan.stage, keyify(&pan.culprit)), s, args.to_vec());
        }
        let mut cur: Vec<usize> = args.to_vec();
        // canonical start state: the first one in which the case still panics the same way
        let mut s0 = s;
        for cand in 0..s {
            if cand == 4 {
                continue;
            }
            if Self::same(&self.run_word(w, cand, &cur, &mut st).1, pan) {
                s0 = cand;
                break;
            }
        }
        // drop the arguments that do not matter (removing one shifts the positions counted from the top)
        let full = cur.clone();
        cur = min_subseq(&full, true, |t| (0..t.len()).all(|p| self.allowed(w, t.len() - 1 - p, t[p])) && Self::same(&self.run_word(w, s0, t, &mut st).1, pan));
        // canonical representative: every argument replaced by the first value of the alphabet
        // (in its fixed order) that still panics at the same place, until nothing changes
        for _round in 0..3 {
            let mut changed = false;
            for j in 0..cur.len() {
                let from_top = cur.len() - 1 - j;
                for v in 0..cur[j] {
                    if !self.allowed(w, from_top, v) {
                        continue;
                    }
                    let mut t = cur.clone();
                    t[j] = v;
                    if Self::same(&self.run_word(w, s0, &t, &mut st).1, pan) {
                        cur = t;
                        changed = true;
                        break;
                    }
                }
            }
            if !changed {
                break;
            }
        }
        let mut labels = vec![];
        for j in 0..cur.len() {
            let from_top = cur.len() - 1 - j;
            let ty = self.vals[cur[j]].ty;
            let (mut all_ty, mut all_any) = (true, true);
            for v in 0..self.vals.len() {
                if v == cur[j] || !self.allowed(w, from_top, v) {
                    continue;
                }
                let same_ty = self.vals[v].ty == ty;
                if !all_any && !same_ty {
                    continue;
                }
                let mut t = cur.clone();
                t[j] = v;
                let hit = Self::same(&self.run_word(w, s0, &t, &mut st).1, pan);
                if !hit {
                    all_any = false;
                    if same_ty {
                        all_ty = false;
                    }
                }
                if !all_ty && !all_any {
                    break;
                }
            }
            labels.push(if all_any {
                "_".to_string()
            } else if all_ty {
                ty.to_string()
            } else {
                self.vals[cur[j]].cls.clone()
            });
        }
        let mut key = format!("panic:{}:{}", keyify(&self.words[w]), keyify(&labels.join(",")));
        if s0 != 0 {
            key.push('@');
            key.push_str(START_STATES[s0]);
        }
        (key, s0, cur)
    }

    fn case_words(&mut self, idx: u64, out: &mut Out) {
        let (w, s, args) = self.decode_word_case(idx);
        let (r, pan) = self.run_word(w, s, &args, &mut out.st);
        let wn = self.words[w].clone();
        if let Some(r) = &r {
            let o = outcome_name(r);
            bump(&mut out.st.counters, &format!("words:outcome:{}", o));
            if r.is_ok() {
                bump(&mut out.st.counters, &format!("word-ok:{}", wn));
            }
            if !is_trivial(r) {
                out.nontrivial += 1;
            }
        }
        bump(&mut out.st.counters, &format!("word-cases:{}", wn));
        if out.samples.len() < 3 && args.len() == 2 && r.as_ref().map(|r| r.is_ok()).unwrap_or(false) && mix(idx, 7) % 20011 == 0 {
            out.samples.push(format!("{} {}  @{} -> Ok", self.arg_names(&args), wn, START_STATES[s]));
        }
        if let Some(p) = pan {
            bump(&mut out.st.counters, "words:panics");
            // cache the (expensive) key computation per word / site / argument classes
            let ck = format!("{}|{}|{}|{}|{}|{}", w, s, p.stage, p.loc, p.culprit, args.iter().map(|a| self.vals[*a].cls.as_str()).collect::<Vec<_>>().join(","));
            let (key, s0, min_args) = match out.key_cache.get(&ck) {
                Some(k) => k.clone(),
                None => {
                    let k = self.word_key(w, s, &args, &p, out);
                    out.key_cache.insert(ck, k.clone());
                    k
                }
            };
            let weight = (min_args.len() as u64) * 1000 + min_args.iter().map(|a| *a as u64).sum::<u64>() + (s0 as u64) * 100;
            let src = format!("{} {}", self.arg_names(&min_args), wn);
            let rust: Vec<String> = min_args.iter().map(|a| format!("xs.push_data({}).unwrap();", self.vals[*a].rust)).collect();
            out.violation(
                &key,
                weight,
                &[
                    ("sweep", "words".into()),
                    ("word", wn.clone()),
                    ("start_state", START_STATES[s0].into()),
                    ("args_bottom_to_top", self.arg_names(&min_args)),
                    ("source_equivalent", src.trim().to_string()),
                    ("rust", format!("let mut xs = Xstate::boot().unwrap(); xeh::d2_plugin::load(&mut xs).unwrap(); /* start state {} */ {} let _ = xs.eval({:?}); /* then pretty_error(), format_cell(..) of the stack */", START_STATES[s0], rust.join(" "), wn)),
                    ("panicking_call", p.stage.clone()),
                    ("panic_message", p.msg.clone()),
                    ("panic_location", p.loc.clone()),
                    ("limits", format!("insn={} stack={} heap=+{}", INSN_LIMIT, STACK_LIMIT, HEAP_EXTRA)),
                    ("expected", "every call returns Ok or Err".into()),
                    ("observed", format!("panic in {} at {}: {}", p.stage, p.loc, p.msg)),
                    ("first_seen_as", format!("{} {} @{}", self.arg_names(&args), wn, START_STATES[s])),
                ],
            );
        }
    }

    fn arg_names(&self, a: &[usize]) -> String {
        a.iter().map(|i| self.vals[*i].name.as_str()).collect::<Vec<_>>().join(" ")
    }

    // ---------------------------------------------------------------- sweep 2
    /// mode 0: eval; 1: compile then run; 2: recording on, compile, next*, rnext*
    fn run_source(&self, src: &str, mode: usize, st: &mut Stats) -> (Option<Xresult>, Option<Pan>) {
        let mut xs = self.plain.clone();
        let mut last: Xresult;
        macro_rules! call {
            ($stage:expr, $e:expr) => {{
                st.calls += 1;
                match g($stage, || $e) {
                    Ok(r) => {
                        if let Err(p) = post(&xs, &r, st) {
                            return (Some(r), Some(p));
                        }
                        r
                    }
                    Err(p) => return (None, Some(p)),
                }
            }};
        }
        match mode {
            0 => {
                last = call!("eval", xs.eval(src));
            }
            1 => {
                let r = call!("compile", xs.compile(src));
                last = r;
                let r2 = call!("run", xs.run());
                if last.is_ok() {
                    last = r2;
                }
            }
            _ => {
                xs.set_recording_enabled(true);
                let r = call!("compile", xs.compile(src));
                last = r;
                // inside the stepping loops the formatting calls are made after a failing step
                // and after the last step of each direction
                macro_rules! step {
                    ($stage:expr, $e:expr) => {{
                        st.calls += 1;
                        match g($stage, || $e) {
                            Ok(r) => {
                                if r.is_err() {
                                    if let Err(p) = post(&xs, &r, st) {
                                        return (Some(r), Some(p));
                                    }
                                }
                                r
                            }
                            Err(p) => return (None, Some(p)),
                        }
                    }};
                }
                let mut n = 0;
                while xs.is_running() && n < STEP_CAP {
                    let r = step!("next", xs.next());
                    n += 1;
                    if r.is_err() {
                        if last.is_ok() {
                            last = r;
                        }
                        break;
                    }
                }
                if let Err(p) = post(&xs, &Ok(()), st) {
                    return (Some(last), Some(p));
                }
                let mut n = 0;
                while xs.ip() != 0 && n < STEP_CAP {
                    let r = step!("rnext", xs.rnext());
                    n += 1;
                    if r.is_err() {
                        break;
                    }
                }
                // one more reverse step at the origin and one forward step (idle / exhausted log)
                let _ = call!("rnext", xs.rnext());
                let _ = call!("next", xs.next());
            }
        }
        // crash-after-failure: the same interpreter must survive a trivial eval
        let _ = call!("eval-after", xs.eval("1"));
        (Some(last), None)
    }

    fn case_tokens(&mut self, idx: u64, out: &mut Out) {
        let mode = (idx % 3) as usize;
        let seq = decode_seq(idx / 3, self.toks.len() as u64, 0, self.tok_len);
        let src = self.src_toks(&seq);
        let (r, pan) = self.run_source(&src, mode, &mut out.st);
        if let Some(r) = &r {
            bump(&mut out.st.counters, &format!("tokens:outcome:{}", outcome_name(r)));
            if r.is_ok() && !seq.is_empty() {
                out.nontrivial += 1;
                if out.samples.len() < 4 && seq.len() >= 3 && idx % 1013 == 0 {
                    out.samples.push(format!("{}: {:?} -> Ok", MODES[mode], src));
                }
            }
        }
        for t in &seq {
            out.tok_used[*t] += 1;
        }
        if let Some(p) = pan {
            bump(&mut out.st.counters, "tokens:panics");
            let mut st = Stats { calls: 0, counters: BTreeMap::new() };
            let again = self.run_source(&src, mode, &mut st).1;
            if !Self::same(&again, &p) {
                out.machinery(&format!("non-deterministic panic: tokens {:?} mode {}: {:?} vs {:?}", src, mode, p, again));
            }
            // shrink: the smallest subsequence that still panics at the same place
            let cur = min_subseq(&seq, true, |t| self.run_source(&self.src_toks(t), mode, &mut st).1.map(|q| q.loc == p.loc).unwrap_or(false));
            let mut m0 = mode;
            for m in 0..mode {
                if self.run_source(&self.src_toks(&cur), m, &mut st).1.map(|q| q.loc == p.loc).unwrap_or(false) {
                    m0 = m;
                    break;
                }
            }
            let shown = self.show_toks(&cur).replace("<line-comment>", "<comment>").replace("<block-comment>", "<comment>");
            let key = if m0 == 0 { format!("panic:tokens:{}", keyify(&shown)) } else { format!("panic:tokens[{}]:{}", MODES[m0], keyify(&shown)) };
            let msrc = self.src_toks(&cur);
            out.violation(
                &key,
                cur.len() as u64 * 1000 + msrc.len() as u64 + m0 as u64,
                &[
                    ("sweep", "tokens".into()),
                    ("source", msrc.clone()),
                    ("drive", MODES[m0].into()),
                    ("panicking_call", p.stage.clone()),
                    ("panic_message", p.msg.clone()),
                    ("panic_location", p.loc.clone()),
                    ("rust", format!("let mut xs = Xstate::boot().unwrap(); let _ = xs.eval({:?});", msrc)),
                    ("expected", "every call returns Ok or Err".into()),
                    ("observed", format!("panic in {} at {}: {}", p.stage, p.loc, p.msg)),
                    ("first_seen_as", format!("{}: {:?}", MODES[mode], src)),
                ],
            );
        }
    }

    // ---------------------------------------------------------------- sweep 3
    fn case_text(&mut self, idx: u64, out: &mut Out) {
        let seq = decode_seq(idx, TEXT_SIGMA.len() as u64, 0, self.text_len);
        let src = self.text_of(&seq);
        let (r, pan) = self.run_source(&src, 0, &mut out.st);
        if let Some(r) = &r {
            bump(&mut out.st.counters, &format!("text:outcome:{}", outcome_name(r)));
            if !is_trivial(r) && !seq.is_empty() {
                out.nontrivial += 1;
            }
            if out.samples.len() < 6 && r.is_ok() && seq.len() >= 3 && idx % 4099 == 0 {
                out.samples.push(format!("eval {:?} -> Ok", src));
            }
        }
        if let Some(p) = pan {
            bump(&mut out.st.counters, "text:panics");
            let mut st = Stats { calls: 0, counters: BTreeMap::new() };
            let cur = min_subseq(&seq, true, |t| Self::same(&self.run_source(&self.text_of(t), 0, &mut st).1, &p));
            let msrc = self.text_of(&cur);
            out.violation(
                &format!("panic:text:{}", keyify(&msrc)),
                cur.len() as u64,
                &[
                    ("sweep", "text".into()),
                    ("source", msrc.clone()),
                    ("panicking_call", p.stage.clone()),
                    ("panic_message", p.msg.clone()),
                    ("panic_location", p.loc.clone()),
                    ("expected", "every call returns Ok or Err".into()),
                    ("observed", format!("panic in {} at {}: {}", p.stage, p.loc, p.msg)),
                    ("first_seen_as", format!("{:?}", src)),
                ],
            );
        }
    }

    // ---------------------------------------------------------------- sweep 4
    fn run_api(&self, alpha: &[ApiOp], seq: &[usize], st: &mut Stats) -> (u64, Option<Pan>) {
        let mut xs = self.plain.clone();
        let mut oks = 0;
        for (n, i) in seq.iter().enumerate() {
            let op = &alpha[*i];
            st.calls += 1;
            let stage = format!("#{} {}", n + 1, op.name);
            let r = g(&stage, || match op.kind {
                0 => xs.eval(op.src),
                1 => xs.compile(op.src),
                2 => xs.run(),
                3 => xs.next(),
                4 => xs.rnext(),
                5 => xs.set_insn_limit(Some(0)),
                6 => xs.set_stack_limit(Some(0)),
                7 => xs.set_heap_limit(Some(0)),
                8 => {
                    xs.set_recording_enabled(true);
                    Ok(())
                }
                12 => {
                    let mut r = Ok(());
                    for _ in 0..300 {
                        r = xs.rnext();
                        if r.is_err() {
                            break;
                        }
                    }
                    r
                }
                13 => {
                    let mut r = Ok(());
                    for _ in 0..300 {
                        if !xs.is_running() {
                            break;
                        }
                        r = xs.next();
                        if r.is_err() {
                            break;
                        }
                    }
                    r
                }
                _ => {
                    xs.set_recording_enabled(false);
                    Ok(())
                }
            });
            let r = match r {
                Ok(r) => r,
                Err(p) => return (oks, Some(p)),
            };
            if r.is_ok() {
                oks += 1;
            }
            if let Err(mut p) = post(&xs, &r, st) {
                p.stage = format!("#{} {} after {}", n + 1, p.stage, op.name);
                return (oks, Some(p));
            }
        }
        (oks, None)
    }

    fn case_api(&mut self, idx: u64, out: &mut Out) {
        let (alpha, used_off, seq) = self.api_decode(idx);
        let alpha = alpha.to_vec();
        let alpha = &alpha[..];
        let (oks, pan) = self.run_api(alpha, &seq, &mut out.st);
        bump(&mut out.st.counters, &format!("api:ok-calls-in-sequence:{}", oks));
        for t in &seq {
            out.op_used[used_off + *t] += 1;
        }
        if oks > 0 {
            out.nontrivial += 1;
        }
        if out.samples.len() < 8 && seq.len() == 3 && oks == 3 && idx % 211 == 0 {
            out.samples.push(format!("api: {} -> all Ok", Self::show_ops(alpha, &seq)));
        }
        if let Some(p) = pan {
            bump(&mut out.st.counters, "api:panics");
            let mut st = Stats { calls: 0, counters: BTreeMap::new() };
            let loc_same = |q: &Option<Pan>| q.as_ref().map(|q| q.loc == p.loc).unwrap_or(false);
            let cur = min_subseq(&seq, false, |t| loc_same(&self.run_api(alpha, t, &mut st).1));
            let show = Self::show_ops(alpha, &cur);
            out.violation(
                &format!("panic:api:{}", keyify(&show)),
                cur.len() as u64 * 1000 + show.len() as u64,
                &[
                    ("sweep", "api".into()),
                    ("calls", show.clone()),
                    ("panicking_call", p.stage.clone()),
                    ("panic_message", p.msg.clone()),
                    ("panic_location", p.loc.clone()),
                    ("start", format!("Xstate::boot(), limits insn={} stack={} heap=+{}", INSN_LIMIT, STACK_LIMIT, HEAP_EXTRA)),
                    ("expected", "every call returns Ok or Err".into()),
                    ("observed", format!("panic in {} at {}: {}", p.stage, p.loc, p.msg)),
                    ("first_seen_as", Self::show_ops(alpha, &seq)),
                ],
            );
        }
    }

    fn run_case(&mut self, sw: Sweep, idx: u64, out: &mut Out) {
        match sw {
            Sweep::Words => self.case_words(idx, out),
            Sweep::Tokens => self.case_tokens(idx, out),
            Sweep::Text => self.case_text(idx, out),
            Sweep::Api => self.case_api(idx, out),
        }
    }
}

/// smallest subsequence of `seq` (fewest elements, then earliest in subset order) for which
/// `hit` holds; `seq` itself is known to hit.  At most 2^len probes (len <= 6 here).
fn min_subseq(seq: &[usize], allow_empty: bool, mut hit: impl FnMut(&[usize]) -> bool) -> Vec<usize> {
    let n = seq.len();
    if n > 10 {
        return seq.to_vec();
    }
    for size in 0..n {
        if size == 0 && !allow_empty {
            continue;
        }
        for mask in 0u32..(1u32 << n) {
            if mask.count_ones() as usize != size {
                continue;
            }
            let t: Vec<usize> = (0..n).filter(|i| mask & (1 << i) != 0).map(|i| seq[i]).collect();
            if hit(&t) {
                return t;
            }
        }
    }
    seq.to_vec()
}

const MODES: [&str; 3] = ["eval", "compile+run", "compile+next*+rnext*"];

fn size_value(v: &Val) -> Option<i128> {
    // the integer a size parameter would see (tagged integers included)
    match v.cell.value() {
        Cell::Int(i) => Some(*i),
        _ => v.int,
    }
}

// ------------------------------------------------------------------------------------
// worker side
struct Out {
    file: std::fs::File,
    st: Stats,
    nontrivial: u64,
    samples: Vec<String>,
    key_cache: BTreeMap<String, (String, usize, Vec<usize>)>,
    tok_used: Vec<u64>,
    op_used: Vec<u64>,
    seen: BTreeMap<String, (u64, u64)>, // key -> (best weight written, cases not written)
}

fn esc(s: &str) -> String {
    s.replace('\\', "\\\\").replace('\t', "\\t").replace('\n', "\\n").replace('\r', "\\r")
}
fn unesc(s: &str) -> String {
    let mut o = String::new();
    let mut it = s.chars();
    while let Some(c) = it.next() {
        if c == '\\' {
            match it.next() {
                Some('t') => o.push('\t'),
                Some('n') => o.push('\n'),
                Some('r') => o.push('\r'),
                Some(x) => o.push(x),
                None => {}
            }
        } else {
            o.push(c);
        }
    }
    o
}

impl Out {
    fn line(&mut self, s: &str) {
        let mut b = Vec::with_capacity(s.len() + 1);
        b.extend_from_slice(s.as_bytes());
        b.push(b'\n');
        let _ = self.file.write_all(&b);
    }
    /// the first case of a key, and every lighter case after it, is written at once (so
    /// that it survives an abort of this worker); the others are only counted
    fn violation(&mut self, key: &str, weight: u64, fields: &[(&str, String)]) {
        match self.seen.get_mut(key) {
            Some(e) if weight >= e.0 => {
                e.1 += 1;
                return;
            }
            Some(e) => e.0 = weight,
            None => {
                self.seen.insert(key.to_string(), (weight, 0));
            }
        }
        let mut s = format!("V\t{}\t{}", esc(key), weight);
        for (k, v) in fields {
            s.push('\t');
            s.push_str(k);
            s.push('=');
            s.push_str(&esc(v));
        }
        self.line(&s);
    }
    fn machinery(&mut self, msg: &str) {
        self.line(&format!("M\t{}", esc(msg)));
    }
}

fn overflow_checks_on() -> bool {
    let x: u8 = std::hint::black_box(255);
    guarded(|| std::hint::black_box(x + std::hint::black_box(1))).is_err()
}

/// `xmc C08-worker <sweep> <part> <nparts> <tier> <journal-file> [<resume-from-case> [percase]]`
pub fn worker(args: &[String]) -> i32 {
    if args.len() < 5 {
        eprintln!("usage: xmc C08-worker <sweep> <part> <nparts> <tier> <journal> [<resume-from> [percase]]");
        return 3;
    }
    let sw = match Sweep::parse(&args[0]) {
        Some(s) => s,
        None => return 3,
    };
    let part: u64 = args[1].parse().unwrap_or(0);
    let nparts: u64 = args[2].parse().unwrap_or(1).max(1);
    let cfg = Cfg::from_env(Some(args[3].as_str()));
    let journal_path = &args[4];
    let resume: u64 = args.get(5).and_then(|s| s.parse().ok()).unwrap_or(0);
    // journal granularity: the start of every granule (cheap), or every case when the
    // driver re-runs a slice in which a worker died ("percase")
    let percase = args.get(6).map(|s| s == "percase").unwrap_or(false);
    let journal = match std::fs::OpenOptions::new().write(true).create(true).open(journal_path) {
        Ok(f) => f,
        Err(_) => return 3,
    };
    let _ = journal.write_at(&u64::MAX.to_le_bytes(), 0);
    let file = match std::fs::OpenOptions::new().append(true).create(true).open(format!("{}.out", journal_path)) {
        Ok(f) => f,
        Err(_) => return 3,
    };
    install_hook();
    let checks = overflow_checks_on();
    let mut ctx = Ctx::new(&cfg);
    let mut out = Out {
        file,
        st: Stats { calls: 0, counters: BTreeMap::new() },
        nontrivial: 0,
        samples: vec![],
        key_cache: BTreeMap::new(),
        tok_used: vec![0; ctx.toks.len()],
        op_used: vec![0; ctx.ops.len() + ctx.ops2.len()],
        seen: BTreeMap::new(),
    };
    out.line(&format!("P\toverflow_checks={}\tdebug_assertions={}\twords={}\ttotal={}", checks, cfg!(debug_assertions), ctx.words.len(), ctx.total(sw)));
    let total = ctx.total(sw);
    // self-test of the abort attribution: VERIF_C08_TEST_ABORT=<sweep>:<case index>[:<profile>]
    let test_abort: Option<u64> = std::env::var("VERIF_C08_TEST_ABORT").ok().and_then(|v| {
        let f: Vec<&str> = v.split(':').collect();
        let prof_ok = f.get(2).map(|p| (*p == "checked") == checks).unwrap_or(true);
        if f.first() == Some(&sw.name()) && prof_ok {
            f.get(1).and_then(|s| s.parse().ok())
        } else {
            None
        }
    });
    let mut ncases = 0u64;
    let mut gi = part;
    loop {
        let a = gi * GRANULE;
        if a >= total {
            break;
        }
        let b = (a + GRANULE).min(total);
        if b <= resume {
            gi += nparts;
            continue;
        }
        if !percase {
            let _ = journal.write_at(&a.max(resume).to_le_bytes(), 0);
        }
        for idx in a..b {
            if idx < resume {
                continue;
            }
            if percase {
                let _ = journal.write_at(&idx.to_le_bytes(), 0);
            }
            if test_abort == Some(idx) {
                std::process::abort();
            }
            ctx.run_case(sw, idx, &mut out);
            ncases += 1;
        }
        gi += nparts;
    }
    let _ = journal.write_at(&(u64::MAX - 1).to_le_bytes(), 0);
    let counters = std::mem::take(&mut out.st.counters);
    for (k, v) in &counters {
        out.line(&format!("C\t{}\t{}", esc(k), v));
    }
    for (i, n) in out.tok_used.clone().iter().enumerate() {
        if sw == Sweep::Tokens {
            out.line(&format!("C\ttok-used:{}\t{}", esc(&ctx.toks[i].show), n));
        }
    }
    for (i, n) in out.op_used.clone().iter().enumerate() {
        if sw == Sweep::Api {
            let o = if i < ctx.ops.len() { api_show(&ctx.ops[i]) } else { format!("debugger alphabet: {}", api_show(&ctx.ops2[i - ctx.ops.len()])) };
            out.line(&format!("C\top-used:{}\t{}", esc(&o), n));
        }
    }
    for (k, (_, n)) in out.seen.clone() {
        if n > 0 {
            out.line(&format!("N\t{}\t{}", esc(&k), n));
        }
    }
    for s in out.samples.clone() {
        out.line(&format!("S\t{}", esc(&s)));
    }
    let (calls, nt) = (out.st.calls, out.nontrivial);
    out.line(&format!("DONE\t{}\t{}\t{}", ncases, calls, nt));
    0
}

// ------------------------------------------------------------------------------------
// driver side
static SCRATCH: std::sync::Mutex<Option<PathBuf>> = std::sync::Mutex::new(None);
static CHILDREN: std::sync::Mutex<Vec<u32>> = std::sync::Mutex::new(Vec::new());

/// engine failure: stop the workers, remove the scratch files, exit 2 (never a verdict)
fn fail(msg: &str) -> ! {
    let pids: Vec<String> = CHILDREN.lock().map(|g| g.iter().map(|p| p.to_string()).collect()).unwrap_or_default();
    if !pids.is_empty() {
        let _ = std::process::Command::new("kill").arg("-9").args(&pids).stderr(std::process::Stdio::null()).status();
    }
    if let Ok(g) = SCRATCH.lock() {
        if let Some(d) = g.as_ref() {
            let _ = std::fs::remove_dir_all(d);
        }
    }
    machinery_error(msg)
}

fn crate_dir() -> PathBuf {
    if let Ok(exe) = std::env::current_exe() {
        // <crate>/target/<profile>/xmc
        if let Some(d) = exe.parent().and_then(|p| p.parent()).and_then(|p| p.parent()) {
            if d.join("Cargo.toml").exists() {
                return d.to_path_buf();
            }
        }
    }
    PathBuf::from(env!("CARGO_MANIFEST_DIR"))
}

struct Task {
    sweep: Sweep,
    profile: usize, // 0 checked, 1 unchecked
    part: u64,
    nparts: u64,
    resume: u64,
    percase: bool,
    pending_abort: Option<String>, // a worker died somewhere in a granule; the per-case re-run must find the case
    journal: PathBuf,
    respawns: u32,
}

struct Running {
    task: Task,
    started: Instant,
    child: std::process::Child,
    last_journal: u64,
    last_change: Instant,
}

const PROFILES: [&str; 2] = ["checked", "unchecked"];

fn read_journal(p: &Path) -> u64 {
    match std::fs::read(p) {
        Ok(b) if b.len() >= 8 => u64::from_le_bytes(b[..8].try_into().unwrap()),
        _ => u64::MAX,
    }
}

fn spawn(bin: &Path, t: &Task, tier: &str, have_sh: bool) -> std::process::Child {
    use std::process::{Command, Stdio};
    let wargs = [
        "C08-worker".to_string(),
        t.sweep.name().to_string(),
        t.part.to_string(),
        t.nparts.to_string(),
        tier.to_string(),
        t.journal.to_string_lossy().to_string(),
        t.resume.to_string(),
        (if t.percase { "percase" } else { "granule" }).to_string(),
    ];
    let mut cmd = if have_sh {
        // address-space cap: a runaway allocation becomes an attributable abort instead of
        // taking the machine down
        let mut c = Command::new("sh");
        c.arg("-c").arg("ulimit -v 4194304 2>/dev/null; exec \"$0\" \"$@\"").arg(bin);
        c
    } else {
        Command::new(bin)
    };
    cmd.args(wargs).stdin(Stdio::null()).stdout(Stdio::null()).stderr(Stdio::null());
    match cmd.spawn() {
        Ok(c) => c,
        Err(e) => fail(&format!("cannot spawn worker {}: {}", bin.display(), e)),
    }
}

#[derive(Default)]
struct Agg {
    cases: BTreeMap<(Sweep, usize), u64>,
    calls_total: u64,
    nontrivial: BTreeMap<(Sweep, usize), u64>,
    counters: [BTreeMap<String, u64>; 2],
    samples: Vec<String>,
    // key -> (checked n, unchecked n, location, message, smallest repro)
    key_table: BTreeMap<String, (u64, u64, String, String, String)>,
    key_weight: BTreeMap<String, u64>,
    checks_seen: [Option<bool>; 2],
}

fn harvest(agg: &mut Agg, ctx: &Ctx, t: &Task, finished_ok: bool, rep: &Reporter) {
    let txt = std::fs::read_to_string(format!("{}.out", t.journal.display())).unwrap_or_default();
    let _ = std::fs::remove_file(format!("{}.out", t.journal.display()));
    let mut done = false;
    for line in txt.lines() {
        let f: Vec<&str> = line.split('\t').collect();
        match f[0] {
            "P" => {
                let oc = f.get(1).map(|s| s.ends_with("true")).unwrap_or(false);
                agg.checks_seen[t.profile] = Some(oc);
                let w: usize = f.get(3).and_then(|s| s.strip_prefix("words=")).and_then(|s| s.parse().ok()).unwrap_or(0);
                let tot: u64 = f.get(4).and_then(|s| s.strip_prefix("total=")).and_then(|s| s.parse().ok()).unwrap_or(0);
                if w != ctx.words.len() || tot != ctx.total(t.sweep) {
                    fail(&format!(
                        "worker ({}) and driver disagree about the case space of sweep {}: {} words / {} cases vs {} / {}",
                        PROFILES[t.profile],
                        t.sweep.name(),
                        w,
                        tot,
                        ctx.words.len(),
                        ctx.total(t.sweep)
                    ));
                }
            }
            "M" => fail(&unesc(f.get(1).unwrap_or(&""))),
            "V" if f.len() >= 3 => {
                let key = unesc(f[1]);
                let w: u64 = f[2].parse().unwrap_or(u64::MAX / 4);
                let mut fields: Vec<(String, J)> = vec![("profile".to_string(), js(PROFILES[t.profile]))];
                let (mut loc, mut msg, mut repro) = (String::new(), String::new(), String::new());
                for kv in &f[3..] {
                    if let Some((k, v)) = kv.split_once('=') {
                        let v = unesc(v);
                        match k {
                            "panic_location" => loc = v.clone(),
                            "panic_message" => msg = v.clone(),
                            "source_equivalent" | "source" | "calls" => repro = v.clone(),
                            _ => {}
                        }
                        fields.push((k.to_string(), js(v)));
                    }
                }
                let e = agg.key_table.entry(key.clone()).or_insert((0, 0, loc.clone(), msg.clone(), repro.clone()));
                if t.profile == 0 {
                    e.0 += 1;
                } else {
                    e.1 += 1;
                }
                let kw = agg.key_weight.entry(key.clone()).or_insert(u64::MAX);
                if w < *kw {
                    *kw = w;
                    e.2 = loc;
                    e.3 = msg;
                    e.4 = repro;
                }
                rep.report_w(&key, w * 2 + t.profile as u64, || J::O(fields));
            }
            "N" if f.len() >= 3 => {
                let key = unesc(f[1]);
                let n: u64 = f[2].parse().unwrap_or(0);
                if let Some(e) = agg.key_table.get_mut(&key) {
                    if t.profile == 0 {
                        e.0 += n;
                    } else {
                        e.1 += n;
                    }
                }
                for _ in 0..n {
                    rep.report_w(&key, u64::MAX, || J::Null);
                }
            }
            "C" if f.len() >= 3 => {
                *agg.counters[t.profile].entry(unesc(f[1])).or_insert(0) += f[2].parse::<u64>().unwrap_or(0);
            }
            "S" if f.len() >= 2 => {
                if t.profile == 0 && agg.samples.len() < 400 {
                    agg.samples.push(unesc(f[1]));
                }
            }
            "DONE" if f.len() >= 4 => {
                done = true;
                *agg.cases.entry((t.sweep, t.profile)).or_insert(0) += f[1].parse::<u64>().unwrap_or(0);
                agg.calls_total += f[2].parse::<u64>().unwrap_or(0);
                *agg.nontrivial.entry((t.sweep, t.profile)).or_insert(0) += f[3].parse::<u64>().unwrap_or(0);
            }
            _ => {}
        }
    }
    if finished_ok && !done {
        fail(&format!("worker {} {} part {} exited 0 without a DONE record", t.sweep.name(), PROFILES[t.profile], t.part));
    }
}

pub fn run(cfg: &Cfg) -> i32 {
    let rep = Reporter::new("C08");
    let mut ev = Evidence::new("C08", cfg);
    let dir = crate_dir();
    // ---- (a) both binaries
    let t_build = Instant::now();
    let checked = dir.join("target/release/xmc");
    let unchecked = dir.join("target/unchecked/xmc");
    let st = std::process::Command::new("cargo")
        .args(["build", "--profile", "unchecked", "--offline", "-q"])
        .current_dir(&dir)
        .env("CARGO_NET_OFFLINE", "true")
        .output();
    match st {
        Ok(o) if o.status.success() => {}
        Ok(o) => fail(&format!("building profile unchecked failed: {}", truncate(&String::from_utf8_lossy(&o.stderr), 800))),
        Err(e) => fail(&format!("cannot run cargo: {}", e)),
    }
    if !checked.exists() {
        let o = std::process::Command::new("cargo").args(["build", "--release", "--offline", "-q"]).current_dir(&dir).env("CARGO_NET_OFFLINE", "true").output();
        if !o.map(|o| o.status.success()).unwrap_or(false) {
            fail("building profile release failed");
        }
    }
    if !checked.exists() || !unchecked.exists() {
        fail("worker binaries missing after build");
    }
    let build_s = t_build.elapsed().as_secs_f64();
    let bins = [checked, unchecked];
    let have_sh = Path::new("/bin/sh").exists();

    // ---- the case spaces (the driver decodes indices the same way the workers do)
    let ctx = Ctx::new(cfg);
    if ctx.words.len() < 100 || ctx.immediates.len() < 20 {
        fail(&format!("vacuous: dictionary has {} words / {} immediate words", ctx.words.len(), ctx.immediates.len()));
    }
    let scratch = std::env::temp_dir().join(format!("xmc-c08-{}", std::process::id()));
    let _ = std::fs::remove_dir_all(&scratch);
    if std::fs::create_dir_all(&scratch).is_err() {
        fail("cannot create scratch directory");
    }
    *SCRATCH.lock().unwrap() = Some(scratch.clone());
    let sweeps = [Sweep::Words, Sweep::Tokens, Sweep::Text, Sweep::Api];
    let only = std::env::var("VERIF_C08_ONLY").ok();
    let mut queue: Vec<Task> = vec![];
    for sw in sweeps {
        if let Some(o) = &only {
            if o != sw.name() {
                continue;
            }
        }
        let total = ctx.total(sw);
        let nparts = (total / (GRANULE * 8)).clamp(1, (cfg.threads as u64) * 2);
        for profile in 0..2 {
            for part in 0..nparts {
                queue.push(Task { sweep: sw, profile, part, nparts, resume: 0, percase: false, pending_abort: None, journal: scratch.join(format!("{}-{}-{}.j", sw.name(), PROFILES[profile], part)), respawns: 0 });
            }
        }
    }
    // biggest sweeps first
    queue.sort_by_key(|t| std::cmp::Reverse(ctx.total(t.sweep) / t.nparts));
    queue.reverse(); // pop() takes from the end
    let mut running: Vec<Running> = vec![];
    let mut agg = Agg::default();
    let mut aborts: Vec<J> = vec![];
    let mut lost_segments = 0u64;
    let mut worker_s = BTreeMap::<Sweep, f64>::new();
    let t_run = Instant::now();
    let stall = Duration::from_secs(300);

    loop {
        while running.len() < cfg.threads {
            match queue.pop() {
                Some(t) => {
                    let child = spawn(&bins[t.profile], &t, cfg.tier_name(), have_sh);
                    CHILDREN.lock().unwrap().push(child.id());
                    running.push(Running { task: t, started: Instant::now(), child, last_journal: u64::MAX, last_change: Instant::now() });
                }
                None => break,
            }
        }
        if running.is_empty() {
            break;
        }
        std::thread::sleep(Duration::from_millis(3));
        let mut i = 0;
        while i < running.len() {
            let status = match running[i].child.try_wait() {
                Ok(s) => s,
                Err(e) => fail(&format!("wait failed: {}", e)),
            };
            match status {
                None => {
                    if running[i].last_change.elapsed() > Duration::from_secs(5) {
                        let j = read_journal(&running[i].task.journal);
                        if j != running[i].last_journal {
                            running[i].last_journal = j;
                            running[i].last_change = Instant::now();
                        } else if running[i].last_change.elapsed() > stall {
                            let _ = running[i].child.kill();
                            let t = &running[i].task;
                            fail(&format!(
                                "worker stalled for {} s on sweep {} ({}) case {}: {}",
                                stall.as_secs(),
                                t.sweep.name(),
                                PROFILES[t.profile],
                                j,
                                if j < ctx.total(t.sweep) { ctx.describe(t.sweep, j) } else { "(no case)".into() }
                            ));
                        }
                    }
                    i += 1;
                }
                Some(st) => {
                    let r = running.swap_remove(i);
                    CHILDREN.lock().unwrap().retain(|p| *p != r.child.id());
                    *worker_s.entry(r.task.sweep).or_insert(0.0) += r.started.elapsed().as_secs_f64();
                    let mut t = r.task;
                    if st.success() {
                        harvest(&mut agg, &ctx, &t, true, &rep);
                        let _ = std::fs::remove_file(&t.journal);
                        if let Some(what) = &t.pending_abort {
                            fail(&format!("a worker died ({}) but the per-case re-run of its slice did not: not attributable to a case", what));
                        }
                    } else if !t.percase {
                        // died somewhere in the journalled granule: re-run from its start with a
                        // per-case journal so that the abort is attributed to one case
                        let j = read_journal(&t.journal);
                        harvest(&mut agg, &ctx, &t, false, &rep);
                        if j >= ctx.total(t.sweep) {
                            fail(&format!("worker {} {} part {} died ({:?}) outside a case (journal {})", t.sweep.name(), PROFILES[t.profile], t.part, st, j));
                        }
                        lost_segments += 1;
                        t.pending_abort = Some(format!("sweep {} ({}) granule at case {}: {:?}", t.sweep.name(), PROFILES[t.profile], j, st));
                        t.percase = true;
                        t.resume = j;
                        queue.push(t);
                    } else {
                        // abort: attribute to the journalled case, resume behind it
                        let j = read_journal(&t.journal);
                        harvest(&mut agg, &ctx, &t, false, &rep);
                        if j >= ctx.total(t.sweep) {
                            fail(&format!("worker {} {} part {} died ({:?}) outside a case (journal {})", t.sweep.name(), PROFILES[t.profile], t.part, st, j));
                        }
                        let what = ctx.describe(t.sweep, j);
                        let key = format!("abort:{}:{}", t.sweep.name(), keyify(&what));
                        let how = {
                            use std::os::unix::process::ExitStatusExt;
                            match st.signal() {
                                Some(s) => format!("killed by signal {}", s),
                                None => format!("exit status {:?}", st.code()),
                            }
                        };
                        let rec = jo(vec![
                            ("sweep", js(t.sweep.name())),
                            ("profile", js(PROFILES[t.profile])),
                            ("case_index", ji(j)),
                            ("case", js(what.clone())),
                            ("how", js(how.clone())),
                            ("rerun", js(format!("xmc C08-worker {} 0 1 {} /tmp/j {} percase   (the first case it runs)", t.sweep.name(), cfg.tier_name(), j))),
                            ("expected", js("every call returns Ok or Err")),
                            ("observed", js(format!("worker process died: {}", how))),
                        ]);
                        aborts.push(rec.clone());
                        let e = agg.key_table.entry(key.clone()).or_insert((0, 0, "(process abort)".into(), how.clone(), what.clone()));
                        if t.profile == 0 {
                            e.0 += 1;
                        } else {
                            e.1 += 1;
                        }
                        rep.report_w(&key, 1_000_000 + j.min(1 << 40), || rec);
                        lost_segments += 1;
                        t.pending_abort = None;
                        t.respawns += 1;
                        if t.respawns > 40 {
                            ev.cap(format!("sweep {} ({}) part {}: more than 40 aborts, rest of the slice not run", t.sweep.name(), PROFILES[t.profile], t.part));
                        } else {
                            t.resume = j + 1;
                            queue.push(t);
                        }
                    }
                }
            }
        }
    }
    let run_s = t_run.elapsed().as_secs_f64();
    let _ = std::fs::remove_dir_all(&scratch);

    // ---- sanity of the machinery itself
    if only.is_none() {
        if agg.checks_seen[0] != Some(true) {
            fail("the checked worker binary does not have overflow checks on");
        }
        if agg.checks_seen[1] != Some(false) {
            fail("the unchecked worker binary has overflow checks on");
        }
    }
    let mut per_sweep = vec![];
    let mut distinct = 0u64;
    let mut evaluations = 0u64;
    for sw in sweeps {
        if let Some(o) = &only {
            if o != sw.name() {
                continue;
            }
        }
        let total = ctx.total(sw);
        let c0 = agg.cases.get(&(sw, 0)).copied().unwrap_or(0);
        let c1 = agg.cases.get(&(sw, 1)).copied().unwrap_or(0);
        if lost_segments == 0 && ev.exhaustive && (c0 != total || c1 != total) {
            fail(&format!("sweep {}: {} cases expected, checked ran {}, unchecked ran {}", sw.name(), total, c0, c1));
        }
        distinct += total;
        evaluations += c0 + c1;
        per_sweep.push(jo(vec![
            ("sweep", js(sw.name())),
            ("distinct_cases", ji(total)),
            ("run_checked", ji(c0)),
            ("run_unchecked", ji(c1)),
            ("nontrivial_checked", ji(agg.nontrivial.get(&(sw, 0)).copied().unwrap_or(0))),
            ("worker_seconds_both_profiles", J::F(worker_s.get(&sw).copied().unwrap_or(0.0))),
        ]));
        println!("C08 sweep {}: {} cases x 2 profiles, {:.0} worker-seconds", sw.name(), total, worker_s.get(&sw).copied().unwrap_or(0.0));
    }
    // per word coverage: every swept word must have been run, in both profiles
    if std::env::var("VERIF_C08_DEBUG").is_ok() {
        eprintln!("counters: {} / {} entries; first: {:?}", agg.counters[0].len(), agg.counters[1].len(), agg.counters[0].iter().take(5).collect::<Vec<_>>());
    }
    let mut per_word = BTreeMap::<String, u64>::new();
    let mut words_ok = 0u64;
    if only.as_deref().map(|o| o == "words").unwrap_or(true) {
        for w in &ctx.words {
            let n0 = agg.counters[0].get(&format!("word-cases:{}", w)).copied().unwrap_or(0);
            let n1 = agg.counters[1].get(&format!("word-cases:{}", w)).copied().unwrap_or(0);
            if lost_segments == 0 && (n0 == 0 || n1 == 0) {
                fail(&format!("vacuous: word {} was never run (checked {}, unchecked {})", w, n0, n1));
            }
            per_word.insert(w.clone(), n0);
            if agg.counters[0].get(&format!("word-ok:{}", w)).copied().unwrap_or(0) > 0 {
                words_ok += 1;
            }
        }
        if lost_segments == 0 && words_ok * 2 < ctx.words.len() as u64 {
            fail(&format!("vacuous: only {} of {} words ever returned Ok", words_ok, ctx.words.len()));
        }
    }
    if only.as_deref().map(|o| o == "tokens").unwrap_or(true) && lost_segments == 0 {
        for t in &ctx.toks {
            if agg.counters[0].get(&format!("tok-used:{}", t.show)).copied().unwrap_or(0) == 0 {
                fail(&format!("vacuous: token {} never used", t.show));
            }
        }
        if agg.counters[0].get("tokens:outcome:Ok").copied().unwrap_or(0) == 0 {
            fail("vacuous: no token string evaluated without error");
        }
    }

    // ---- evidence
    ev.states = distinct;
    ev.evaluations = evaluations;
    ev.traces = evaluations;
    ev.transitions = agg.calls_total;
    ev.nontrivial = sweeps.iter().map(|s| agg.nontrivial.get(&(*s, 0)).copied().unwrap_or(0)).sum();
    ev.rule = "distinct cases (checked profile) whose primary call got past argument fetching: words sweep = result is neither StackUnderflow nor UnknownWord; token sweep = non-empty sequence that compiles and runs without error; text sweep = non-empty text whose result is neither of those two errors; api sweep = at least one call of the sequence returned Ok".into();
    agg.samples.sort();
    agg.samples.dedup();
    let step = (agg.samples.len() / 12).max(1);
    for s in agg.samples.iter().step_by(step) {
        ev.sample(js(s.clone()));
    }
    ev.add("profiles", J::A(vec![js("checked: opt-level 2, overflow-checks on, debug-assertions on"), js("unchecked: same, overflow-checks off, debug-assertions off")]));
    ev.add("build_unchecked_s", J::F(build_s));
    ev.add("exploration_s", J::F(run_s));
    ev.add("limits_every_case", js(format!("set_insn_limit(Some({})), set_stack_limit(Some({})), set_heap_limit(Some(current+{})), stdout and bit-string output intercepted", INSN_LIMIT, STACK_LIMIT, HEAP_EXTRA)));
    ev.add("sweeps", J::A(per_sweep));
    ev.add("words_swept", ji(ctx.words.len()));
    ev.add("words_returning_ok_at_least_once", ji(words_ok));
    ev.add("external_words_never_run", J::A(EXTERNAL.iter().map(|s| js(*s)).collect()));
    ev.add("exit_word", js("`exit` is run: inside the library it only pops an integer, sets a flag and returns Err(Exit)"));
    ev.add(
        "size_parameter_table",
        J::A(SIZE_TABLE.iter().map(|(w, p, m)| jo(vec![("word", js(*w)), ("position_from_top", ji(*p)), ("largest_integer_given", ji(*m))])).collect()),
    );
    ev.add("value_alphabet", J::A(ctx.vals.iter().map(|v| js(format!("{}{}  [{}]", truncate(&v.name, 40), if v.core { " (core)" } else { "" }, v.cls))).collect()));
    ev.add("start_states", J::A(vec![
        js("fresh: boot + d2 plugin"),
        js("in0: 20-byte binary input opened (set_binary_input)"),
        js("in3: the same after `3 seek`"),
        js("in8: the same after `8 seek`"),
        js("in0-big: the 20-byte input opened, then `big` (big-endian byte order selected)"),
        js("d2: after `3 2 d2-resize` (d2-* words only; those words get a freshly booted interpreter per case because clone shares the host object)"),
    ]));
    ev.add("argument_tuples", js(if cfg.quick() { "k=0..2 over the full alphabet, k=3 over the core values, in every start state" } else { "k=0..2 over the full alphabet in every start state; k=3 over the full alphabet in start states fresh, in3 and d2, over the core values in in0, in8 and in0-big" }));
    ev.add("token_alphabet", J::A(ctx.toks.iter().map(|t| js(t.show.clone())).collect()));
    ev.add("token_sequence_length", ji(ctx.tok_len));
    ev.add("token_drive_modes", J::A(MODES.iter().map(|m| js(*m)).collect()));
    ev.add("text_alphabet", js(TEXT_SIGMA.iter().map(|c| c.escape_debug().to_string()).collect::<Vec<_>>().join(" ")));
    ev.add("text_length", ji(ctx.text_len));
    ev.add("api_alphabet", J::A(ctx.ops.iter().map(|o| js(api_show(o))).collect()));
    ev.add("api_sequence_length", ji(ctx.api_len));
    ev.add("api_debugger_alphabet", J::A(ctx.ops2.iter().map(|o| js(api_show(o))).collect()));
    ev.add("api_debugger_sequence_length", ji(ctx.api_len2));
    ev.add("cases_per_word_checked", jmap(&per_word));
    let mut oc = BTreeMap::<String, u64>::new();
    for (k, v) in &agg.counters[0] {
        if k.contains(":outcome:") || k.ends_with(":panics") || k.starts_with("api:ok-calls") {
            oc.insert(format!("checked:{}", k), *v);
        }
    }
    for (k, v) in &agg.counters[1] {
        if k.ends_with(":panics") {
            oc.insert(format!("unchecked:{}", k), *v);
        }
    }
    ev.add("outcome_classes", jmap(&oc));
    ev.add(
        "panic_keys",
        J::A(agg.key_table
            .iter()
            .map(|(k, (a, b, loc, msg, repro))| jo(vec![("key", js(k.clone())), ("cases_checked", ji(*a)), ("cases_unchecked", ji(*b)), ("location", js(loc.clone())), ("message", js(truncate(msg, 200))), ("smallest", js(truncate(repro, 300)))]))
            .collect()),
    );
    ev.add("aborts", J::A(aborts));
    if lost_segments > 0 {
        ev.add("note", js(format!("{} worker segments ended in an abort; the counters of those segments are incomplete", lost_segments)));
    }
    ev.assumptions = vec![
        "allocation sizes are modest: the positions of size_parameter_table get integers <= the stated bound; every other position gets the whole alphabet".into(),
        "instruction, stack and heap limits are set in every case (the property's proviso)".into(),
        "external / non-deterministic words (list above) are not executed".into(),
        "a worker that stops making progress for 300 s is reported as MACHINERY-ERROR naming the case, not as a verdict".into(),
    ];
    for (k, (a, b, loc, msg, repro)) in &agg.key_table {
        println!("C08 finding {}  checked={} unchecked={}  at {}  [{}]  smallest: {}", k, a, b, loc, truncate(msg, 80), truncate(repro, 120));
    }
    println!("C08: build(unchecked) {:.1}s, exploration {:.1}s, {} distinct cases x 2 profiles", build_s, run_s, distinct);
    conclude(&ev, &rep)
}
