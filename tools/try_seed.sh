#!/bin/sh
# tools/try_seed.sh <property id> <seed dir> [tier] [check id (default = property id)]
# 1. in a scratch worktree: patch applies, the 144 repo tests pass, the demo fails with the patch and
#    passes without; 2. applies the patch to /repo, runs the check (evidence redirected), undoes it;
# 3. records everything under /verif/seeded/<id>-<seed>/ (patch.diff, demo.rs, meta.txt, meta.json)
id=$1; sd=$2; tier=${3:-quick}; chk=${4:-$id}
name=${5:-$(basename $sd)}
if [ -n "$SKIP_VERIFY" ] && [ -f /verif/seeded/$id-$name/meta.json ]; then
# already verified in a scratch worktree: reuse the recorded verdicts, only re-run the check
eval $(python3 -c "
import json;v=json.load(open('/verif/seeded/$id-$name/meta.json'))['verified_in_scratch_worktree']
print('a=%s b=%s c=%s d=%s'%(v['demo_passes_without_patch'],v['patch_applies_to_HEAD'],v['demo_fails_with_patch'],v['repo_suite_144_passes_with_patch']))")
else
wt=/tmp/seedcheck-$$
git -C /repo worktree add -q $wt HEAD || exit 2
cd $wt
mkdir -p tests
cp $sd/demo.rs tests/demo.rs
if cargo test --offline --test demo >/dev/null 2>&1; then a=yes; else a=NO; fi
if git apply $sd/patch.diff 2>/dev/null; then b=yes; else b=NO; fi
if cargo test --offline --test demo >/dev/null 2>&1; then c=NO; else c=yes; fi
rm -f tests/demo.rs
if cargo test --offline --lib 2>&1 | grep -q "144 passed; 0 failed"; then d=yes; else d=NO; fi
cd /; git -C /repo worktree remove --force $wt
fi
echo "SEED $id $name: demo-passes-without-patch=$a applies=$b demo-fails-with-patch=$c suite-passes=$d"
git -C /repo apply $sd/patch.diff || { echo "cannot apply to /repo"; exit 2; }
rm -rf /tmp/seedrun; mkdir -p /tmp/seedrun
out=$(XMC_OUT=/tmp/seedrun /verif/check $chk $tier 2>&1); code=$?
git -C /repo checkout -- .
echo "CHECK $chk $tier exit=$code"
echo "$out" | grep -E "^(VIOLATION|MACHINERY|  key=)" | cut -c1-300 | head -6
dst=/verif/seeded/$id-$name
mkdir -p $dst
cp $sd/patch.diff $sd/demo.rs $dst/
[ -f $sd/meta.txt ] && cp $sd/meta.txt $dst/
echo "$out" | grep -E "^(VIOLATION|MACHINERY|  key=)" | cut -c1-500 > /tmp/seedrun/out.txt
python3 - "$id" "$name" "$chk" "$tier" "$code" "$a" "$b" "$c" "$d" "$dst" <<'PY' 
import sys, json, re, os
id, name, chk, tier, code, a, b, c, d, dst = sys.argv[1:]
out = open("/tmp/seedrun/out.txt").read()
keys = re.findall(r"key=(\S+) cases=(\d+)", out)
mp = os.path.join(dst, 'meta.json')
m = json.load(open(mp)) if os.path.exists(mp) else {}
m.update({'property': id, 'seed': name,
  'needs_to_manifest': open(os.path.join(dst,'meta.txt')).read() if os.path.exists(os.path.join(dst,'meta.txt')) else '',
  'verified_in_scratch_worktree': {'demo_passes_without_patch': a, 'patch_applies_to_HEAD': b, 'demo_fails_with_patch': c, 'repo_suite_144_passes_with_patch': d}})
runs = m.get('check_runs', [])
runs = [r for r in runs if not (r['check']==chk and r['tier']==tier)]
runs.append({'check': chk, 'tier': tier, 'exit': int(code), 'detected': code=='1', 'keys': [{'key':k,'cases':int(n)} for k,n in keys]})
m['check_runs'] = runs
json.dump(m, open(mp,'w'), indent=1)
PY
