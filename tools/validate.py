#!/usr/bin/env python3-vt
# validates MANIFEST.json and every evidence file against the given schemas
import json, sys, glob, jsonschema
ok = True
m = json.load(open('/verif/MANIFEST.json'))
jsonschema.validate(m, json.load(open('/root/.vp/MANIFEST.schema.json')))
print('MANIFEST ok:', len(m['checks']), 'checks,', len(m.get('not_applicable', [])), 'not applicable')
es = json.load(open('/root/.vp/EVIDENCE.schema.json'))
for c in m['checks']:
    f = c['evidence_file']
    try:
        e = json.load(open(f))
        jsonschema.validate(e, es)
        cov = e['coverage']
        print(f"{c['property_id']} {e['tier']:8} states={cov.get('states')} transitions={cov.get('transitions')} nontrivial={cov.get('distinct_nontrivial')} exhaustive={cov.get('exhaustive')} wall={e['wall_s']}")
    except Exception as ex:
        ok = False
        print('EVIDENCE PROBLEM', f, str(ex)[:300])
sys.exit(0 if ok else 1)
