// C11 — meta-evaluation is sealed and equivalent to inlining its result.
// (1) all constant expressions e up to a node bound x contexts C[.]: C[`#( e #)`] vs
//     C[literal values of e, last result first]   (differential on the real interpreter);
// (2) sealing: every block body over a probing alphabet under every outer stack depth and an
//     outer variable: the body behaves as on an empty stack, variable access is refused, the
//     outer stack and variable are intact afterwards;
// (3) after a block only constants remain: dictionary delta, equal code growth for blocks of
//     equal value;
// (4) compile is pure: compiling any corpus program changes neither stack nor variables.
use crate::cf::*;
use crate::common::*;
use crate::corpus;
use std::collections::{BTreeMap, HashMap};
use std::sync::atomic::{AtomicU64, Ordering};
use std::sync::Mutex;
use xeh::prelude::*;

fn p(s: &'static str) -> N {
    N::Prim(s)
}

fn expr_grammar(quick: bool) -> Grammar {
    Grammar {
        atoms: if quick {
            vec![N::Int(1), N::Int(2), p("+"), p("*"), p("dup"), p("swap"), p("drop"), p("\"s\""), N::Flag(true), p("^hex"), p("k")]
        } else {
            vec![N::Int(1), N::Int(2), N::Int(3), p("+"), p("*"), p("-"), p("dup"), p("swap"), p("drop"), p("over"), p("\"s\""), N::Flag(true), N::Flag(false), N::Nil, p("^hex"), p("7 \"t\" insert-tag"), p("k")]
        },
        if_: true,
        if_else: !quick,
        case_arms: 0,
        until: false,
        while_: false,
        repeat: false,
        do_: false,
        do_ranges: vec![],
        defs: vec!["t"],
        locals: vec![],
        vars: vec![],
        index_words: false,
        breaks: false,
        max_depth: 3,
        wraps: vec![("[", "]", false), ("#(", "#)", false)],
    }
}

/// A nested meta block that sits directly in the statement list of its parent block runs
/// eagerly on the parent's stack (pinned by the suite): there `#( b #)` means `b`. A nested
/// block inside a definition, builder or branch of the parent is an ordinary block again
/// (the parent is collecting code) and is kept.
fn flatten(v: &[N]) -> Vec<N> {
    let mut out = vec![];
    for n in v {
        match n {
            N::Wrap("#(", b, _) => out.extend(flatten(b)),
            other => out.push(other.clone()),
        }
    }
    out
}

/// histories before the compile-purity / eval-vs-compile+run comparison: (style, source), style 0 = eval
const PURE_STARTS: [&[(u8, &str)]; 5] = [
    &[],
    &[(0, "[ ] 0 get 5")],
    &[(0, "[ ] 0 get 5"), (0, "1 foo")],
    &[(0, "#( 1 0 / #) 2")],
    &[(1, "7 0 / 5"), (1, "foo")],
];

fn literal(c: &Cell) -> Option<String> {
    match c {
        Cell::Int(i) => Some(i.to_string()),
        Cell::Flag(b) => Some(b.to_string()),
        Cell::Nil => Some("nil".into()),
        Cell::Str(s) if s.chars().all(|c| c.is_ascii_alphanumeric()) => Some(format!("\"{}\"", s)),
        Cell::Vector(v) => {
            let mut s = String::from("[ ");
            for x in v.iter() {
                s.push_str(&literal(x)?);
                s.push(' ');
            }
            s.push(']');
            Some(s)
        }
        _ => None,
    }
}

struct Obs {
    kind: String,
    stack: Vec<String>,
    heap: String,
    out: String,
}
fn observe(base: &Xstate, src: &str) -> Result<Obs, String> {
    let mut xs = base.clone();
    watch::note(AsRef::<str>::as_ref(&src));
    let r = guarded(|| xs.eval(src))?;
    let d = xs.verif_dump_light();
    Ok(Obs { kind: res_kind(&r), stack: stack_of(&xs), heap: dump_get(&d, "heap").to_string(), out: xs.read_stdout().unwrap_or_default() })
}

// contexts: (name, prefix, suffix, needs exactly one value, the hole is already inside a meta block)
const CONTEXTS: [(&str, &str, &str, bool); 18] = [
    ("tag-builder", "7 ^{", "\"k\" ^} tags", true),
    ("outer-meta-tag-builder", "#( 7 ^{", "\"k\" ^} #) tags", true),
    ("outer-meta-map", "#( {", "\"k\" } #)", true),
    ("outer-meta-definition", "#( : w", "; w #)", false),
    ("outer-meta-branch", "#( true if", "then #)", false),
    ("outer-meta-values-below", "#( 5 6 : w", "; w - - #)", true),
    ("top", "", "", false),
    ("stack-neighbours", "7", "8", false),
    ("vector", "[", "]", false),
    ("map-value", "{", "\"k\" }", true),
    ("definition", ": w", "; w", false),
    ("branch-in-definition", ": w true if", "then ; w w", false),
    ("loop-body", "3 0 do", "drop loop", true),
    ("outer-meta", "#(", "#)", false),
    ("outer-meta-vector", "#( [", "] #)", false),
    ("variable", "", "var x x x", true),
    ("after-definition", ": q 5 ; q", "q", false),
    ("definition-with-local-named-like-a-constant", ": w local k [", "] k ; 3 w", false),
];

pub fn run(cfg: &Cfg) -> i32 {
    let rep = Reporter::new("C11");
    let mut ev = Evidence::new("C11", cfg);
    let quick = cfg.quick();
    let gr = expr_grammar(quick);
    let maxn = if quick { 4 } else { 5 };
    let n_expr = AtomicU64::new(0);
    let n_expr_ok = AtomicU64::new(0);
    let n_cmp = AtomicU64::new(0);
    let n_evals = AtomicU64::new(0);
    let stats = Counters::new();
    // value list -> set of code growths observed for `#( e #)` (3)
    let growth: Mutex<HashMap<String, BTreeMap<i64, String>>> = Mutex::new(HashMap::new());

    let mut tasks_all: Vec<Task> = vec![];
    for s in 1..=maxn {
        tasks_all.extend(tasks(&gr, s, 2, &G::top()));
    }
    par_run(cfg.threads, tasks_all.len(), 1, |_t, pull| {
        let base = {
            let mut xs = boot();
            xs.eval("#( 5 const k #)").unwrap();
            let _ = xs.set_insn_limit(Some(5000));
            xs
        };
        let base_dump = base.verif_dump();
        let base_dict_len: usize = dump_get(&base_dump, "dict_len").parse().unwrap();
        let base_code_len: i64 = dump_get(&base_dump, "code_len").parse().unwrap();
        let mut local: BTreeMap<String, u64> = BTreeMap::new();
        while let Some(r) = pull() {
            for ti in r {
                run_task(&gr, &tasks_all[ti], &mut |prog, _| {
                    n_expr.fetch_add(1, Ordering::Relaxed);
                    let e_src = source(prog);
                    let flat_src = source(&flatten(prog));
                    // value of e: ordinary evaluation of the flattened expression in a fresh interpreter
                    let mut fx = base.clone();
                    n_evals.fetch_add(1, Ordering::Relaxed);
                    watch::note(AsRef::<str>::as_ref(&flat_src));
                    match guarded(|| fx.eval(&flat_src)) {
                        Ok(Ok(())) => {}
                        _ => {
                            bump(&mut local, "expr:fails-standalone(skipped)");
                            return;
                        }
                    }
                    let vals: Vec<Cell> = (0..fx.data_depth()).rev().map(|i| fx.get_data(i).unwrap().clone()).collect();
                    let lits: Option<Vec<String>> = vals.iter().map(literal).collect();
                    let lits = match lits {
                        Some(l) => l,
                        None => {
                            // e.g. a tagged value: no literal spelling. A single-valued expression can
                            // still be inlined as code: C[#( e #)] must equal C[e]
                            if vals.len() != 1 {
                                bump(&mut local, "expr:value-not-printable(skipped)");
                                return;
                            }
                            bump(&mut local, "expr:inlined-as-code");
                            // the constant k is 5: spell it out, the context may bind the name k otherwise
                            vec![flat_src.split(' ').map(|w| if w == "k" { "5" } else { w }).collect::<Vec<_>>().join(" ").trim().to_string()]
                        }
                    };
                    n_expr_ok.fetch_add(1, Ordering::Relaxed);
                    bump(&mut local, &format!("expr:values={}", lits.len().min(4)));
                    // last result first
                    let inlined = lits.iter().rev().cloned().collect::<Vec<_>>().join(" ");
                    let block = format!("#( {}#)", e_src);
                    for (cname, pre, suf, one) in CONTEXTS.iter() {
                        if *one && lits.len() != 1 {
                            continue;
                        }
                        // inside an outer meta block the inner block's values stay in place (shared stack)
                        let inl = if *cname == "outer-meta" { lits.join(" ") } else { inlined.clone() };
                        let a_src = format!("{} {} {}", pre, block, suf);
                        let b_src = format!("{} {} {}", pre, inl, suf);
                        n_evals.fetch_add(2, Ordering::Relaxed);
                        n_cmp.fetch_add(1, Ordering::Relaxed);
                        let (a, b) = match (observe(&base, &a_src), observe(&base, &b_src)) {
                            (Ok(a), Ok(b)) => (a, b),
                            _ => {
                                rep.report_w(&format!("panic:{}", cname), a_src.len() as u64, || jo(vec![("with_block", js(a_src.clone()))]));
                                continue;
                            }
                        };
                        if a.kind != b.kind || a.stack != b.stack || a.heap != b.heap || a.out != b.out {
                            let what = if a.kind != b.kind { "result" } else if a.stack != b.stack { "stack" } else if a.heap != b.heap { "variables" } else { "output" };
                            rep.report_w(&format!("inline-differs:{}:{}", cname, what), a_src.len() as u64, || {
                                jo(vec![
                                    ("kind", js("meta-vs-inlined")),
                                    ("with_block", js(a_src.clone())),
                                    ("inlined", js(b_src.clone())),
                                    ("block_gives", js(format!("{} stack={:?} out={:?}", a.kind, a.stack, a.out))),
                                    ("inlined_gives", js(format!("{} stack={:?} out={:?}", b.kind, b.stack, b.out))),
                                ])
                            });
                        }
                    }
                    // (3) what remains after the block: only constants in the dictionary; code growth
                    let mut xs = base.clone();
                    n_evals.fetch_add(1, Ordering::Relaxed);
                    if std::env::var("C11_DEBUG").is_ok() {
                        eprintln!("compile {}", block);
                    }
                    watch::note(AsRef::<str>::as_ref(&block));
                    if let Ok(Ok(())) = guarded(|| xs.compile(&block)) {
                        let d = xs.verif_dump();
                        let dict_len: usize = dump_get(&d, "dict_len").parse().unwrap();
                        if dict_len != base_dict_len {
                            rep.report_w("remains:dictionary-entry", block.len() as u64, || jo(vec![("source", js(block.clone())), ("dict_before", ji(base_dict_len)), ("dict_after", ji(dict_len))]));
                        }
                        let delta = dump_get(&d, "code_len").parse::<i64>().unwrap() - base_code_len;
                        let mut g = growth.lock().unwrap();
                        let e = g.entry(inlined.clone()).or_insert_with(BTreeMap::new);
                        e.entry(delta).or_insert_with(|| block.clone());
                    }
                });
            }
        }
        stats.merge(&local);
    });
    // blocks of equal value must leave the same amount of code
    let g = growth.into_inner().unwrap();
    let mut groups = 0u64;
    for (val, deltas) in &g {
        groups += 1;
        if deltas.len() > 1 {
            let v: Vec<String> = deltas.iter().map(|(d, s)| format!("{} instructions after `{}`", d, s)).collect();
            rep.report_w("remains:code", val.len() as u64, || jo(vec![("kind", js("code-growth")), ("value", js(val.clone())), ("observed", J::A(v.iter().map(|s| js(s.clone())).collect()))]));
        }
    }

    // ---------------- constants: `#( e const c #) ... c ...` equals `... v ...`; words and variables do not survive
    let mut n_const = 0u64;
    {
        let base = boot();
        let exprs = ["5", "2 3 +", ": t 4 ; t", "[ 1 2 ]", "\"s\"", "#( 6 #)", "1 2 swap drop"];
        let uses = ["c", "c c +", ": u c ; u", "[ c ]", "3 0 do c drop loop c", "#( c #)", "#( c const d #) d"];
        for e in exprs {
            let mut fx = base.clone();
            fx.eval(e).unwrap();
            let v = literal(fx.get_data(0).unwrap()).unwrap();
            for u in uses {
                let a_src = format!("#( {} const c #) {}", e, u);
                let b_src = u.replace("c const d", "\u{1}").replace('c', &v).replace('\u{1}', &format!("{} const d", v));
                n_const += 1;
                match (observe(&base, &a_src), observe(&base, &b_src)) {
                    (Ok(a), Ok(b)) => {
                        if a.kind != b.kind || a.stack != b.stack || a.out != b.out {
                            rep.report_w("const-differs", a_src.len() as u64, || {
                                jo(vec![("with_const", js(a_src.clone())), ("inlined", js(b_src.clone())), ("const_gives", js(format!("{} {:?}", a.kind, a.stack))), ("inlined_gives", js(format!("{} {:?}", b.kind, b.stack)))])
                            });
                        }
                    }
                    _ => rep.report_w("panic:const", 0, || jo(vec![("source", js(a_src.clone()))])),
                }
            }
            // several definitions in one block, in every order: words (purged when the block closes)
            // before / between / after constants, a constant defined twice: every constant name
            // means its latest value afterwards, and no word survives
            {
                let items: [&str; 4] = [": h 1 ;", "7 const c", &format!("{} const c", e), "8 const d"];
                let mut perm: Vec<usize> = (0..items.len()).collect();
                // all 24 orders (Heap's algorithm, iterative)
                let mut orders: Vec<Vec<usize>> = vec![perm.clone()];
                let mut cstack = vec![0usize; items.len()];
                let mut i = 0;
                while i < items.len() {
                    if cstack[i] < i {
                        if i % 2 == 0 { perm.swap(0, i) } else { perm.swap(cstack[i], i) }
                        orders.push(perm.clone());
                        cstack[i] += 1;
                        i = 0;
                    } else {
                        cstack[i] = 0;
                        i += 1;
                    }
                }
                for o in orders {
                    let body: Vec<&str> = o.iter().map(|k| items[*k]).collect();
                    let last_c = if o.iter().position(|k| *k == 1) > o.iter().position(|k| *k == 2) { "7".to_string() } else { v.clone() };
                    let a_src = format!("#( {} #) c d", body.join(" "));
                    let b_src = format!("{} 8", last_c);
                    n_const += 1;
                    match (observe(&base, &a_src), observe(&base, &b_src)) {
                        (Ok(a), Ok(b)) => {
                            if a.kind != b.kind || a.stack != b.stack {
                                rep.report_w("const-differs:several-definitions", a_src.len() as u64, || {
                                    jo(vec![("with_const", js(a_src.clone())), ("inlined", js(b_src.clone())), ("const_gives", js(format!("{} {:?}", a.kind, a.stack))), ("inlined_gives", js(format!("{} {:?}", b.kind, b.stack)))])
                                });
                            }
                        }
                        _ => rep.report_w("panic:const", 0, || jo(vec![("source", js(a_src.clone()))])),
                    }
                    let mut xs = base.clone();
                    let before = xs.word_list().len();
                    let _ = guarded(|| xs.eval(&format!("#( {} #)", body.join(" "))));
                    let names: Vec<String> = xs.word_list().iter().skip(before).map(|s| s.to_string()).collect();
                    if names.iter().any(|n| n != "c" && n != "d") {
                        rep.report_w("remains:word", 1, || jo(vec![("source", js(format!("#( {} #)", body.join(" ")))), ("new_words", js(format!("{:?}", names)))]));
                    }
                }
            }
            // a constant defined again (in a later block) with a value that is equal but carries other tags
            // means the later value: `c` is what was written last, tags included
            for (first, second) in [("255", "255 ^hex"), ("255 ^hex", "255"), ("[ 1 2 ]", "[ 1 2 ] 7 \"t\" insert-tag"), ("\"s\"", "\"s\" 1 \"n\" insert-tag")] {
                let a_src = format!("#( {} const c #) #( {} const c #) c", first, second);
                let b_src = second.to_string();
                n_const += 1;
                let run = |src: &str| -> Option<String> {
                    let mut xs = base.clone();
                    match guarded(|| xs.eval(src)) {
                        Ok(Ok(())) => xs.get_data(0).map(render),
                        _ => None,
                    }
                };
                let (a, b) = (run(&a_src), run(&b_src));
                if a != b || a.is_none() {
                    rep.report_w("const-differs:redefined-with-other-tags", a_src.len() as u64, || jo(vec![("with_const", js(a_src.clone())), ("inlined", js(b_src.clone())), ("const_gives", js(format!("{:?}", a))), ("inlined_gives", js(format!("{:?}", b)))]));
                }
            }
            // after the block: the constant exists, the helper word does not
            let mut xs = base.clone();
            let before: Vec<String> = xs.word_list().iter().map(|s| s.to_string()).collect();
            xs.eval(&format!("#( : helper 1 ; {} const c helper drop #)", e)).unwrap();
            let after: Vec<String> = xs.word_list().iter().map(|s| s.to_string()).collect();
            let new: Vec<&String> = after.iter().filter(|w| !before.contains(w)).collect();
            n_const += 1;
            if new.len() != 1 || new[0] != "c" || after.len() != before.len() + 1 {
                rep.report_w("remains:word", 0, || jo(vec![("source", js(format!("#( : helper 1 ; {} const c helper drop #)", e))), ("new_words", js(format!("{:?}", new)))]));
            }
        }
    }

    // ---------------- (2) sealing
    let seal_alpha: Vec<&str> = if quick {
        vec!["depth", "drop", "dup", "swap", "over", "rot", "1", "g", "5 ! g", "2 var x", "+", "258 u16!", "d2-width"]
    } else {
        vec!["depth", "drop", "dup", "swap", "over", "rot", "1", "2", "g", "5 ! g", "2 var x", "+", "[ ]", "\"s\"", "1 let y", "258 u16!", "remain", "d2-width", "7 9 d2-resize"]
    };
    // words of the parsing module and of the canvas plugin read (and write) variables / a host object
    let touches_vars = |b: &str| b.split(' ').any(|w| w == "g" || w == "!" || w == "var" || w == "let" || w == "u16!" || w == "remain" || w.starts_with("d2-"));
    let seal_len = if quick { 3 } else { 4 };
    let mut bodies: Vec<Vec<&str>> = vec![vec![]];
    let mut all_bodies: Vec<Vec<&str>> = vec![vec![]];
    for _ in 0..seal_len {
        let mut nx = vec![];
        for b in &bodies {
            for a in &seal_alpha {
                let mut b2 = b.clone();
                b2.push(*a);
                nx.push(b2);
            }
        }
        all_bodies.extend(nx.iter().cloned());
        bodies = nx;
    }
    // bodies that call a late-bound word of the surrounding program and give it a block-local meaning
    for b in [vec![": q 5 ;", "u"], vec![": q 5 ;", "u", "u"], vec!["1", ": q 5 ;", "u", "+"]] {
        all_bodies.push(b);
    }
    // the surrounding program: a late-bound word `q` with a caller `u`; `q` not defined yet, or defined before the block
    const OUTERS: [&str; 2] = ["33 var g late q : u q ;", "33 var g late q : u q ; : q 4 ;"];
    for b in [vec!["u"], vec!["u", "u", "+"]] {
        all_bodies.push(b);
    }
    let n_seal = AtomicU64::new(0);
    let seal_classes = Counters::new();
    par_run(cfg.threads, all_bodies.len(), 16, |_t, pull| {
        let base0 = {
            let mut xs = boot();
            let _ = xeh::d2_plugin::load(&mut xs);
            let _ = xs.set_insn_limit(Some(5000));
            xs
        };
        let mut local: BTreeMap<String, u64> = BTreeMap::new();
        while let Some(r) = pull() {
            for bi in r {
                let body = all_bodies[bi].join(" ");
                for outer in OUTERS {
                if outer == OUTERS[1] && !body.split(' ').any(|w| w == "u") {
                    continue; // the second surrounding program only matters to bodies that call the late-bound word
                }
                // the model: the body runs on an empty stack and may not touch variables
                let standalone = {
                    let mut xs = base0.clone();
                    let _ = xs.eval(outer);
                    watch::note(AsRef::<str>::as_ref(&body));
                    let r = guarded(|| xs.eval(&body));
                    match r {
                        Ok(Ok(())) => Ok(stack_of(&xs)),
                        Ok(Err(e)) => Err(err_kind(&e)),
                        Err(_) => Err("panic".into()),
                    }
                };
                for depth in 0..=3usize {
                    n_seal.fetch_add(1, Ordering::Relaxed);
                    let sentinels: Vec<String> = (0..depth).map(|i| format!("{}", 100 + i)).collect();
                    let mut xs = base0.clone();
                    xs.eval(outer).unwrap();
                    if depth > 0 {
                        xs.eval(&sentinels.join(" ")).unwrap();
                    }
                    let code0: Vec<String> = xs.bytecode().iter().map(|op| format!("{:?}", op)).collect();
                    let src = format!("#( {} #)", body);
                    watch::note(AsRef::<str>::as_ref(&src));
                    let r = match guarded(|| xs.eval(&src)) {
                        Ok(r) => r,
                        Err(pn) => {
                            rep.report_w("panic:seal", src.len() as u64, || jo(vec![("source", js(src.clone())), ("panic", js(pn))]));
                            continue;
                        }
                    };
                    let st = stack_of(&xs);
                    let want_sent: Vec<String> = sentinels.iter().map(|s| format!("i:{}", s)).collect();
                    let gval = xs.get_var_value("g").map(render).unwrap_or_default();
                    let mut bad: Option<(String, String)> = None;
                    // the code that existed before the block is the same instruction for instruction
                    let code1: Vec<String> = xs.bytecode().iter().take(code0.len()).map(|op| format!("{:?}", op)).collect();
                    let changed = (0..code0.len()).find(|i| code1.get(*i) != Some(&code0[*i]));
                    if let Some(i) = changed {
                        bad = Some(("seal:outer-code-changed".into(), format!("instruction {} of the surrounding program, `{}`, became `{}`", i, code0[i], code1.get(i).map(|s| s.as_str()).unwrap_or("(nothing)"))));
                    } else if gval != "i:33" {
                        bad = Some(("seal:variable-changed".into(), format!("outer variable g is {} after the block", gval)));
                    } else if st.len() < depth || st[..depth] != want_sent[..] {
                        bad = Some(("seal:outer-stack-changed".into(), format!("outer stack {:?} became {:?}", want_sent, st)));
                    } else if touches_vars(&body) {
                        bump(&mut local, "seal:variable-access");
                        // the refusal must come from the variable access unless the body fails earlier on its own
                        if r.is_ok() {
                            bad = Some(("seal:variable-access-allowed".into(), format!("block `{}` touching a variable succeeded", body)));
                        }
                    } else {
                        match (&standalone, &r) {
                            (Ok(vals), Ok(())) => {
                                bump(&mut local, "seal:ok");
                                let mut want = want_sent.clone();
                                want.extend(vals.iter().rev().cloned());
                                if st != want {
                                    bad = Some(("seal:sees-outer-stack".into(), format!("`{}` over outer stack {:?} left {:?}; on an empty stack the body yields {:?}", src, want_sent, st, vals)));
                                }
                            }
                            (Err(k), Err(e)) => {
                                bump(&mut local, "seal:err");
                                if *k != err_kind(e) {
                                    bad = Some(("seal:different-error".into(), format!("`{}`: {} in the block, {} standalone", body, err_kind(e), k)));
                                }
                            }
                            (a, b) => {
                                bad = Some(("seal:sees-outer-stack".into(), format!("`{}` over outer stack {:?}: block {:?}, body on an empty stack {:?}", src, want_sent, b, a)));
                            }
                        }
                    }
                    if let Some((k, d)) = bad {
                        rep.report_w(&k, (src.len() + depth) as u64, || jo(vec![("kind", js("sealing")), ("evaluated_before", js(outer)), ("outer_stack", js(format!("{:?}", sentinels))), ("source", js(src.clone())), ("problem", js(d.clone()))]));
                    }
                }
                }
            }
        }
        seal_classes.merge(&local);
    });

    // ---------------- (2b) a block submitted while a program of the surrounding interpreter is suspended inside a
    // counted loop does not see that loop: the counter words fail in it as they do in a fresh interpreter
    {
        for k in 3..9usize {
            let mut xs = boot();
            let _ = xs.set_insn_limit(Some(5000));
            let ok = matches!(guarded(|| -> Xresult {
                xs.compile("105 100 do I drop loop")?;
                for _ in 0..k {
                    xs.next()?;
                }
                OK
            }), Ok(Ok(())));
            if !ok {
                continue;
            }
            for blk in ["#( I #)", "#( 1 0 do J loop #)", ": sw #( I #) ;"] {
                for via in ["eval", "compile"] {
                    let mut y = xs.clone();
                    let r = guarded(|| if via == "eval" { y.eval(blk) } else { y.compile(blk) });
                    n_seal.fetch_add(1, Ordering::Relaxed);
                    let mut f = boot();
                    let rf = guarded(|| if via == "eval" { f.eval(blk) } else { f.compile(blk) });
                    let (a, b) = (r.map(|r| res_kind(&r)), rf.map(|r| res_kind(&r)));
                    if a != b {
                        rep.report_w("seal:sees-outer-loop", (k * 100 + blk.len()) as u64, || {
                            jo(vec![("kind", js("sealing-suspended-loop")), ("calls", J::A(vec![js("compile 105 100 do I drop loop"), js(format!("next() x {}", k)), js(format!("{} {}", via, blk))])), ("result", js(format!("{:?}", a))), ("in_a_fresh_interpreter", js(format!("{:?}", b)))])
                        });
                    }
                }
            }
        }
    }

    // ---------------- (4) compile is pure
    let n_pure = AtomicU64::new(0);
    {
        let gsets: Vec<(Grammar, usize)> = vec![(corpus::grammar_full(), 3), (corpus::grammar_repertoire(), 3), (expr_grammar(true), 3)];
        for (gr, maxn) in &gsets {
            let mut tasks_all: Vec<Task> = vec![];
            for s in 0..=*maxn {
                tasks_all.extend(tasks(gr, s, 1, &G::top()));
            }
            par_run(cfg.threads, tasks_all.len(), 1, |_t, pull| {
                // start states: idle with data and a variable; after a program that failed at run time in
                // its middle; after that and a rejected source; after a rejected source alone; the failed
                // program submitted as compile + run
                let bases: Vec<(String, Xstate)> = PURE_STARTS
                    .iter()
                    .map(|h| {
                        let mut xs = boot();
                        let _ = xs.set_insn_limit(Some(5000));
                        xs.eval("11 22 33 var g").unwrap();
                        for (style, s) in h.iter() {
                            let _ = guarded(|| if *style == 0 { xs.eval(s) } else { xs.compile(s).and_then(|_| xs.run()) });
                        }
                        let _ = xs.read_stdout();
                        (h.iter().map(|(st, s)| format!("{} `{}`", if *st == 0 { "eval" } else { "compile+run" }, s)).collect::<Vec<_>>().join(", "), xs)
                    })
                    .collect();
                let keep = ["data", "data_hidden", "return", "loops", "special", "stdout", "mode", "nested", "flow", "input", "ip"];
                while let Some(r) = pull() {
                    for ti in r {
                        run_task(gr, &tasks_all[ti], &mut |prog, _| {
                            let src = source(prog);
                            for (bi, (hist, base)) in bases.iter().enumerate() {
                                let before = project_keep(&base.verif_dump_light(), &keep);
                                let heap_before = dump_get(&base.verif_dump_light(), "heap").to_string();
                                let mut xs = base.clone();
                                n_pure.fetch_add(1, Ordering::Relaxed);
                                watch::note(AsRef::<str>::as_ref(&src));
                                let r = match guarded(|| xs.compile(&src)) {
                                    Ok(r) => r,
                                    Err(_) => return,
                                };
                                let d = xs.verif_dump_light();
                                let mut after = project_keep(&d, &keep);
                                if r.is_ok() || bi > 0 {
                                    // a successful compile leaves the new code to be run: ip may point at it (and a
                                    // compile after a failed run gives up the rest of that run)
                                    after = after.replace(&format!("ip={}\n", dump_get(&d, "ip")), &format!("ip={}\n", dump_get(&base.verif_dump_light(), "ip")));
                                }
                                let heap_after = dump_get(&d, "heap");
                                if after != before || !heap_after.starts_with(&heap_before) {
                                    rep.report_w("compile-not-pure", (src.len() + 100 * bi) as u64, || {
                                        jo(vec![("kind", js("compile-purity")), ("before", js(hist.clone())), ("source", js(src.clone())), ("state_before", js(truncate(&before, 300))), ("state_after", js(truncate(&after, 300))), ("heap_after", js(truncate(heap_after, 200)))])
                                    });
                                }
                                // eval is compile followed by run
                                if r.is_ok() {
                                    let run_r = guarded(|| xs.run());
                                    let mut ys = base.clone();
                                    let eval_r = guarded(|| ys.eval(&src));
                                    if let (Ok(rr), Ok(er)) = (run_r, eval_r) {
                                        n_pure.fetch_add(1, Ordering::Relaxed);
                                        let a = (res_kind(&rr), stack_of(&xs), dump_get(&xs.verif_dump_light(), "heap").to_string(), xs.read_stdout().unwrap_or_default());
                                        let b = (res_kind(&er), stack_of(&ys), dump_get(&ys.verif_dump_light(), "heap").to_string(), ys.read_stdout().unwrap_or_default());
                                        if a != b {
                                            rep.report_w("eval-differs-from-compile+run", (src.len() + 100 * bi) as u64, || {
                                                jo(vec![("kind", js("eval-vs-compile-run")), ("before", js(hist.clone())), ("source", js(src.clone())), ("compile_then_run", js(format!("{:?}", a))), ("eval", js(format!("{:?}", b)))])
                                            });
                                        }
                                    }
                                }
                            }
                        });
                    }
                }
            });
        }
    }

    ev.evaluations = n_evals.load(Ordering::Relaxed) + n_seal.load(Ordering::Relaxed) + n_pure.load(Ordering::Relaxed) + n_const;
    ev.states = n_cmp.load(Ordering::Relaxed) + n_seal.load(Ordering::Relaxed) + n_pure.load(Ordering::Relaxed) + n_const;
    ev.transitions = ev.evaluations;
    ev.traces = ev.states;
    ev.nontrivial = n_expr_ok.load(Ordering::Relaxed);
    ev.rule = format!(
        "(1) every constant expression of the expression grammar (arithmetic, stack words, vectors, nested meta blocks, local definitions, branches) up to {} nodes that evaluates without error standalone, in {} contexts: program with the block vs program with its literal values (last result first); (2) every block body of <= {} words over a {}-word probing alphabet x outer stacks of depth 0..3 x an outer variable; (3) dictionary delta and code growth per value class ({} value classes); (4) compile of every program of three grammars up to 3 nodes leaves stack, variables and output untouched and compile+run equals eval, from 5 start states (idle; after a program that failed at run time; after that and a rejected source; after a rejected source; the same submitted as compile+run). non-trivial = distinct expressions that evaluate and whose values can be written as literals",
        maxn, CONTEXTS.len(), seal_len, seal_alpha.len(), groups
    );
    ev.add("expressions_enumerated", ji(n_expr.load(Ordering::Relaxed)));
    ev.add("expressions_compared", ji(n_expr_ok.load(Ordering::Relaxed)));
    ev.add("context_comparisons", ji(n_cmp.load(Ordering::Relaxed)));
    ev.add("sealing_cases", ji(n_seal.load(Ordering::Relaxed)));
    ev.add("compile_purity_programs", ji(n_pure.load(Ordering::Relaxed)));
    ev.add("const_cases", ji(n_const));
    ev.add("expression_classes", stats.json());
    ev.add("sealing_classes", seal_classes.json());
    ev.sample(jo(vec![("with_block", js(": w true if #( 1 2 + dup #) then ; w w")), ("inlined", js(": w true if 3 3 then ; w w"))]));
    ev.sample(jo(vec![("sealing", js("100 101 #( depth drop dup #)")), ("model", js("body on an empty stack: underflow -> the eval fails, 100 101 and g intact"))]));
    ev.assumptions = vec![
        "the value of e is obtained by ordinary evaluation of e (nested meta delimiters removed, since a nested block shares its parent's meta stack — pinned by the suite)".into(),
        "user-defined immediate words are outside the property".into(),
    ];
    conclude(&ev, &rep)
}
