// C09 — arithmetic, comparison and bitwise words follow exact integer / IEEE semantics.
//
// Exhaustive product: every word of the arithmetic repertoire x every operand tuple of
//   G1 int pairs    : A_int x A_int  (boundary alphabet)  u  [-S,S]^2 (complete small scope)
//   G2 shifts       : (A_int u [-S,S]) x every count 0..=127
//   G3 real pairs   : A_real x A_real (NaN not enumerated for comparisons / min / max)
//   G4 mixed        : small ints x A_real, both orders (type error expected)
//   G5 type matrix  : representatives of {nil, flag, int, real, str, vec, map, bitstr,
//                     tagged int, tagged real}^2 (and ^1 for the unary words), each with and
//                     without a sentinel value under the operands
//   G6 unary        : every unary word x (A_int u [-S,S]) u A_real (+ >int conversion set)
// Operands are injected with the public `push_data` above a sentinel, the word is run with
// `eval("<word>")` on a clone of a booted interpreter, the result is read with
// `data_depth`/`get_data`.  Oracle: i128 `checked_*` arithmetic (exact result when
// representable, otherwise the accepted set {two's-complement wrapped value,
// IntegerOverflow}), the same f64 operation executed in the harness (compared by bit
// pattern, NaN by class), and the error-payload rule for type errors.
use crate::common::*;
use std::collections::{BTreeMap, BTreeSet};
use std::sync::atomic::{AtomicU64, Ordering};
use std::sync::Mutex;
use xeh::prelude::*;

const SENTINEL: &str = "<sentinel-under-operands>";

// ------------------------------------------------------------------ operand descriptions (Send)
#[derive(Clone, Debug, PartialEq)]
pub enum V {
    Nil,
    Flag(bool),
    Int(i128),
    Real(u64),
    Str(&'static str),
    VecEmpty,
    VecOne,
    MapEmpty,
    MapOne,
    BitsEmpty,
    BitsByte,
    TInt(i128),
    TReal(u64),
    /// tagged in two steps (a second tag added to an already tagged value)
    T2Int(i128),
    T2Real(u64),
}

fn real(x: f64) -> V {
    V::Real(x.to_bits())
}

impl V {
    fn cell(&self) -> Cell {
        match self {
            V::Nil => Cell::Nil,
            V::Flag(b) => Cell::Flag(*b),
            V::Int(i) => Cell::Int(*i),
            V::Real(b) => Cell::Real(f64::from_bits(*b)),
            V::Str(s) => Cell::from(*s),
            V::VecEmpty => Cell::Vector(Xvec::new()),
            V::VecOne => Cell::Vector(Xvec::new().push_back(Cell::Int(1))),
            V::MapEmpty => Cell::Map(Xmap::new()),
            V::MapOne => Cell::Map(Xmap::new().insert(Cell::from("k"), Cell::Int(1))),
            V::BitsEmpty => Cell::Bitstr(Xbitstr::new()),
            V::BitsByte => Cell::Bitstr(Xbitstr::from(vec![0xffu8])),
            V::TInt(i) => Cell::Int(*i).insert_tag(Cell::from("t"), Cell::Int(99)),
            V::TReal(b) => Cell::Real(f64::from_bits(*b)).insert_tag(Cell::from("t"), Cell::Int(99)),
            V::T2Int(i) => Cell::Int(*i).insert_tag(Cell::from("t"), Cell::Int(99)).insert_tag(Cell::from("u"), Cell::Int(98)),
            V::T2Real(b) => Cell::Real(f64::from_bits(*b)).insert_tag(Cell::from("t"), Cell::Int(99)).insert_tag(Cell::from("u"), Cell::Int(98)),
        }
    }
    fn class(&self) -> &'static str {
        match self {
            V::Nil => "nil",
            V::Flag(_) => "flag",
            V::Int(_) => "int",
            V::Real(_) => "real",
            V::Str(_) => "str",
            V::VecEmpty | V::VecOne => "vec",
            V::MapEmpty | V::MapOne => "map",
            V::BitsEmpty | V::BitsByte => "bitstr",
            V::TInt(_) | V::T2Int(_) => "tagged-int",
            V::TReal(_) | V::T2Real(_) => "tagged-real",
        }
    }
    fn describe(&self) -> String {
        match self {
            V::Nil => "nil".into(),
            V::Flag(b) => format!("{}", b),
            V::Int(i) => format!("Int({})", i),
            V::Real(b) => format!("Real({:?} bits={:#x})", f64::from_bits(*b), b),
            V::Str(s) => format!("Str({:?})", s),
            V::VecEmpty => "Vector[ ]".into(),
            V::VecOne => "Vector[ 1 ]".into(),
            V::MapEmpty => "Map{ }".into(),
            V::MapOne => "Map{ 1 \"k\" }".into(),
            V::BitsEmpty => "Bitstr||".into(),
            V::BitsByte => "Bitstr|FF|".into(),
            V::TInt(i) => format!("Int({}) tagged {{ 99 \"t\" }}", i),
            V::TReal(b) => format!("Real({:?}) tagged {{ 99 \"t\" }}", f64::from_bits(*b)),
            V::T2Int(i) => format!("Int({}) tagged {{ 99 \"t\" }}, then tagged {{ 98 \"u\" }}", i),
            V::T2Real(b) => format!("Real({:?}) tagged {{ 99 \"t\" }}, then tagged {{ 98 \"u\" }}", f64::from_bits(*b)),
        }
    }
    fn weight(&self) -> u64 {
        match self {
            V::Int(i) => (128 - i.unsigned_abs().leading_zeros()) as u64 + if *i < 0 { 1 } else { 0 },
            V::Real(b) => {
                let x = f64::from_bits(*b);
                if x == 0.0 || x == 1.0 {
                    2
                } else {
                    12
                }
            }
            V::Str(_) => 3,
            _ => 20,
        }
    }
}

#[derive(Clone, Copy)]
enum Num {
    I(i128),
    R(f64),
}

fn num(v: &V) -> Option<Num> {
    match v {
        V::Int(i) | V::TInt(i) | V::T2Int(i) => Some(Num::I(*i)),
        V::Real(b) | V::TReal(b) | V::T2Real(b) => Some(Num::R(f64::from_bits(*b))),
        _ => None,
    }
}

// ------------------------------------------------------------------ the oracle
#[derive(Clone, Debug)]
pub enum Exp {
    Int(i128),           // exact, representable
    IntOrOverflow(i128), // not representable: wrapped value or IntegerOverflow
    Real(f64),           // bit pattern (NaN by class)
    RealAnyOf(Vec<f64>), // any of these bit patterns
    RealOrDivZero(f64),  // real remainder by zero: IEEE NaN, or a division error
    ZeroAnySign,         // min/max of two zeros of different sign
    Round(f64),          // integer-valued, within 0.5 of the operand
    Flag(bool),
    DivZero,
    TypeErr,          // type error whose payload is one of the operands
    TypeErrOrDivZero, // non-number divided by zero: both clauses of the statement apply
    Unspecified,      // not enumerated
}

impl Exp {
    fn class(&self) -> &'static str {
        match self {
            Exp::Int(_) => "int-exact",
            Exp::IntOrOverflow(_) => "int-overflow",
            Exp::Real(_) | Exp::RealAnyOf(_) | Exp::ZeroAnySign | Exp::RealOrDivZero(_) => "real",
            Exp::Round(_) => "round",
            Exp::Flag(_) => "flag",
            Exp::DivZero => "divzero",
            Exp::TypeErr | Exp::TypeErrOrDivZero => "type",
            Exp::Unspecified => "unspecified",
        }
    }
    fn describe(&self) -> String {
        match self {
            Exp::Int(i) => format!("Int({})", i),
            Exp::IntOrOverflow(i) => format!("not representable: Int({}) (two's complement wrap) or IntegerOverflow", i),
            Exp::Real(x) => format!("Real({:?} bits={:#x})", x, x.to_bits()),
            Exp::RealAnyOf(v) => format!("Real, one of {:?}", v),
            Exp::RealOrDivZero(x) => format!("Real({:?}) or DivisionByZero", x),
            Exp::ZeroAnySign => "Real zero (either sign)".into(),
            Exp::Round(x) => format!("integer-valued Real within 0.5 of {:?}", x),
            Exp::Flag(b) => format!("Flag({})", b),
            Exp::DivZero => "DivisionByZero".into(),
            Exp::TypeErr => "type error reporting one of the supplied operands".into(),
            Exp::TypeErrOrDivZero => "type error reporting one of the supplied operands (or DivisionByZero)".into(),
            Exp::Unspecified => "unspecified".into(),
        }
    }
}

#[derive(Clone, Copy, PartialEq)]
enum Kind {
    NumBin, // int,int or real,real
    Cmp,
    IntBin, // int,int only
    Shift,
    Unary,
}

pub const WORDS: &[(&str, u8)] = &[
    ("+", 2), ("-", 2), ("*", 2), ("/", 2), ("rem", 2), ("min", 2), ("max", 2),
    ("<", 2), ("<=", 2), (">", 2), (">=", 2), ("==", 2), ("<>", 2),
    ("band", 2), ("bor", 2), ("bxor", 2), ("bsl", 2), ("bsr", 2),
    ("neg", 1), ("abs", 1), ("bnot", 1), ("popcnt", 1), (">int", 1), (">real", 1), ("round", 1),
    ("zero?", 1), ("positive?", 1), ("negative?", 1),
];

fn kind(word: &str) -> Kind {
    match word {
        "+" | "-" | "*" | "/" | "rem" | "min" | "max" => Kind::NumBin,
        "<" | "<=" | ">" | ">=" | "==" | "<>" => Kind::Cmp,
        "band" | "bor" | "bxor" => Kind::IntBin,
        "bsl" | "bsr" => Kind::Shift,
        _ => Kind::Unary,
    }
}

fn two_pow(n: u32) -> i128 {
    // n <= 126
    let mut p: i128 = 1;
    for _ in 0..n {
        p = p.checked_mul(2).expect("two_pow");
    }
    p
}

fn int_bin(word: &str, a: i128, b: i128) -> Exp {
    let ex = |c: Option<i128>, w: i128| match c {
        Some(v) => Exp::Int(v),
        None => Exp::IntOrOverflow(w),
    };
    match word {
        "+" => ex(a.checked_add(b), a.wrapping_add(b)),
        "-" => ex(a.checked_sub(b), a.wrapping_sub(b)),
        "*" => ex(a.checked_mul(b), a.wrapping_mul(b)),
        "/" => {
            if b == 0 {
                Exp::DivZero
            } else {
                // truncating division; the only non-representable quotient is MIN / -1 = 2^127
                ex(a.checked_div(b), i128::MIN)
            }
        }
        "rem" => {
            if b == 0 {
                Exp::DivZero
            } else if b == -1 || b == 1 {
                Exp::Int(0) // always representable (also for MIN rem -1)
            } else {
                // sign of the dividend: a - b * trunc(a / b)
                let q = a / b;
                Exp::Int(a - b * q)
            }
        }
        "min" => Exp::Int(if a <= b { a } else { b }),
        "max" => Exp::Int(if a >= b { a } else { b }),
        "<" => Exp::Flag(a < b),
        "<=" => Exp::Flag(a <= b),
        ">" => Exp::Flag(a > b),
        ">=" => Exp::Flag(a >= b),
        "==" => Exp::Flag(a == b),
        "<>" => Exp::Flag(a != b),
        "band" => Exp::Int(a & b),
        "bor" => Exp::Int(a | b),
        "bxor" => Exp::Int(a ^ b),
        "bsl" => {
            if !(0..=127).contains(&b) {
                return Exp::Unspecified;
            }
            // a * 2^b by repeated checked doubling
            let mut v = Some(a);
            for _ in 0..b {
                v = v.and_then(|x| x.checked_mul(2));
            }
            ex(v, ((a as u128) << (b as u32)) as i128)
        }
        "bsr" => {
            if !(0..=127).contains(&b) {
                return Exp::Unspecified;
            }
            // arithmetic shift = floor(a / 2^b)
            if b == 127 {
                Exp::Int(if a < 0 { -1 } else { 0 })
            } else {
                Exp::Int(a.div_euclid(two_pow(b as u32)))
            }
        }
        _ => unreachable!(),
    }
}

fn real_bin(word: &str, a: f64, b: f64) -> Exp {
    let nan = a.is_nan() || b.is_nan();
    match word {
        "+" => Exp::Real(a + b),
        "-" => Exp::Real(a - b),
        "*" => Exp::Real(a * b),
        "/" => {
            if b == 0.0 {
                Exp::DivZero
            } else {
                Exp::Real(a / b)
            }
        }
        // only the INTEGER remainder by zero is a division error; the real one is IEEE (NaN)
        "rem" => Exp::Real(a % b),
        "min" | "max" => {
            if nan {
                Exp::Unspecified
            } else if a == 0.0 && b == 0.0 && a.to_bits() != b.to_bits() {
                Exp::ZeroAnySign
            } else if word == "min" {
                Exp::Real(if a <= b { a } else { b })
            } else {
                Exp::Real(if a >= b { a } else { b })
            }
        }
        _ if nan => Exp::Unspecified,
        "<" => Exp::Flag(a < b),
        "<=" => Exp::Flag(a <= b),
        ">" => Exp::Flag(a > b),
        ">=" => Exp::Flag(a >= b),
        "==" => Exp::Flag(a == b),
        "<>" => Exp::Flag(a != b),
        _ => unreachable!(),
    }
}

fn f64_next_up(x: f64) -> f64 {
    // finite x only
    let b = x.to_bits();
    if x == 0.0 {
        f64::from_bits(1)
    } else if x > 0.0 {
        f64::from_bits(b + 1)
    } else {
        f64::from_bits(b - 1)
    }
}
fn f64_next_down(x: f64) -> f64 {
    -f64_next_up(-x)
}

/// compares a finite f64 of integer value with an i128 exactly
fn cmp_f64_i128(r: f64, a: i128) -> std::cmp::Ordering {
    let p127 = 170141183460469231731687303715884105728.0f64; // 2^127
    if r >= p127 {
        std::cmp::Ordering::Greater
    } else if r < -p127 {
        std::cmp::Ordering::Less
    } else {
        // r is integral here whenever |r| >= 2^53; below that the cast truncates, so compare both ways
        let t = r.trunc() as i128;
        match t.cmp(&a) {
            std::cmp::Ordering::Equal => {
                if r > r.trunc() {
                    std::cmp::Ordering::Greater
                } else if r < r.trunc() {
                    std::cmp::Ordering::Less
                } else {
                    std::cmp::Ordering::Equal
                }
            }
            o => o,
        }
    }
}

pub fn expect(word: &str, a: &V, b: Option<&V>) -> Exp {
    let k = kind(word);
    if let Some(b) = b {
        match (num(a), num(b)) {
            (Some(Num::I(x)), Some(Num::I(y))) => int_bin(word, x, y),
            (Some(Num::R(x)), Some(Num::R(y))) if k == Kind::NumBin || k == Kind::Cmp => real_bin(word, x, y),
            (_, nb) => {
                let zero_div = match nb {
                    Some(Num::I(0)) => true,
                    Some(Num::R(y)) => y == 0.0,
                    _ => false,
                };
                if (word == "/" || word == "rem") && zero_div {
                    Exp::TypeErrOrDivZero
                } else {
                    Exp::TypeErr
                }
            }
        }
    } else {
        match (word, num(a)) {
            ("neg", Some(Num::I(x))) => match x.checked_neg() {
                Some(v) => Exp::Int(v),
                None => Exp::IntOrOverflow(x.wrapping_neg()),
            },
            ("neg", Some(Num::R(x))) => Exp::Real(-x),
            ("abs", Some(Num::I(x))) => match x.checked_abs() {
                Some(v) => Exp::Int(v),
                None => Exp::IntOrOverflow(x.wrapping_abs()),
            },
            ("abs", Some(Num::R(x))) => Exp::Real(x.abs()),
            ("bnot", Some(Num::I(x))) => Exp::Int(-1 - x),
            ("popcnt", Some(Num::I(x))) => {
                let mut n = 0;
                let mut u = x as u128;
                while u != 0 {
                    n += (u & 1) as i128;
                    u >>= 1;
                }
                Exp::Int(n)
            }
            (">int", Some(Num::I(x))) => Exp::Int(x),
            (">int", Some(Num::R(x))) => {
                let p127 = 170141183460469231731687303715884105728.0f64;
                if !x.is_finite() || x >= p127 || x < -p127 {
                    Exp::Unspecified
                } else if x == x.trunc() {
                    Exp::Int(x as i128) // exact: integral and inside the range
                } else if x > 0.0 {
                    Exp::Int(x.floor() as i128) // pinned by the suite: 1.4 -> 1, 1.6 -> 1
                } else {
                    // negative non-integral: not representable; truncation (and floor) accepted
                    Exp::Unspecified
                }
            }
            (">real", Some(Num::R(x))) => Exp::Real(x),
            (">real", Some(Num::I(x))) => {
                let r = x as f64;
                match cmp_f64_i128(r, x) {
                    std::cmp::Ordering::Equal => Exp::Real(r),
                    std::cmp::Ordering::Greater => Exp::RealAnyOf(vec![f64_next_down(r), r]),
                    std::cmp::Ordering::Less => Exp::RealAnyOf(vec![r, f64_next_up(r)]),
                }
            }
            ("round", Some(Num::R(x))) => Exp::Round(x),
            ("zero?", Some(Num::I(x))) => Exp::Flag(x == 0),
            ("positive?", Some(Num::I(x))) => Exp::Flag(x > 0),
            ("negative?", Some(Num::I(x))) => Exp::Flag(x < 0),
            ("zero?", Some(Num::R(x))) if !x.is_nan() => Exp::Flag(x == 0.0),
            ("positive?", Some(Num::R(x))) if !x.is_nan() => Exp::Flag(x > 0.0),
            ("negative?", Some(Num::R(x))) if !x.is_nan() => Exp::Flag(x < 0.0),
            ("zero?" | "positive?" | "negative?", Some(Num::R(_))) => Exp::Unspecified,
            _ => Exp::TypeErr,
        }
    }
}

// ------------------------------------------------------------------ running one case
pub enum Obs {
    Panic(String),
    Done { depth: usize, top: Option<Cell>, below_ok: bool },
    Err(Xerr),
}

fn describe_cell(c: &Cell) -> String {
    render(c)
}

impl Obs {
    fn describe(&self) -> String {
        match self {
            Obs::Panic(m) => format!("PANIC: {}", truncate(m, 160)),
            Obs::Done { depth, top, below_ok } => format!(
                "Ok, data depth {} top={} sentinel-intact={}",
                depth,
                top.as_ref().map(describe_cell).unwrap_or_else(|| "(none)".into()),
                below_ok
            ),
            Obs::Err(e) => match e {
                Xerr::TypeErrorMsg { val, msg } => format!("TypeErrorMsg expected={} val={}", msg, describe_cell(val)),
                Xerr::TypeNotSupported { val } => format!("TypeNotSupported val={}", describe_cell(val)),
                other => err_kind(other),
            },
        }
    }
}

/// operand equality for the payload rule: tags ignored, reals by bit pattern
fn same_value(a: &Cell, b: &Cell) -> bool {
    match (a.value(), b.value()) {
        (Cell::Real(x), Cell::Real(y)) => x.to_bits() == y.to_bits(),
        (x, y) => x == y,
    }
}

pub fn run_case(base: &Xstate, word: &str, a: &Cell, b: Option<&Cell>, sentinel: bool) -> Obs {
    let mut xs = base.clone();
    let sent = Cell::from(SENTINEL);
    let mut under = 0;
    if sentinel {
        xs.push_data(sent.clone()).unwrap();
        under = 1;
    }
    xs.push_data(a.clone()).unwrap();
    if let Some(b) = b {
        xs.push_data(b.clone()).unwrap();
    }
    match guarded(|| xs.eval(word)) {
        Err(p) => Obs::Panic(p),
        Ok(Err(e)) => Obs::Err(e),
        Ok(Ok(())) => {
            let depth = xs.data_depth();
            let top = if depth > under { xs.get_data(0).cloned() } else { None };
            let below_ok = if sentinel {
                depth == 2 && matches!(xs.get_data(1), Some(Cell::Str(s)) if s.as_str() == SENTINEL)
            } else {
                depth == 1
            };
            Obs::Done { depth, top, below_ok }
        }
    }
}

/// the same, the operands and the word coming from source text (a sentinel below them)
pub fn run_source(base: &Xstate, src: &str) -> Obs {
    let mut xs = base.clone();
    xs.push_data(Cell::from(SENTINEL)).unwrap();
    match guarded(|| xs.eval(src)) {
        Err(p) => Obs::Panic(p),
        Ok(Err(e)) => Obs::Err(e),
        Ok(Ok(())) => {
            let depth = xs.data_depth();
            let top = if depth > 1 { xs.get_data(0).cloned() } else { None };
            let below_ok = depth == 2 && matches!(xs.get_data(1), Some(Cell::Str(s)) if s.as_str() == SENTINEL);
            Obs::Done { depth, top, below_ok }
        }
    }
}

/// ways an integer operand reaches a word other than push_data: every one goes through the
/// compiler's literal emission (decimal / hexadecimal text, inside a definition, computed in a
/// meta block and emitted, a constant)
pub const DELIVERY: [&str; 5] = ["decimal literal", "hex literal", "literal inside a definition", "computed in a meta block", "constant"];
fn dec(v: i128) -> String {
    v.to_string()
}
fn hex(v: i128) -> String {
    if v < 0 { format!("-0x{:x}", v.unsigned_abs()) } else { format!("0x{:x}", v) }
}
pub fn delivery_src(form: usize, word: &str, a: i128, b: Option<i128>) -> String {
    let ops = |f: &dyn Fn(i128) -> String| match b {
        Some(b) => format!("{} {}", f(a), f(b)),
        None => f(a),
    };
    match form {
        0 => format!("{} {}", ops(&dec), word),
        1 => format!("{} {}", ops(&hex), word),
        2 => format!(": dlv {} {} ; dlv", ops(&dec), word),
        3 => match b {
            Some(b) => format!("#( {} #) #( {} #) {}", dec(a), dec(b), word),
            None => format!("#( {} #) {}", dec(a), word),
        },
        _ => match b {
            Some(b) => format!("#( {} const dka {} const dkb #) dka dkb {}", dec(a), dec(b), word),
            None => format!("#( {} const dka #) dka {}", dec(a), word),
        },
    }
}

/// Ok(()) = conforms; Err(what) = violation description
pub fn judge(exp: &Exp, obs: &Obs, a: &Cell, b: Option<&Cell>) -> Result<(), String> {
    let type_ok = |e: &Xerr| -> Result<(), String> {
        match e {
            Xerr::TypeError => Ok(()),
            Xerr::TypeErrorMsg { val, .. } | Xerr::TypeNotSupported { val } => {
                if same_value(val, a) || b.map(|b| same_value(val, b)).unwrap_or(false) {
                    Ok(())
                } else {
                    Err(format!("type error reports {} which is none of the operands", describe_cell(val)))
                }
            }
            other => Err(format!("expected a type error, got {}", err_kind(other))),
        }
    };
    match obs {
        Obs::Panic(m) => Err(format!("panic: {}", truncate(m, 120))),
        Obs::Err(e) => match exp {
            Exp::IntOrOverflow(_) if matches!(e, Xerr::IntegerOverflow) => Ok(()),
            Exp::DivZero | Exp::RealOrDivZero(_) if matches!(e, Xerr::DivisionByZero) => Ok(()),
            Exp::TypeErrOrDivZero if matches!(e, Xerr::DivisionByZero) => Ok(()),
            Exp::TypeErr | Exp::TypeErrOrDivZero => type_ok(e),
            _ => Err(format!("unexpected error {}", err_kind(e))),
        },
        Obs::Done { top, below_ok, depth } => {
            if !*below_ok {
                return Err(format!("stack effect: depth {} after the word / value under the operands changed", depth));
            }
            let top = match top {
                Some(t) => t,
                None => return Err("no result on the stack".into()),
            };
            let ok = match (exp, top.value()) {
                (Exp::Int(v), Cell::Int(g)) | (Exp::IntOrOverflow(v), Cell::Int(g)) => v == g,
                (Exp::Real(v), Cell::Real(g)) | (Exp::RealOrDivZero(v), Cell::Real(g)) => {
                    if v.is_nan() {
                        g.is_nan()
                    } else {
                        v.to_bits() == g.to_bits()
                    }
                }
                (Exp::RealAnyOf(vs), Cell::Real(g)) => vs.iter().any(|v| v.to_bits() == g.to_bits()),
                (Exp::ZeroAnySign, Cell::Real(g)) => *g == 0.0,
                (Exp::Round(x), Cell::Real(g)) => {
                    if x.is_nan() {
                        g.is_nan()
                    } else if x.is_infinite() {
                        g == x
                    } else {
                        g.is_finite() && *g == g.trunc() && (g - x).abs() <= 0.5
                    }
                }
                (Exp::Flag(v), Cell::Flag(g)) => v == g,
                _ => false,
            };
            if ok {
                Ok(())
            } else {
                Err(format!("result {}", describe_cell(top)))
            }
        }
    }
}

// ------------------------------------------------------------------ alphabets
pub fn int_alphabet(thorough: bool, seed: u64) -> Vec<i128> {
    let mut s: BTreeSet<i128> = BTreeSet::new();
    for v in [0i128, 1, 2, 3, 7, 10, 17] {
        s.insert(v);
        s.insert(-v);
    }
    let ks: Vec<u32> = if thorough { (1..=126).collect() } else { (1..=126).filter(|k| k % 4 == 0 || k % 4 == 3 || [62u32, 65, 125, 126].contains(k)).collect() };
    for k in ks {
        let p = two_pow(k);
        for v in [p - 1, p, p + 1] {
            s.insert(v);
            s.insert(-v);
        }
    }
    for v in [i128::MIN, i128::MIN + 1, i128::MAX, i128::MAX - 1, i128::MIN / 2, i128::MAX / 2, i128::MAX / 3] {
        s.insert(v);
    }
    // the i128 square root region: products around 2^127
    for v in [13043817825332782212i128, 13043817825332782213, 0x5555_5555_5555_5555_5555_5555_5555_5555, -0x5555_5555_5555_5555_5555_5555_5555_5556] {
        s.insert(v);
    }
    if seed != 0 {
        for i in 0..4u64 {
            let hi = mix(seed, 2 * i) as u128;
            let lo = mix(seed, 2 * i + 1) as u128;
            let sh = (mix(seed, 100 + i) % 120) as u32;
            s.insert((((hi << 64) | lo) as i128) >> sh);
        }
    }
    s.into_iter().collect()
}

pub fn real_alphabet(seed: u64) -> Vec<f64> {
    let p127 = 170141183460469231731687303715884105728.0f64;
    let mut v = vec![
        0.0, -0.0, 1.0, -1.0, 1.5, -1.5, 2.5, -2.5, 0.5, -0.5, 0.1, 3.0, -7.0, 1e300, -1e300, 5e-324, -5e-324,
        f64::MIN_POSITIVE, f64::MAX, f64::MIN, 9007199254740992.0, 9007199254740993.0f64, 4503599627370495.5, p127, -p127,
        f64::INFINITY, f64::NEG_INFINITY, f64::NAN,
    ];
    if seed != 0 {
        for i in 0..3u64 {
            let x = f64::from_bits(mix(seed, 500 + i));
            if x.is_finite() {
                v.push(x);
            }
        }
    }
    let mut seen = BTreeSet::new();
    v.retain(|x| seen.insert(x.to_bits()));
    v
}

fn to_int_conversion_set() -> Vec<f64> {
    let p127 = 170141183460469231731687303715884105728.0f64;
    let below = f64::from_bits(p127.to_bits() - 1); // 2^127 - 2^74
    vec![
        0.0, -0.0, 0.4, 0.5, 0.6, 1.0, 1.4, 1.5, 1.6, 2.5, 3.5, 4.5, -0.4, -0.5, -0.6, -1.4, -1.5, -1.6, -2.5, -3.5, 0.49999999999999994, -0.49999999999999994,
        0.5000000000000001, 1.4999999999999998, 4503599627370496.0, 4503599627370497.0, 4503599627370496.5, 2251799813685247.5, 2251799813685248.5, -4503599627370495.5,
        -1.0, -3.0, 255.0, 1e15, 123456789.75, 9007199254740992.0, 9007199254740994.0,
        18446744073709551616.0, -18446744073709551616.0, 9223372036854775808.0, 1e30, -1e30, below, -below, -p127,
        5e-324, f64::MIN_POSITIVE,
    ]
}

fn plain(v: &V) -> bool {
    matches!(v, V::Int(_) | V::Real(_))
}

fn type_reps() -> Vec<V> {
    vec![
        V::Nil, V::Flag(true), V::Flag(false), V::Int(0), V::Int(5), V::Int(-3), real(0.0), real(2.5), V::Str("a"), V::Str(""),
        V::VecEmpty, V::VecOne, V::MapEmpty, V::MapOne, V::BitsEmpty, V::BitsByte, V::TInt(7), V::TInt(0), V::TReal(1.5f64.to_bits()),
        V::TReal(0.0f64.to_bits()), V::T2Int(6), V::T2Real(2.5f64.to_bits()),
    ]
}

// ------------------------------------------------------------------ task list
#[derive(Clone, Copy, Debug, PartialEq, Eq, PartialOrd, Ord)]
enum G {
    IntPairs,
    Shifts,
    RealPairs,
    Mixed,
    Types,
    Unary,
}

#[derive(Clone, Copy)]
struct Task {
    w: usize,
    g: G,
    ai: usize,
}

struct Alpha {
    ints: Vec<i128>,     // A_int u small square, sorted
    in_a: Vec<bool>,     // member of A_int
    in_s: Vec<bool>,     // member of the small square range
    reals: Vec<f64>,
    small_ints: Vec<i128>,
    reps: Vec<V>,
    conv: Vec<f64>,
}

struct Local {
    cover: BTreeMap<String, u64>,
    cases: u64,
    evals: u64,
    compared: u64,
    nontrivial: u64,
}

pub fn run(cfg: &Cfg) -> i32 {
    let rep = Reporter::new("C09");
    let mut ev = Evidence::new("C09", cfg);
    let thorough = !cfg.quick();
    let small: i128 = if thorough { 64 } else { 17 };
    let a_int = int_alphabet(thorough, cfg.seed);
    let mut all: BTreeSet<i128> = a_int.iter().copied().collect();
    for v in -small..=small {
        all.insert(v);
    }
    let ints: Vec<i128> = all.into_iter().collect();
    let aset: BTreeSet<i128> = a_int.iter().copied().collect();
    let al = Alpha {
        in_a: ints.iter().map(|v| aset.contains(v)).collect(),
        in_s: ints.iter().map(|v| (-small..=small).contains(v)).collect(),
        ints,
        reals: real_alphabet(cfg.seed),
        small_ints: vec![0, 1, -1, 2, 5, i128::MAX, i128::MIN],
        reps: type_reps(),
        conv: to_int_conversion_set(),
    };
    ev.rule = format!(
        "every listed word x every operand tuple of the groups: int pairs = A_int^2 ({} values) u [-{s},{s}]^2; shifts = ({} ints) x counts 0..=127; real pairs = A_real^2 ({} values, NaN not enumerated for comparisons/min/max); mixed int/real both orders; type matrix {} representatives^2 with and without a sentinel under the operands; unary words over all ints and reals. non-trivial = distinct (word, operands) whose specified outcome is a value, an overflow, or a division error (type-error cases and unspecified cases are not counted)",
        a_int.len(),
        al.ints.len(),
        al.reals.len(),
        al.reps.len(),
        s = small
    );

    // sanity of the plumbing: the injected-operand path computes what source text computes
    {
        let base = boot();
        match run_case(&base, "+", &Cell::Int(2), Some(&Cell::Int(3)), true) {
            Obs::Done { top: Some(Cell::Int(5)), below_ok: true, .. } => {}
            o => machinery_error(&format!("C09 plumbing: 2 3 + over a sentinel gave {}", o.describe())),
        }
        let words = base.word_list();
        for (w, _) in WORDS {
            if !words.iter().any(|x| x.as_str() == *w) {
                machinery_error(&format!("C09: word {} is not in the dictionary", w));
            }
        }
    }

    let mut tasks: Vec<Task> = vec![];
    for (w, (name, arity)) in WORDS.iter().enumerate() {
        let k = kind(name);
        if *arity == 2 {
            if k != Kind::Shift {
                for ai in 0..al.ints.len() {
                    tasks.push(Task { w, g: G::IntPairs, ai });
                }
            } else {
                for ai in 0..al.ints.len() {
                    tasks.push(Task { w, g: G::Shifts, ai });
                }
            }
            for ai in 0..al.reals.len() {
                tasks.push(Task { w, g: G::RealPairs, ai });
            }
            tasks.push(Task { w, g: G::Mixed, ai: 0 });
            for ai in 0..al.reps.len() {
                tasks.push(Task { w, g: G::Types, ai });
            }
        } else {
            tasks.push(Task { w, g: G::Unary, ai: 0 });
            tasks.push(Task { w, g: G::Types, ai: 0 });
        }
    }

    let cover = Counters::new();
    let tot_cases = AtomicU64::new(0);
    let tot_evals = AtomicU64::new(0);
    let tot_cmp = AtomicU64::new(0);
    let tot_nt = AtomicU64::new(0);
    let samples: Mutex<Vec<J>> = Mutex::new(vec![]);

    par_run(cfg.threads, tasks.len(), 8, |_t, pull| {
        let base = boot();
        let mut lo = Local { cover: BTreeMap::new(), cases: 0, evals: 0, compared: 0, nontrivial: 0 };
        let one = |word: &'static str, g: G, a: &V, b: Option<&V>, sentinel: bool, lo: &mut Local| {
            let exp = expect(word, a, b);
            if matches!(exp, Exp::Unspecified) {
                bump(&mut lo.cover, &format!("{} unspecified(not run)", word));
                return;
            }
            let ca = a.cell();
            let cb = b.map(|b| b.cell());
            let obs = run_case(&base, word, &ca, cb.as_ref(), sentinel);
            lo.cases += 1;
            lo.evals += 1;
            lo.compared += 1;
            let cls = exp.class();
            bump(&mut lo.cover, &format!("{} {}", word, cls));
            if cls != "type" {
                lo.nontrivial += 1;
            }
            if g == G::Types {
                bump(&mut lo.cover, &format!("types {}{}", a.class(), b.map(|b| format!(",{}", b.class())).unwrap_or_default()));
            }
            if (lo.cases % 400_000 == 7) && cls != "type" {
                let mut s = samples.lock().unwrap();
                if s.len() < 10 {
                    s.push(jo(vec![
                        ("word", js(word)),
                        ("a", js(a.describe())),
                        ("b", js(b.map(|b| b.describe()).unwrap_or_default())),
                        ("expected", js(exp.describe())),
                        ("observed", js(obs.describe())),
                    ]));
                }
            }
            if let Err(what) = judge(&exp, &obs, &ca, cb.as_ref()) {
                let key = match (&obs, cls) {
                    (Obs::Panic(_), _) => format!("panic:{}:{}", word, cls),
                    (_, "type") => format!("type:{}", word),
                    _ => format!("wrong:{}:{}", word, cls),
                };
                let weight = a.weight() + b.map(|b| b.weight()).unwrap_or(0) + if sentinel { 0 } else { 1 };
                // a hash of the operands makes the order total: the recorded replay does not depend on thread timing
                let weight = (weight << 24) + (hash128(&format!("{:?} {:?}", a, b)) as u64 & 0xff_ffff);
                rep.report_w(&key, weight, || {
                    let mut ops = vec![];
                    if sentinel {
                        ops.push(js(format!("push_data Str({:?})", SENTINEL)));
                    }
                    ops.push(js(format!("push_data {}", a.describe())));
                    if let Some(b) = b {
                        ops.push(js(format!("push_data {}", b.describe())));
                    }
                    ops.push(js(format!("eval {:?}", word)));
                    jo(vec![
                        ("kind", js("arith")),
                        ("ops", J::A(ops)),
                        ("word", js(word)),
                        ("expected", js(exp.describe())),
                        ("observed", js(obs.describe())),
                        ("difference", js(what.clone())),
                    ])
                });
            }
        };
        while let Some(r) = pull() {
            for ti in r {
                let t = tasks[ti];
                let (word, arity) = WORDS[t.w];
                match t.g {
                    G::IntPairs => {
                        let a = al.ints[t.ai];
                        for (bi, &b) in al.ints.iter().enumerate() {
                            let pair_in = (al.in_a[t.ai] && al.in_a[bi]) || (al.in_s[t.ai] && al.in_s[bi]);
                            if pair_in {
                                one(word, t.g, &V::Int(a), Some(&V::Int(b)), true, &mut lo);
                            }
                        }
                    }
                    G::Shifts => {
                        let a = al.ints[t.ai];
                        for n in 0..=127i128 {
                            one(word, t.g, &V::Int(a), Some(&V::Int(n)), true, &mut lo);
                        }
                    }
                    G::RealPairs => {
                        let a = al.reals[t.ai];
                        for &b in &al.reals {
                            one(word, t.g, &real(a), Some(&real(b)), true, &mut lo);
                        }
                    }
                    G::Mixed => {
                        for &i in &al.small_ints {
                            for &x in &al.reals {
                                one(word, t.g, &V::Int(i), Some(&real(x)), true, &mut lo);
                                one(word, t.g, &real(x), Some(&V::Int(i)), true, &mut lo);
                            }
                        }
                    }
                    G::Types => {
                        if arity == 2 {
                            let a = &al.reps[t.ai];
                            for b in &al.reps {
                                // plain number pairs over a sentinel are already in the pair groups
                                if !(plain(a) && plain(b)) {
                                    one(word, t.g, a, Some(b), true, &mut lo);
                                }
                                one(word, t.g, a, Some(b), false, &mut lo);
                            }
                        } else {
                            for a in &al.reps {
                                if !plain(a) {
                                    one(word, t.g, a, None, true, &mut lo);
                                }
                                one(word, t.g, a, None, false, &mut lo);
                            }
                        }
                    }
                    G::Unary => {
                        for &a in &al.ints {
                            one(word, t.g, &V::Int(a), None, true, &mut lo);
                        }
                        let mut seen: BTreeSet<u64> = BTreeSet::new();
                        let extra: &[f64] = if word == ">int" || word == "round" { &al.conv } else { &[] };
                        for &x in al.reals.iter().chain(extra.iter()) {
                            if seen.insert(x.to_bits()) {
                                one(word, t.g, &real(x), None, true, &mut lo);
                            }
                        }
                    }
                }
            }
        }
        cover.merge(&lo.cover);
        tot_cases.fetch_add(lo.cases, Ordering::Relaxed);
        tot_evals.fetch_add(lo.evals, Ordering::Relaxed);
        tot_cmp.fetch_add(lo.compared, Ordering::Relaxed);
        tot_nt.fetch_add(lo.nontrivial, Ordering::Relaxed);
    });

    // ---- delivery: an integer operand written in the source (or computed at compile time and emitted,
    // or held by a constant) is the operand push_data delivers; exhaustive over the whole integer
    // alphabet for the identity (`<literal>` alone) and over the boundary set squared for every word
    let n_delivery = AtomicU64::new(0);
    {
        let bset: Vec<i128> = {
            let mut s: BTreeSet<i128> = BTreeSet::new();
            for k in [7u32, 31, 32, 63, 64, 126] {
                let p = two_pow(k);
                for v in [p - 1, p, p + 1] {
                    s.insert(v);
                    s.insert(-v);
                }
            }
            for v in [0, 1, -1, i128::MAX, i128::MIN, i128::MIN + 1] {
                s.insert(v);
            }
            s.into_iter().collect()
        };
        let words: Vec<(&str, u8)> = WORDS.iter().copied().collect();
        par_run(cfg.threads, al.ints.len() + words.len() * bset.len(), 4, |_t, pull| {
            let base = boot();
            let mut n = 0u64;
            let mut check = |word: &str, a: i128, b: Option<i128>, want: &Obs, push_desc: String| {
                for form in 0..DELIVERY.len() {
                    let src = delivery_src(form, word, a, b);
                    let got = run_source(&base, &src);
                    n += 1;
                    if got.describe() != want.describe() {
                        rep.report_w(&format!("delivery:{}", DELIVERY[form].replace(' ', "-")), (V::Int(a).weight() + b.map(|b| V::Int(b).weight()).unwrap_or(0)) << 8 | form as u64, || {
                            jo(vec![
                                ("kind", js("arith-delivery")),
                                ("ops", J::A(vec![js(format!("push_data Str({:?})", SENTINEL)), js(format!("eval {:?}", src))])),
                                ("observed", js(got.describe())),
                                ("same_operands_delivered_by_push_data", js(push_desc.clone())),
                                ("gives", js(want.describe())),
                            ])
                        });
                    }
                }
            };
            while let Some(r) = pull() {
                for ti in r {
                    if ti < al.ints.len() {
                        // identity: the literal alone leaves exactly that integer
                        let a = al.ints[ti];
                        let want = Obs::Done { depth: 2, top: Some(Cell::Int(a)), below_ok: true };
                        check("", a, None, &want, format!("push_data Int({})", a));
                    } else {
                        let k = ti - al.ints.len();
                        let (word, arity) = words[k / bset.len()];
                        let a = bset[k % bset.len()];
                        if arity == 2 {
                            for &b in &bset {
                                let want = run_case(&base, word, &Cell::Int(a), Some(&Cell::Int(b)), true);
                                check(word, a, Some(b), &want, format!("push_data Int({}); push_data Int({}); eval {:?}", a, b, word));
                            }
                        } else {
                            let want = run_case(&base, word, &Cell::Int(a), None, true);
                            check(word, a, None, &want, format!("push_data Int({}); eval {:?}", a, word));
                        }
                    }
                }
            }
            n_delivery.fetch_add(n, Ordering::Relaxed);
        });
    }
    tot_cases.fetch_add(n_delivery.load(Ordering::Relaxed), Ordering::Relaxed);
    tot_evals.fetch_add(n_delivery.load(Ordering::Relaxed), Ordering::Relaxed);
    ev.add("delivery_cases", ji(n_delivery.load(Ordering::Relaxed)));
    ev.add("delivery_forms", J::A(DELIVERY.iter().map(|s| js(*s)).collect()));

    // vacuity checks: every word must have met every outcome class its semantics has
    for (w, arity) in WORDS {
        let need: Vec<&str> = match *w {
            "+" | "-" | "*" => vec!["int-exact", "int-overflow", "real", "type"],
            "/" => vec!["int-exact", "int-overflow", "divzero", "real", "type"],
            "rem" => vec!["int-exact", "divzero", "real", "type"],
            "min" | "max" => vec!["int-exact", "real", "type"],
            "<" | "<=" | ">" | ">=" | "==" | "<>" => vec!["flag", "type"],
            "band" | "bor" | "bxor" | "bsr" | "bnot" | "popcnt" => vec!["int-exact", "type"],
            "bsl" => vec!["int-exact", "int-overflow", "type"],
            "neg" | "abs" => vec!["int-exact", "int-overflow", "real", "type"],
            ">int" => vec!["int-exact", "type"],
            ">real" => vec!["real", "type"],
            "round" => vec!["round", "type"],
            _ => vec!["flag", "type"],
        };
        let _ = arity;
        for n in need {
            if cover.get(&format!("{} {}", w, n)) == 0 {
                vacuous(&format!("vacuous: C09 word {} never met outcome class {}", w, n));
            }
        }
    }
    let classes = ["nil", "flag", "int", "real", "str", "vec", "map", "bitstr", "tagged-int", "tagged-real"];
    for a in classes {
        if cover.get(&format!("types {}", a)) == 0 {
            vacuous(&format!("vacuous: C09 type matrix never supplied {} to a unary word", a));
        }
        for b in classes {
            if cover.get(&format!("types {},{}", a, b)) == 0 {
                vacuous(&format!("vacuous: C09 type matrix cell {},{} empty", a, b));
            }
        }
    }

    ev.states = tot_cases.load(Ordering::Relaxed);
    ev.transitions = tot_evals.load(Ordering::Relaxed);
    ev.traces = tot_cmp.load(Ordering::Relaxed);
    ev.evaluations = ev.transitions;
    ev.nontrivial = tot_nt.load(Ordering::Relaxed);
    for s in samples.into_inner().unwrap() {
        ev.sample(s);
    }
    ev.sample(jo(vec![("word", js("rem")), ("a", js("Int(-7)")), ("b", js("Int(3)")), ("expected", js(expect("rem", &V::Int(-7), Some(&V::Int(3))).describe()))]));
    ev.sample(jo(vec![("word", js("/")), ("a", js("Int(i128::MIN)")), ("b", js("Int(-1)")), ("expected", js(expect("/", &V::Int(i128::MIN), Some(&V::Int(-1))).describe()))]));
    ev.add("words", J::A(WORDS.iter().map(|(w, _)| js(*w)).collect()));
    ev.add("int_alphabet_size", ji(a_int.len()));
    ev.add("int_values_total", ji(al.ints.len()));
    ev.add("small_square", js(format!("[-{s},{s}]^2", s = small)));
    ev.add("real_alphabet", J::A(al.reals.iter().map(|x| js(format!("{:?}", x))).collect()));
    ev.add("type_representatives", J::A(al.reps.iter().map(|v| js(v.describe())).collect()));
    ev.add("coverage_word_x_outcome_class", cover.json());
    ev.assumptions = vec![
        "operands are injected with State::push_data above a string sentinel; the word is compiled and run with eval(\"<word>\") on a clone of a booted interpreter".into(),
        "bsl whose exact result a*2^n is not representable: accepted set {bit pattern shifted left (wrap), IntegerOverflow} (the statement lists only + - * / neg abs in the overflow clause)".into(),
        "real `rem` by zero: IEEE NaN or DivisionByZero accepted; a non-number or mixed pair divided by zero: type error or DivisionByZero accepted".into(),
        ">int of a positive non-integral real = floor (pinned by the suite: 1.4 and 1.6 give 1); negative non-integral reals, NaN, infinities and values outside the i128 range are not enumerated".into(),
        ">real of an integer that is not representable: either neighbouring double accepted".into(),
        "tags on results are not examined here (C13); a payload-free Xerr::TypeError is accepted as a type error".into(),
        "comparisons / min / max / zero? / positive? / negative? on NaN are unspecified and not enumerated; min/max of zeros of different sign: either zero".into(),
    ];
    conclude(&ev, &rep)
}
