pub mod c01;
