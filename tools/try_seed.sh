#!/bin/sh
# tools/try_seed.sh <property id> <seed dir> [tier]
# 1. in a scratch worktree: patch applies, the 144 repo tests pass, the demo fails with the patch and
#    passes without; 2. applies the patch to /repo, runs the check (evidence redirected), undoes it.
id=$1; sd=$2; tier=${3:-quick}
wt=/tmp/seedcheck-$$
git -C /repo worktree add -q $wt HEAD || exit 2
cd $wt
res=""
cp $sd/demo.rs tests_demo_tmp.rs 2>/dev/null
mkdir -p tests
cp $sd/demo.rs tests/demo.rs
if cargo test --offline --test demo >/tmp/seedcheck-$$.log 2>&1; then res="$res demo-passes-without-patch=yes"; else res="$res demo-passes-without-patch=NO"; fi
if git apply $sd/patch.diff 2>/dev/null; then res="$res applies=yes"; else res="$res applies=NO"; fi
if cargo test --offline --test demo >/tmp/seedcheck-$$.log 2>&1; then res="$res demo-fails-with-patch=NO"; else res="$res demo-fails-with-patch=yes"; fi
rm -f tests/demo.rs tests_demo_tmp.rs
if cargo test --offline --lib 2>&1 | grep -q "144 passed; 0 failed"; then res="$res suite-passes=yes"; else res="$res suite-passes=NO"; fi
cd /; git -C /repo worktree remove --force $wt
rm -f /tmp/seedcheck-$$.log
echo "SEED $id $(basename $sd):$res"
# now against the checks
git -C /repo apply $sd/patch.diff || { echo "cannot apply to /repo"; exit 2; }
mkdir -p /tmp/seedrun
out=$(XMC_OUT=/tmp/seedrun /verif/check $id $tier 2>&1); code=$?
git -C /repo checkout -- .
echo "CHECK $id $tier exit=$code"
echo "$out" | grep -E "^(VIOLATION|MACHINERY|  key=)" | cut -c1-400 | head -8
