#!/usr/bin/env python3
# regenerates /verif/MANIFEST.json from the table below
import json, subprocess

def repo_commits(prefix):
    out = subprocess.run(['git', '-C', '/repo', 'log', '--format=%h %s'], capture_output=True, text=True).stdout
    return [l.split()[0] for l in out.splitlines() if l.split(' ', 1)[1].startswith(prefix)]

CHECKS = {
 'C01': dict(
   technique='stateless exhaustive enumeration of all control-flow programs up to a node bound, each executed on the real interpreter and compared with an independent structural evaluator (reference model)',
   text='Every AST of six sub-grammars of the control-flow language (full grammar, definition bodies, construct skeletons, counted loops, definitions, names in nested definitions) up to 4-5 nodes (quick) / 5-7 nodes (thorough) is compiled and run by the real interpreter and by a big-step evaluator that never sees bytecode; result class, stack, global cells and output must agree, non-terminating programs must hit the instruction limit, after-loop index probes must fail; after every counted-loop program the next source probes I/J/K and must get the loop underflow. Complete below the bound, nothing sampled.',
   note='Trusts the structural evaluator in mc/src/cf.rs as the meaning of the source; programs above the node bound and values outside {0,1,2,3,true,false,nil} are not covered.',
   ref='DESIGN.md §4 C01'),
}

CHECKS['C04'] = dict(
   technique='stateless exhaustive DFS over bit-string operation histories (states rebuilt by replay) plus complete single-operation product sweep, against a Vec-of-bits reference model',
   text='All operation sequences of length 5 over a 78 (quick) / 152 (thorough) operation alphabet on a pool of 3 bit-strings (fresh, borrowed static, hex, builder, read, peek, seek, substr, split_at, append, insert, invert, detach, clone, drop) with every observer checked on every live value after every step; and every bit-string of length 0..=9/11 x 8 start alignments x 6 ownership recipes x 2 junk patterns x every operation with every small argument. Ownership classes reached are tabulated; a class never reached is a machinery error.',
   note='Reference model = Vec of bits; slice() may decline for unaligned values; buffers longer than a few bytes and histories longer than 5 operations are not covered.',
   ref='DESIGN.md §4 C04')
CHECKS['C09'] = dict(
   technique='exhaustive product sweep of every arithmetic/comparison/bitwise word over boundary alphabets, a complete small square and the full type matrix, against checked-i128 / IEEE f64 reference',
   text='28 words x (boundary alphabet squared + every pair in [-17,17]^2 (quick) / [-64,64]^2 (thorough)) x every shift count 0..=127 x real alphabet squared x full operand type matrix, each executed on the real interpreter under a sentinel; result must be the exact value when representable, otherwise wrapped value or IntegerOverflow; division errors and type-error payload rule checked.',
   note='Reference = Rust checked i128 / f64 operations. NaN for comparisons/min/max, shift counts outside 0..=127 and >int outside the i128 range are left unspecified by the property and not enumerated.',
   ref='DESIGN.md §4 C09')
CHECKS['C16'] = dict(
   technique='exhaustive enumeration of all strings up to a length bound over adversarial alphabets, lexed by the real lexer and by an independent reference tokenizer; print->read round trip over complete small value sets',
   text='Seven families: all strings <= 5 (quick) / 6 (thorough) over a 29-character adversarial alphabet (termination within len+2 calls, tiling by last_substr, token agreement), all integer spellings (sign x radix prefix x digit bodies + boundary spellings around +-2^127), reals, string bodies, bit-string bodies, comments, and print->read of ints, all bit-strings of 0..=12 bits and nested vectors/maps.',
   note='Reference tokenizer written from README + pinned lexer tests; typographic quotes and non-ASCII whitespace are undocumented (only generic obligations checked there); strings longer than the bound not covered.',
   ref='DESIGN.md §4 C16')
CHECKS['C02'] = dict(
   technique='explicit-state search over {rnext,next} on the real interpreter from the end of every forward run, projected machine dump (reverse log included) as state key, run to closure and compared with the recorded forward trace; programs start from the fresh interpreter and from states left by histories of failing sources',
   text='For every program of the control-flow grammar and of a repertoire grammar (stack shufflers, builders, foreach over vectors/maps, locals, variables) up to 3 (quick) / 4 (thorough) nodes plus ~100 hand-written repertoire programs (late binding, binary reads, recursion, re-initialised locals, meta blocks) the forward history S0..Sn is recorded and the state graph under rnext/next is explored to closure; every reached state must equal the recorded S_i. Because the key contains the reverse log, closure at n+1 states covers all rewind/replay interleavings of any length. Opcode and reverse-step kinds exercised are listed; a missing one is a machinery error.',
   note='Machine state = verif_dump minus instruction meter, printed output and code (late-binding cache). A failing step is not part of the stepped history; histories capped at 80 steps.',
   ref='DESIGN.md §4 C02')
CHECKS['C05'] = dict(
   technique='exhaustive product sweep width x byte order x signedness x bit offset x junk x value set on the real codecs, oracle = round trip / std byte layouts / offset independence',
   text='Widths 1..=128 x {LE,BE} x value set (all 2^w values for w <= 12 quick / 20 thorough, boundary and single-bit sets above) x field offsets 0..7,8,13 x trailing junk x junk polarity at the Rust API; the language pack/read words over the same product on thinner value sets; f32 over sign x exponent x 64 mantissas (quick) / all 2^32 patterns (thorough), f64 class set, all offsets.',
   note='The bit layout of little-endian fields of non-byte widths is left open (only round trip and offset independence demanded); unsigned 128-bit reads may report IntegerOverflow (pinned).',
   ref='DESIGN.md §4 C05')
CHECKS['C07'] = dict(
   technique='exhaustive enumeration of all field lists up to a length bound over a typed field alphabet x all emit groupings, pack-then-parse on the real interpreter',
   text='All records of <= 2 fields over a 259-element field alphabet and 3 fields over a 52-element subset (quick) / <= 3 over the full and 4 over a reduced alphabet (thorough), byte-order switches included; each packed three ways (>bitstr, bitstr-append, emit under all 2^(k-1) groupings with output interception) and parsed back: length = sum of widths, values equal (bit-exact floats), remain = 0, output/output-length agree across groupings. Every field kind must occur at every alignment 0..7 (vacuity guard).',
   note='Records above 4 fields not covered; unsigned 128-bit fields excluded (pinned overflow); NaN payloads not compared.',
   ref='DESIGN.md §4 C07')
CHECKS['C17'] = dict(
   technique='exhaustive product of failing-program templates x all whitespace/CRLF/tab/multibyte/comment prefixes up to a length bound, x 3 ways of submitting the sources, oracle computed from the generated text; two failures inside one single-stepped program',
   text='174 failing-program templates (unknown word / run-time failure at top level, inside definitions, loops, meta blocks, injected text, included files, call depth 1-3, later sources on the same interpreter) x every layout string of <= 5 (quick) / 6 (thorough) atoms over {space, tab, LF, CRLF, multibyte word, line comment}; reported source name, token byte range, line, column (characters), quoted line and pretty_error text must equal the values computed from the text.',
   note='Culprit tokens spanning lines, lone CR, and lexer parse-error sub-ranges are not covered.',
   ref='DESIGN.md §4 C17')
CHECKS['C18'] = dict(
   technique='exhaustive enumeration of all byte strings up to a length bound x presentations x codecs, and of all short texts over valid+invalid alphabets, on the real words',
   text='All byte strings of length 0..2 (+ all 2^24 three-byte strings in thorough, structured longer ones) x 23 presentations (aligned, every bit offset of a junk buffer, vectors, strings) x 4 codecs round trip; the RFC/Z85 standard text must decode; every text of <= 5/6 characters over an alphabet of valid and invalid characters x 4 decoders must give nil or a bit-string, a foreign character must give nil; acceptance equals that of >bitstr for a 48-value mixed-type alphabet.',
   note='Encoder text is not compared with a golden rendering (only decode(standard text) and round trip); inputs longer than 40 bytes not covered.',
   ref='DESIGN.md §4 C18')
CHECKS['C12'] = dict(
   technique='explicit-state BFS over map operation sequences keyed by the canonical association-list model, exhaustive map-literal / vector / string / sort enumeration on the real interpreter',
   text='BFS over insert/remove sequences to depth 4 (quick) / 5 (thorough) over an 18-key mixed-type alphabet with get of every key, foreach, equal? and old-handle immutability checked in every state; all map literals of <= 3/4 pairs; every vector/string of length 0..4/5 built by 5 recipes x push nth get slice reverse length collect unbox concat join over a 15-value index alphabet including isize/i128 extremes; sort on homogeneous lists.',
   note='Association list / Vec under the language equality is the model. The cross-type key collision is an open known finding (see known_findings.txt).',
   ref='DESIGN.md §4 C12')
CHECKS['C13'] = dict(
   technique='exhaustive differential sweep: every dictionary word x argument tuples x tagging patterns, tagged run vs untagged run on the real interpreter; tag words against a map-attached-to-value model',
   text='179 run-time words + 10 templates x all tuples of arity 0..3 over an 11 (quick) / 15 (thorough) value alphabet x every non-empty subset of tagged positions x 4 tag maps (empty, {k:v}, tags-on-tags, #fmt) x nested-tag variants: same result class, equal results, same output, provenance rule for tags in results; top-level results of words other than the stack movers must be bare; tag words checked by sequences of <= 2/3 operations against a model.',
   note='Stack residue after a failing word is not compared; #fmt is withheld from the words that honour it by design; values outside the alphabet and arity > 3 not covered.',
   ref='DESIGN.md §4 C13')
CHECKS['C10'] = dict(
   technique='explicit-state: BFS over interpreter states reachable by good / run-time-failing sources (complete dump as key); in every state every rejected source must be a no-op (identical dump, else named state + behaviour under all probes, both submission styles); exhaustive run-time-failure histories for re-execution',
   text='States reachable by histories of 12 good and 4 run-time-failing sources to depth 2 (quick) / 3 (thorough) in both submission styles (eval; compile then run); in each state every one of ~750 (quick) / ~5000 (thorough) rejected sources (prefix leaving open structures or meta blocks x failing token x trailing text) is submitted both ways and must leave no trace; by induction any history with rejected sources deleted behaves identically. Plus all histories of length <= 2/3 containing a run-time failure followed by every probe: the failure marker prints exactly once and the two styles agree. A process-level leg drives the real REPL (child process on a pipe) with histories with / without the rejected line and compares what it prints after a marker.',
   note='Assumes equal complete dumps imply equal futures. Constants overwritten in place inside a rejected source, and the stack residue of a run-time failure, are outside the check.',
   ref='DESIGN.md §4 C10')
CHECKS['C06'] = dict(
   technique='explicit-state BFS over parsing-word sequences on the real interpreter, keyed by the cursor model state, run to closure; every transition compared with the cursor model',
   text='From 5 (quick) / 9 (thorough) initial inputs (empty, with NUL, 19 bits, slices starting at bit 3/5/8, float-sized) every parsing word (bits bytes uN iN int uint fN float magic seek find remain offset input nulbytestr cstr dump big little open-bitstr close-bitstr) with every argument of the size alphabet (0..129, remain, remain+1, 2^32, 2^63-1, 2^63, 2^64-1, 2^64, i128::MAX, -1, nil, 1.5) and pattern/position alphabets, nesting <= 2/3 opened inputs, BFS to closure over the model state (input bits, consumed bits, storage base, byte order). Success: value = model bits/number, offset advanced exactly, remain and input agree. Failure: error returned, input/offset/stash and the stack below the arguments untouched.',
   note='Inputs longer than 8 bytes not covered. `find` may refuse non-byte-aligned cursors/patterns; little-endian reads of odd widths only have their cursor movement checked.',
   ref='DESIGN.md §4 C06')
CHECKS['C08'] = dict(
   technique='exhaustive product sweeps (word x argument tuples, token strings, raw text, API call sequences) on the real interpreter in two build profiles, every call under catch_unwind in journalled worker subprocesses',
   text='Four complete sweeps, each in the checked (overflow-checks + debug-assertions) and the unchecked profile: every dictionary word (241 incl. the d2 plugin) x every argument tuple of arity 0..2 over a 61-value mixed-type/boundary alphabet and arity 3 over a 12-value core (thorough: arity 3 on the full alphabet) x 4 start states; all token strings <= 3 (4) over the 55-token compiler alphabet x 3 drive modes incl. stepping and reverse stepping; all raw texts <= 4 (5) over the adversarial character alphabet; all API call sequences <= 3 (4) over 29 operations. After every case the error-formatting calls and a follow-up eval run too. A caught unwind or a dead worker (attributed to one case through the journal) is a violation.',
   note='External/non-deterministic words (random, random-bits, read-all, write-all, exec-piped, include, require) are never run; allocation-size positions are capped at 2^16 ("modest allocation sizes"); values outside the alphabet and longer token strings not covered.',
   ref='DESIGN.md §4 C08')
CHECKS['C14'] = dict(
   technique='exhaustive enumeration of every limit value against the recorded unconstrained trace of each program, stepped on the real interpreter with a per-step invariant monitor (explicit per-step invariant checking); limit sequences between evaluations; host-level definitions under every heap headroom',
   text='47 growth-path programs (pushes, unbox, collect, loops, recursion, meta blocks, var/let chains, foreach, late binding) and every program of the control-flow and repertoire grammars up to 3 (quick) / 4 (thorough) nodes: for EVERY instruction limit 0..=needed+1, EVERY stack limit 0..=deepest+2 and EVERY heap limit h0..=largest+1 the program is compiled and stepped; after every step meter <= N, stack <= S, heap <= H; insufficient limits must fail with the limit error no later than the first exceeding step, sufficient ones must not change the outcome; after lifting the limit run() resumes to the unconstrained result (N) / probes evaluate normally (S, H); same limits under a single eval. Also all sequences of 3 evaluations with limits changed in between, limits set below current usage, meta blocks on a non-empty stack (measured peaks), and the instruction budget over all sequences of 4 sources counted by printed markers.',
   note='Needed instruction count is measured, not assumed. Stack limits within 1 of the deepest observed depth may go either way (intra-instruction peaks).',
   ref='DESIGN.md §4 C14')
CHECKS['C15'] = dict(
   technique='exhaustive differential enumeration: every corpus program, and every dictionary word from idle non-fresh interpreters under stack limits with 0/1/2 free places, run in 3 drive modes x recording on/off on the real interpreter, outcomes compared',
   text='Every program of the control-flow grammar and the repertoire grammar up to 4 (quick) / 5 (thorough) nodes plus ~100 repertoire templates with a binary input, each run six ways ({eval, compile+run, compile+next*} x reverse recording off/on): result or error kind, output, visible stack, heap cells and (for successful runs) call/loop/builder stacks must agree.',
   note='Programs cut by the instruction limit (1500) are compared by result class only.',
   ref='DESIGN.md §4 C15')
CHECKS['C11'] = dict(
   technique='exhaustive differential enumeration: every constant expression up to a node bound x contexts, program with the meta block vs program with its literal values, on the real interpreter; exhaustive sealing probes; dictionary/code deltas; compile purity over program corpora',
   text='Every constant expression of an expression grammar (arithmetic, stack words, vectors, nested meta blocks, local definitions, branches) up to 5 (quick) / 6 (thorough) nodes that evaluates standalone, in 11 contexts (top level, stack neighbours, vector, map value, definition, branch in definition, loop body, outer meta, outer meta vector, variable, after definition): C[#( e #)] vs C[literal values, last first] must agree on result, stack, variables, output. Sealing: all block bodies <= 3 words over a probing alphabet x outer stacks of depth 0..3 x an outer variable. After a block only constants remain (dictionary delta; equal code growth per value class). compile of every program of three grammars leaves stack, variables, output untouched.',
   note='Value of e obtained by ordinary evaluation (eager nested blocks flattened: they share the parent meta stack, pinned by the suite). User-defined immediate words are outside the property.',
   ref='DESIGN.md §4 C11')
CHECKS['C03'] = dict(
   technique='stateless exhaustive search over operation histories on up to three interpreter copies (eval / clone / step / reverse-step), every history rebuilt by replay; isolation invariant on every other copy and differential against a clone-free fresh replay after every operation, observed through the complete dump and (second leg) through the public observers',
   text='Every history that starts with 0..2 share-building sources on the original and a clone, followed by every sequence of 3 (quick) / 4 (thorough) operations over a 43 (quick) / 61 (thorough) operation alphabet: 22 share-then-mutate sources (bit-string append/invert/and on shared buffers, vector push, map insert/remove, definitions and redefinitions, late binding, variables, emit with output interception, printing, binary-input reads, the 2D canvas host object) on copies A/B/C, clone B->C and A->C, compile + 2 steps, rnext, run. After every operation the complete dump, output and host-object probe of every other copy must be unchanged, and the operated copy must equal a freshly booted interpreter fed the same lineage without clones. A process-level leg drives the real REPL: setup line, /snapshot, two mutating lines, /rollback, probes — compared with the run without the snapshot section.',
   note='Observable state of a copy = complete verif_dump + host-object probe. The REPL snapshot bookkeeping itself is not driven. Host objects shared by clone are an open known finding.',
   ref='DESIGN.md §4 C03')

NOT_BUILT = {}

props = [json.loads(l) for l in open('/verif/properties.jsonl')]
checks = []
na = []
for p in props:
    i = p['id']
    if i in CHECKS:
        c = CHECKS[i]
        checks.append({
            'property_id': i,
            'quick_cmd': f'./check {i} quick',
            'thorough_cmd': f'./check {i} thorough',
            'evidence_file': f'/verif/evidence/{i}.json',
            'replay_cmd_template': './check replay {path}',
            'engine': 'xmc',
            'level_claimed': {'category': 'model_checking', 'text': c['text'], 'design_ref': c['ref']},
            'level_note': c['note'],
            'technique': c['technique'],
        })
    else:
        na.append({'property_id': i, 'reason': NOT_BUILT.get(i, 'check not built yet (work in progress); model checking applies, see DESIGN.md')})

m = {
 'version': 1,
 'setup_cmd': 'cd /verif/mc && CARGO_NET_OFFLINE=true cargo build --release --offline && CARGO_NET_OFFLINE=true cargo build --profile unchecked --offline',
 'hooks': {
   'guard': 'cargo feature verif_hooks',
   'enable': 'mc/Cargo.toml depends on xeh = { path = "/repo", features = ["verif_hooks"] }; every ./check rebuilds from the working tree',
   'baseline_off_cmd': 'cd /repo && cargo test --workspace --no-fail-fast --offline',
   'source_commits': repo_commits('verif hooks'),
   'add_only': True,
 },
 'engines': [{
   'name': 'xmc', 'path': '/verif/mc',
   'serves_properties': [c['property_id'] for c in checks],
   'kind_free_text': 'hand-written Rust explorer: exhaustive enumeration / explicit-state BFS over the real interpreter (linked by path, hooks on), reference models in Rust, 16-way partitioning',
 }],
 'checks': checks,
 'not_applicable': na,
 'notes': 'Genuine defects repaired in /repo as fix: commits are listed in /verif/known_findings.txt (fixed: lines); open findings there are printed as KNOWN-FINDING by the checks.',
}
json.dump(m, open('/verif/MANIFEST.json', 'w'), indent=1)
print('wrote MANIFEST.json with', len(checks), 'checks')
