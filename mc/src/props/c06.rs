// C06 — parsing cursor: a read returns exactly the requested bits and advances that far; a
// failing read / magic / seek / find leaves everything untouched; close-bitstr restores LIFO.
// Explicit-state BFS over parsing-word sequences on the real interpreter, keyed by the model
// state (stack of (input bits, relative offset, storage alignment) + byte order), run to
// closure; after every transition the real interpreter is compared with the cursor model.
use crate::common::*;
use std::collections::{BTreeMap, HashMap, VecDeque};
use xeh::bitstr::Bitstr;
use xeh::prelude::*;

#[derive(Clone, PartialEq, Eq, Hash, Debug)]
struct Level {
    bits: Vec<u8>,
    rel: usize,
    base: usize, // absolute bit position of the first bit of the input in its buffer (observed)
}
#[derive(Clone, PartialEq, Eq, Hash, Debug)]
struct Model {
    levels: Vec<Level>, // last = current input
    big: bool,
}

impl Model {
    fn cur(&self) -> &Level {
        self.levels.last().unwrap()
    }
    fn remain(&self) -> usize {
        let l = self.cur();
        l.bits.len() - l.rel
    }
}

fn lit(bits: &[u8]) -> String {
    let mut s = String::from("|");
    for b in bits {
        s.push(if *b == 1 { 'x' } else { '.' });
    }
    s.push('|');
    s
}

fn bits_of_bytes(bytes: &[u8]) -> Vec<u8> {
    let mut v = vec![];
    for b in bytes {
        for i in (0..8).rev() {
            v.push((b >> i) & 1);
        }
    }
    v
}

fn uint_of(bits: &[u8], big: bool) -> u128 {
    // groups of 8 bits from the start; big: concatenation; little: group i has weight 2^(8i)
    // (the last, possibly partial, group is a right-aligned number) — for widths that are byte
    // multiples this is the platform layout; other widths are only used with big order
    if big {
        bits.iter().fold(0u128, |a, b| (a << 1) | *b as u128)
    } else {
        let mut acc = 0u128;
        let mut shift = 0;
        for c in bits.chunks(8) {
            let v = c.iter().fold(0u128, |a, b| (a << 1) | *b as u128);
            acc |= v << shift;
            shift += c.len();
        }
        acc
    }
}
fn int_of(bits: &[u8], big: bool) -> i128 {
    let w = bits.len();
    let u = uint_of(bits, big);
    if w == 0 {
        0
    } else {
        // sign extension from bit w-1
        ((u << (128 - w)) as i128) >> (128 - w)
    }
}

#[derive(Clone, Debug)]
enum Expect {
    /// word must fail and leave everything untouched
    Fail,
    /// word must succeed, push these rendered cells (bottom first) and move the cursor to `rel`
    Ok { push: Vec<Want>, rel: usize },
    /// either outcome is acceptable, but a failure must leave everything untouched and a
    /// success must satisfy the check
    FindAny,
    /// no cursor movement, pushes nothing we check beyond stack balance (printing words)
    Neutral { pushes: usize },
}
#[derive(Clone, Debug)]
enum Want {
    Bits(Vec<u8>),
    Int(i128),
    Str(String),
    RealBits(u64),
    Any,
}

struct Op {
    name: String, // family name for keys / coverage
    src: String,
    exp: Expect,
    next: Option<Model>, // model state after success (None = unchanged / failure)
}

const SENTINEL: &str = "\"sentinel\"";

fn size_alphabet(rem: usize) -> Vec<(String, Option<usize>)> {
    let mut v: Vec<(String, Option<usize>)> = vec![];
    for n in [0usize, 1, 3, 7, 8, 9, 16, 24, 32, 64, 127, 128, 129] {
        v.push((n.to_string(), Some(n)));
    }
    v.push((rem.to_string(), Some(rem)));
    v.push(((rem + 1).to_string(), Some(rem + 1)));
    for big in ["4294967296", "9223372036854775807", "9223372036854775808", "18446744073709551615", "18446744073709551616", "170141183460469231731687303715884105727"] {
        v.push((big.to_string(), None)); // always larger than any input: must fail
    }
    v.push(("-1".to_string(), None));
    v.push(("nil".to_string(), None));
    v.push(("1.5".to_string(), None));
    v.sort();
    v.dedup();
    v
}

fn ops_for(m: &Model, max_nest: usize, quick: bool) -> Vec<Op> {
    let mut ops = vec![];
    let cur = m.cur().clone();
    let rem = m.remain();
    let rest = cur.bits[cur.rel..].to_vec();
    let moved = |n: usize| {
        let mut m2 = m.clone();
        m2.levels.last_mut().unwrap().rel += n;
        m2
    };
    // ---- bits / bytes with every size
    for (txt, n) in size_alphabet(rem) {
        let ok = n.map(|n| n <= rem).unwrap_or(false);
        ops.push(Op {
            name: "bits".into(),
            src: format!("{} bits", txt),
            exp: if ok { Expect::Ok { push: vec![Want::Bits(rest[..n.unwrap()].to_vec())], rel: cur.rel + n.unwrap() } } else { Expect::Fail },
            next: if ok { Some(moved(n.unwrap())) } else { None },
        });
        let okb = n.map(|n| n.checked_mul(8).map(|b| b <= rem).unwrap_or(false)).unwrap_or(false);
        ops.push(Op {
            name: "bytes".into(),
            src: format!("{} bytes", txt),
            exp: if okb { Expect::Ok { push: vec![Want::Bits(rest[..n.unwrap() * 8].to_vec())], rel: cur.rel + n.unwrap() * 8 } } else { Expect::Fail },
            next: if okb { Some(moved(n.unwrap() * 8)) } else { None },
        });
        // generic width reads; little-endian only for byte multiples (layout of other widths is open)
        for (w, signed) in [("uint", false), ("int", true)] {
            let nn = n.unwrap_or(usize::MAX);
            let fits = ok && if signed { nn <= 128 } else { nn <= 127 };
            let layout_defined = m.big || nn % 8 == 0 || nn < 8;
            let exp = if !ok || (!fits) {
                Expect::Fail
            } else if !layout_defined {
                Expect::Ok { push: vec![Want::Any], rel: cur.rel + nn }
            } else {
                let v = if signed { int_of(&rest[..nn], m.big) } else { uint_of(&rest[..nn], m.big) as i128 };
                Expect::Ok { push: vec![Want::Int(v)], rel: cur.rel + nn }
            };
            let next = if let Expect::Ok { .. } = exp { Some(moved(nn)) } else { None };
            ops.push(Op { name: w.into(), src: format!("{} {}", txt, w), exp, next });
        }
        if !quick || n.map(|n| n <= 64).unwrap_or(true) {
            let nn = n.unwrap_or(usize::MAX);
            let okf = ok && (nn == 32 || nn == 64);
            let exp = if okf {
                let u = uint_of(&rest[..nn], true);
                let u = if m.big { u } else { u.swap_bytes() >> (128 - nn) };
                let bits = if nn == 32 { (f32::from_bits(u as u32) as f64).to_bits() } else { u as u64 };
                Expect::Ok { push: vec![Want::RealBits(bits)], rel: cur.rel + nn }
            } else {
                Expect::Fail
            };
            let next = if okf { Some(moved(nn)) } else { None };
            ops.push(Op { name: "float".into(), src: format!("{} float", txt), exp, next });
        }
    }
    // ---- fixed-width words
    for (w, n, signed, order) in [
        ("u8", 8usize, false, None),
        ("i8", 8, true, None),
        ("u16le", 16, false, Some(false)),
        ("i16be", 16, true, Some(true)),
        ("u16", 16, false, None),
        ("i32", 32, true, None),
        ("u32be", 32, false, Some(true)),
        ("u64le", 64, false, Some(false)),
        ("i64be", 64, true, Some(true)),
    ] {
        let ok = n <= rem;
        let big = order.unwrap_or(m.big);
        let exp = if ok {
            let v = if signed { int_of(&rest[..n], big) } else { uint_of(&rest[..n], big) as i128 };
            Expect::Ok { push: vec![Want::Int(v)], rel: cur.rel + n }
        } else {
            Expect::Fail
        };
        ops.push(Op { name: "uN/iN".into(), src: w.into(), exp, next: if ok { Some(moved(n)) } else { None } });
    }
    for (w, n, order) in [("f32", 32usize, None), ("f64be", 64, Some(true)), ("f32le", 32, Some(false))] {
        let ok = n <= rem;
        let big = order.unwrap_or(m.big);
        let exp = if ok {
            let u = uint_of(&rest[..n], true);
            let u = if big { u } else { u.swap_bytes() >> (128 - n) };
            let bits = if n == 32 { (f32::from_bits(u as u32) as f64).to_bits() } else { u as u64 };
            Expect::Ok { push: vec![Want::RealBits(bits)], rel: cur.rel + n }
        } else {
            Expect::Fail
        };
        ops.push(Op { name: "fN".into(), src: w.into(), exp, next: if ok { Some(moved(n)) } else { None } });
    }
    // ---- magic
    {
        let mut pats: Vec<(Vec<u8>, bool)> = vec![(vec![], true)];
        for k in [1usize, 4, 8, 11] {
            if k <= rem {
                pats.push((rest[..k].to_vec(), true));
                for j in [0, k - 1] {
                    let mut p = rest[..k].to_vec();
                    p[j] ^= 1;
                    pats.push((p, false));
                }
            }
        }
        let mut long = rest.clone();
        long.push(1);
        pats.push((long, false));
        for (p, ok) in pats {
            let n = p.len();
            ops.push(Op {
                name: "magic".into(),
                src: format!("{} magic", lit(&p)),
                exp: if ok { Expect::Ok { push: vec![Want::Bits(p.clone())], rel: cur.rel + n } } else { Expect::Fail },
                next: if ok { Some(moved(n)) } else { None },
            });
        }
        ops.push(Op { name: "magic".into(), src: "5 magic".into(), exp: Expect::Fail, next: None });
        // the pattern is read from the input itself (a slice that does not start at bit 0 of its buffer)
        if rem >= 24 && rest[8..16] == rest[16..24] {
            ops.push(Op {
                name: "magic-slice".into(),
                src: "8 bits drop 8 bits magic".into(),
                exp: Expect::Ok { push: vec![Want::Bits(rest[16..24].to_vec())], rel: cur.rel + 24 },
                next: Some(moved(24)),
            });
        }
    }
    // ---- seek (absolute positions in the coordinates `offset` reports)
    {
        let len = cur.bits.len();
        let mut targets: Vec<(String, Option<usize>)> = vec![];
        for r in [0usize, 1, 8, cur.rel, len.saturating_sub(1), len] {
            if r <= len {
                targets.push(((cur.base + r).to_string(), Some(r)));
            }
        }
        targets.push(((cur.base + len + 1).to_string(), None));
        if cur.base > 0 {
            targets.push(((cur.base - 1).to_string(), None));
        }
        for big in ["9223372036854775807", "18446744073709551615", "18446744073709551616", "-1", "nil", "[ ]"] {
            targets.push((big.to_string(), None));
        }
        targets.sort();
        targets.dedup();
        for (txt, r) in targets {
            let mut m2 = m.clone();
            if let Some(r) = r {
                m2.levels.last_mut().unwrap().rel = r;
            }
            ops.push(Op {
                name: "seek".into(),
                src: format!("{} seek", txt),
                exp: if let Some(r) = r { Expect::Ok { push: vec![], rel: r } } else { Expect::Fail },
                next: r.map(|_| m2),
            });
        }
    }
    // ---- find
    {
        let mut pats: Vec<Vec<u8>> = vec![vec![]];
        if rem >= 8 {
            pats.push(rest[..8].to_vec());
        }
        if rem >= 24 {
            pats.push(rest[8..24].to_vec());
            pats.push(rest[16..24].to_vec());
        }
        pats.push(bits_of_bytes(&[0xEE]));
        pats.push(vec![1, 0, 1, 1]);
        for p in pats {
            ops.push(Op { name: "find".into(), src: format!("{} find", lit(&p)), exp: Expect::FindAny, next: None });
        }
        ops.push(Op { name: "find".into(), src: "7 find".into(), exp: Expect::Fail, next: None });
    }
    // ---- observers and printing words
    ops.push(Op { name: "remain".into(), src: "remain".into(), exp: Expect::Ok { push: vec![Want::Int(rem as i128)], rel: cur.rel }, next: None });
    ops.push(Op { name: "offset".into(), src: "offset".into(), exp: Expect::Ok { push: vec![Want::Int((cur.base + cur.rel) as i128)], rel: cur.rel }, next: None });
    ops.push(Op { name: "input".into(), src: "input".into(), exp: Expect::Ok { push: vec![Want::Bits(cur.bits.clone())], rel: cur.rel }, next: None });
    ops.push(Op { name: "dump".into(), src: "dump".into(), exp: Expect::Neutral { pushes: 0 }, next: None });
    // ---- nul-terminated strings
    {
        let ok = rem % 8 == 0;
        let mut n = 0;
        let mut text = String::new();
        if ok {
            for c in rest.chunks(8) {
                n += 8;
                let v = c.iter().fold(0u32, |a, b| (a << 1) | *b as u32);
                if v == 0 {
                    break;
                }
                text.push(char::from_u32(v).unwrap());
            }
        }
        ops.push(Op {
            name: "nulbytestr".into(),
            src: "nulbytestr".into(),
            exp: if ok { Expect::Ok { push: vec![Want::Bits(rest[..n].to_vec())], rel: cur.rel + n } } else { Expect::Fail },
            next: if ok { Some(moved(n)) } else { None },
        });
        ops.push(Op {
            name: "cstr".into(),
            src: "cstr".into(),
            exp: if ok { Expect::Ok { push: vec![Want::Str(text)], rel: cur.rel + n } } else { Expect::Fail },
            next: if ok { Some(moved(n)) } else { None },
        });
    }
    // ---- byte order
    for (w, b) in [("big", true), ("little", false)] {
        let mut m2 = m.clone();
        m2.big = b;
        ops.push(Op { name: "byteorder".into(), src: w.into(), exp: Expect::Ok { push: vec![], rel: cur.rel }, next: Some(m2) });
    }
    // ---- open / close
    if m.levels.len() < max_nest {
        for bytes in [vec![0x01u8, 0x00, 0xff], vec![]] {
            let bits = bits_of_bytes(&bytes);
            let mut m2 = m.clone();
            m2.levels.push(Level { bits: bits.clone(), rel: 0, base: usize::MAX });
            ops.push(Op { name: "open-literal".into(), src: format!("{} open-bitstr", lit(&bits)), exp: Expect::Ok { push: vec![], rel: 0 }, next: Some(m2) });
        }
        // open a slice that was just read from the current input (cursor of the outer input moves)
        for k in [5usize, 8, rem] {
            if k <= rem && k > 0 {
                let mut m2 = moved(k);
                m2.levels.push(Level { bits: rest[..k].to_vec(), rel: 0, base: usize::MAX });
                ops.push(Op { name: "open-slice".into(), src: format!("{} bits open-bitstr", k), exp: Expect::Ok { push: vec![], rel: 0 }, next: Some(m2) });
            }
        }
    }
    // two chunks read one after the other, the second opened first and then the first opened inside it
    // (when the chunks hold the same bits the new input equals the old one in content, not in position)
    if m.levels.len() + 2 <= max_nest + 1 && rem >= 16 {
        let mut m2 = moved(16);
        m2.levels.push(Level { bits: rest[8..16].to_vec(), rel: 0, base: usize::MAX });
        m2.levels.push(Level { bits: rest[..8].to_vec(), rel: 0, base: usize::MAX });
        ops.push(Op { name: "open-two".into(), src: "8 bits 8 bits open-bitstr open-bitstr".into(), exp: Expect::Ok { push: vec![], rel: 0 }, next: Some(m2) });
    }
    ops.push(Op { name: "open-bad".into(), src: "5 open-bitstr".into(), exp: Expect::Fail, next: None });
    if m.levels.len() > 1 {
        let mut m2 = m.clone();
        m2.levels.pop();
        let r = m2.cur().rel;
        ops.push(Op { name: "close".into(), src: "close-bitstr".into(), exp: Expect::Ok { push: vec![], rel: r }, next: Some(m2) });
    } else {
        ops.push(Op { name: "close-empty".into(), src: "close-bitstr".into(), exp: Expect::Fail, next: None });
    }
    ops
}

fn cursor_vars(xs: &Xstate) -> (String, String) {
    // (input rendered, offset rendered)
    let i = xs.get_var_value("input").map(render).unwrap_or_else(|_| "?".into());
    let o = xs.get_var_value("offset").map(render).unwrap_or_else(|_| "?".into());
    (i, o)
}

fn want_matches(w: &Want, got: &Cell) -> bool {
    match (w, got.value()) {
        (Want::Any, _) => true,
        (Want::Bits(b), Cell::Bitstr(s)) => s.bits().collect::<Vec<u8>>() == *b,
        (Want::Int(i), Cell::Int(j)) => i == j,
        (Want::Str(s), Cell::Str(t)) => s.as_str() == t.as_str(),
        (Want::RealBits(b), Cell::Real(r)) => {
            let a = f64::from_bits(*b);
            if a.is_nan() {
                r.is_nan()
            } else {
                r.to_bits() == *b
            }
        }
        _ => false,
    }
}

/// returns Err((key, detail)) on violation; Ok(true) if the transition succeeded
fn step(xs: &mut Xstate, m: &Model, op: &Op) -> Result<bool, (String, String)> {
    let before_heap = dump_get(&xs.verif_dump_light(), "heap").to_string();
    let depth0 = xs.data_depth();
    let r = guarded(|| xs.eval(&op.src)).map_err(|p| (format!("panic:{}", op.name), p))?;
    let after = xs.verif_dump_light();
    let after_heap = dump_get(&after, "heap").to_string();
    let stack = stack_of(xs);
    let sentinel_ok = !stack.is_empty() && stack[0] == "s:\"sentinel\"";
    if !sentinel_ok {
        return Err((format!("stack-below-arguments-touched:{}", op.name), format!("stack after `{}`: {:?}", op.src, stack)));
    }
    let untouched = || -> Result<(), (String, String)> {
        if after_heap != before_heap {
            return Err((format!("failed-word-moved-something:{}", op.name), format!("`{}` failed ({:?}) but input/offset/stash changed: {} -> {}", op.src, r, truncate(&before_heap, 300), truncate(&after_heap, 300))));
        }
        Ok(())
    };
    match &op.exp {
        Expect::Fail => {
            if r.is_ok() {
                return Err((format!("should-fail-but-succeeded:{}", op.name), format!("`{}` with {} bits remaining succeeded; stack {:?}", op.src, m.remain(), stack)));
            }
            untouched()?;
            Ok(false)
        }
        Expect::Neutral { pushes } => {
            if r.is_err() {
                untouched()?;
                return Ok(false);
            }
            if xs.data_depth() != depth0 + pushes || after_heap != before_heap {
                return Err((format!("neutral-word-changed-state:{}", op.name), format!("`{}`", op.src)));
            }
            Ok(true)
        }
        Expect::FindAny => {
            let cur = m.cur();
            match &r {
                Err(_) => {
                    untouched()?;
                    // a failure is only acceptable for patterns / cursors that are not byte aligned
                    let pat_bits = op.src.matches(|c| c == 'x' || c == '.').count();
                    let aligned = pat_bits % 8 == 0 && m.remain() % 8 == 0 && (cur.base + cur.rel) % 8 == 0 && op.src.starts_with('|');
                    if aligned {
                        return Err((format!("find-failed-on-aligned-input:{}", op.name), format!("`{}` failed: {:?}", op.src, r)));
                    }
                    Ok(false)
                }
                Ok(()) => {
                    untouched()?;
                    if xs.data_depth() != depth0 + 1 {
                        return Err(("find-stack-effect".into(), format!("`{}` left {:?}", op.src, stack)));
                    }
                    let pat: Vec<u8> = op.src.chars().filter(|c| *c == 'x' || *c == '.').map(|c| (c == 'x') as u8).collect();
                    let rest = &cur.bits[cur.rel..];
                    let first = (0..=rest.len().saturating_sub(pat.len())).step_by(8).find(|i| rest.len() >= i + pat.len() && rest[*i..i + pat.len()] == pat[..]);
                    let got = xs.get_data(0).unwrap().value().clone();
                    let okv = match (&got, first) {
                        (Cell::Nil, None) => true,
                        (Cell::Int(p), Some(i)) => *p == (cur.base + cur.rel + i) as i128,
                        _ => false,
                    };
                    if !okv {
                        return Err((format!("find-wrong-position:{}", op.name), format!("`{}` gave {:?}, first match at relative bit {:?} (base {}, rel {})", op.src, got, first, cur.base, cur.rel)));
                    }
                    let _ = xs.eval("drop");
                    Ok(true)
                }
            }
        }
        Expect::Ok { push, rel: _ } => {
            if let Err(e) = &r {
                untouched().ok();
                return Err((format!("should-succeed-but-failed:{}", op.name), format!("`{}` with {} bits remaining failed: {:?}", op.src, m.remain(), e)));
            }
            if xs.data_depth() != depth0 + push.len() {
                return Err((format!("stack-effect:{}", op.name), format!("`{}` left {:?}", op.src, stack)));
            }
            for (i, w) in push.iter().enumerate() {
                let got = xs.get_data(push.len() - 1 - i).unwrap();
                if !want_matches(w, got) {
                    return Err((format!("wrong-value:{}", op.name), format!("`{}` returned {} but the model expects {:?} (byte order big={})", op.src, render(got), w, m.big)));
                }
            }
            for _ in 0..push.len() {
                let _ = xs.eval("drop");
            }
            Ok(true)
        }
    }
}

/// after a successful transition: offset / remain / input must match the new model state
fn check_cursor(xs: &mut Xstate, m: &mut Model, op: &Op) -> Result<(), (String, String)> {
    let (inp, off) = cursor_vars(xs);
    let off: usize = off.trim_start_matches("i:").parse().map_err(|_| (format!("offset-not-int:{}", op.name), off.clone()))?;
    let lv = m.levels.last_mut().unwrap();
    if lv.base == usize::MAX {
        // first observation after open-bitstr: storage start is not the property's business
        lv.base = off;
    }
    let lv = m.cur();
    if off != lv.base + lv.rel {
        return Err((format!("offset-wrong:{}", op.name), format!("after `{}` offset is {} but base {} + consumed {} = {}", op.src, off, lv.base, lv.rel, lv.base + lv.rel)));
    }
    let want_inp = {
        let mut s = String::from("|");
        for b in &lv.bits {
            s.push(if *b == 1 { '1' } else { '0' });
        }
        s.push('|');
        s
    };
    if inp != want_inp {
        return Err((format!("input-wrong:{}", op.name), format!("after `{}` input is {} expected {}", op.src, inp, want_inp)));
    }
    let r = xs.eval("remain");
    let got = xs.get_data(0).cloned();
    let _ = xs.eval("drop");
    match (r, got) {
        (Ok(()), Some(Cell::Int(n))) if n == m.remain() as i128 => Ok(()),
        (r, g) => Err((format!("remain-wrong:{}", op.name), format!("after `{}` remain gives {:?} {:?}, expected {}", op.src, r, g, m.remain()))),
    }
}

fn make_inputs(quick: bool) -> Vec<(&'static str, Bitstr)> {
    let parent = Bitstr::from(vec![0xA5u8, 0x41, 0x00, 0x7E, 0xC3]);
    // wide inputs (names start with "wide"): explored without nested inputs, so that every
    // cursor position x byte order x read width up to 128 bits at every alignment is reached
    let wide_parent = Bitstr::from((0..22u32).map(|i| (i.wrapping_mul(0x9d).wrapping_add(0x5b) ^ (i << 3)) as u8).collect::<Vec<u8>>());
    let mut inputs: Vec<(&str, Bitstr)> = vec![
        ("wide: 136-bit slice at bit 1", wide_parent.substr(1, 137).unwrap()),
        ("wide: 21 bytes", wide_parent.substr(0, 168).unwrap()),
        ("empty", Bitstr::new()),
        ("3 bytes with NUL", Bitstr::from(vec![0x41u8, 0x00, 0xEE])),
        ("3 equal bytes", Bitstr::from(vec![0xAAu8, 0xAA, 0xAA])),
        ("19 bits", Bitstr::from(vec![0x12u8, 0x34, 0x56]).peek(19).unwrap()),
        ("24-bit slice at bit 3", parent.substr(3, 27).unwrap()),
        ("5 bytes (floats)", Bitstr::from(vec![0x3f, 0x80, 0, 0, 0x40])),
    ];
    if !quick {
        inputs.push(("wide: 150-bit slice at bit 4", wide_parent.substr(4, 154).unwrap()));
        inputs.push(("wide: 131-bit slice at bit 7", wide_parent.substr(7, 138).unwrap()));
        inputs.push(("wide: 160-bit slice at bit 10", wide_parent.substr(10, 170).unwrap()));
        inputs.push(("1 byte", Bitstr::from(vec![0x80u8])));
        inputs.push(("32-bit slice at bit 8", parent.substr(8, 40).unwrap()));
        inputs.push(("16-bit slice at bit 5", parent.substr(5, 21).unwrap()));
        inputs.push(("8 bytes", Bitstr::from(vec![0x3f, 0x80, 0, 0, 0x40, 0x49, 0x0f, 0xdb])));
    }
    inputs
}

pub fn run(cfg: &Cfg) -> i32 {
    let rep = Reporter::new("C06");
    let mut ev = Evidence::new("C06", cfg);
    let quick = cfg.quick();
    let max_nest = 3; // includes the boot-level empty input
    // every input is explored with reverse recording off and on (the parsing words log their
    // variable stores when recording; what they read must not depend on it)
    let n_inputs = make_inputs(quick).len() * 2;
    let cap_states: usize = if quick { 20_000 } else { 400_000 };
    let results = std::sync::Mutex::new((0u64, 0u64, BTreeMap::<String, u64>::new(), Vec::<J>::new(), Vec::<String>::new()));
    par_run(cfg.threads.min(n_inputs), n_inputs, 1, |_t, pull| {
        let inputs = make_inputs(quick);
        while let Some(r) = pull() {
            for ii2 in r {
                let (ii, recording) = (ii2 / 2, ii2 % 2 == 1);
                let (iname, ibs) = &inputs[ii];
                // the recording pass costs a copy of the growing reverse log per state: small inputs only
                if recording && (iname.starts_with("wide") || (quick && !["19 bits", "3 equal bytes", "empty"].contains(iname))) {
                    continue;
                }
                let iname_s = format!("{}{}", iname, if recording { " (reverse recording on)" } else { "" });
                let iname = &iname_s.as_str();
                let max_nest = if iname.starts_with("wide") { 2 } else { max_nest };
                let mut xs0 = boot();
                let _ = xs0.set_insn_limit(Some(100_000));
                xs0.set_recording_enabled(recording);
                xs0.eval(SENTINEL).unwrap();
                xs0.set_binary_input(ibs.clone()).unwrap();
                let m0 = Model { levels: vec![Level { bits: vec![], rel: 0, base: 0 }, Level { bits: ibs.bits().collect(), rel: 0, base: ibs.start() }], big: false };
                let mut seen: HashMap<Model, ()> = HashMap::new();
                let mut queue: VecDeque<(Xstate, Model, Vec<String>)> = VecDeque::new();
                seen.insert(m0.clone(), ());
                queue.push_back((xs0, m0, vec![]));
                let (mut nstates, mut ntrans) = (0u64, 0u64);
                let mut fam: BTreeMap<String, u64> = BTreeMap::new();
                let mut capped = false;
                while let Some((xs, m, path)) = queue.pop_front() {
                    nstates += 1;
                    for op in ops_for(&m, max_nest, quick) {
                        let mut y = xs.clone();
                        ntrans += 1;
                        let mut report = |key: String, detail: String| {
                            let mut p = path.clone();
                            p.push(op.src.clone());
                            rep.report_w(&key, p.len() as u64 * 1000 + op.src.len() as u64, || {
                                jo(vec![("kind", js("cursor")), ("input", js(*iname)), ("words", J::A(p.iter().map(|s| js(s.clone())).collect())), ("problem", js(detail.clone()))])
                            });
                        };
                        let ok = match step(&mut y, &m, &op) {
                            Ok(ok) => ok,
                            Err((k, d)) => {
                                report(k, d);
                                continue;
                            }
                        };
                        bump(&mut fam, &format!("{}:{}", op.name, if ok { "ok" } else { "fail" }));
                        if !ok {
                            continue;
                        }
                        let mut m2 = op.next.clone().unwrap_or_else(|| m.clone());
                        if let Err((k, d)) = check_cursor(&mut y, &mut m2, &op) {
                            report(k, d);
                            continue;
                        }
                        if !seen.contains_key(&m2) {
                            if seen.len() >= cap_states {
                                capped = true;
                                continue;
                            }
                            seen.insert(m2.clone(), ());
                            let mut p = path.clone();
                            p.push(op.src.clone());
                            queue.push_back((y, m2, p));
                        }
                    }
                }
                let mut g = results.lock().unwrap();
                g.0 += nstates;
                g.1 += ntrans;
                for (k, v) in fam {
                    *g.2.entry(k).or_insert(0) += v;
                }
                g.3.push(jo(vec![("input", js(*iname)), ("states", ji(nstates)), ("transitions", ji(ntrans)), ("closed", J::B(!capped))]));
                if capped {
                    g.4.push(format!("input `{}`: state cap {} reached before closure", iname, cap_states));
                }
            }
        }
    });
    let (nstates, ntrans, fam, per_input, caps) = results.into_inner().unwrap();
    for c in caps {
        ev.cap(c);
    }
    for need in ["bits:ok", "bits:fail", "bytes:fail", "uint:ok", "int:fail", "magic:ok", "magic:fail", "seek:ok", "seek:fail", "find:ok", "nulbytestr:ok", "cstr:ok", "close:ok", "close-empty:fail", "open-slice:ok", "open-two:ok", "magic-slice:ok", "float:ok", "fN:ok"] {
        if fam.get(need).copied().unwrap_or(0) == 0 && !rep.has_unknown() {
            vacuous(&format!("vacuous: no transition of class {}", need));
        }
    }
    ev.states = nstates;
    ev.transitions = ntrans;
    ev.traces = ntrans;
    ev.evaluations = ntrans;
    ev.nontrivial = fam.iter().filter(|(k, _)| k.ends_with(":ok")).map(|(_, v)| *v).sum();
    ev.rule = format!(
        "BFS from {} initial inputs over every parsing word with every argument of the size/position/pattern alphabets (sizes incl. remain, remain+1, 127..129, 2^32, 2^63-1, 2^63, 2^64-1, 2^64, i128::MAX, -1, nil, 1.5), nesting <= {} inputs (none for the wide inputs, which exist to reach reads of up to 128 bits at every alignment), keyed by the model state (input bits, consumed bits, observed storage base, byte order), to closure (or the state cap, reported); non-trivial = transitions where the word succeeded and value, offset, remain and input were checked",
        n_inputs, max_nest - 1
    );
    ev.add("per_input", J::A(per_input));
    ev.add("transition_classes", jmap(&fam));
    ev.sample(jo(vec![("input", js("24-bit slice at bit 3")), ("words", J::A(vec![js("5 bits open-bitstr"), js("big"), js("3 uint"), js("close-bitstr"), js("nulbytestr")]))]));
    ev.sample(jo(vec![("failure_case", js("18446744073709551616 bits")), ("expected", js("error, input/offset/stash and the stack below the argument untouched"))]));
    ev.assumptions = vec![
        "`offset` reports positions in the coordinates of the input's buffer; the base is observed once after each open-bitstr".into(),
        "`find` may refuse patterns or cursors that are not byte aligned (storage dependent by design) but must not move anything, and must succeed on byte-aligned ones".into(),
        "little-endian reads of widths that are neither < 8 nor a byte multiple: only the cursor movement is checked (layout left open by C05)".into(),
    ];
    conclude(&ev, &rep)
}
