// C17 — every error points at the token that caused it.
//
// Exhaustive product: failing-program templates (build-time unknown word / run-time failure of
// `get`, `/`, `assert`; top level, definitions, loops, meta blocks, injected text, included
// files, several sources on one interpreter) x EVERY layout string up to length L over
// {space, tab, LF, CRLF, a multi-byte word, a line comment} inserted at the template's
// insertion point (normally right before the culprit token).
// The harness builds every text itself, so it knows which source holds the culprit token and at
// which byte offset; the oracle (line / column / quoted line / token range / source name) is
// computed from the text alone and compared with `last_err_location()` / `pretty_error()`.
use crate::common::*;
use std::collections::BTreeMap;
use std::sync::atomic::{AtomicU64, Ordering};
use std::sync::Mutex;
use xeh::prelude::*;

/// layout atoms; every atom ends with white space, so any concatenation keeps the tokens apart.
/// `é` is defined as a no-op word in the base interpreter (a multi-byte token on the culprit's line)
const ATOMS: [&str; 6] = [" ", "\t", "\n", "\r\n", "é ", "\\ c\n"];
const ATOM_NAMES: [&str; 6] = ["space", "tab", "lf", "crlf", "multibyte", "comment"];

#[derive(Clone, Copy, PartialEq, Debug)]
enum Kind {
    Unknown,
    Get,
    Div,
    Assert,
    // the failing instruction is the one a control word itself compiles to (a branch on a
    // non-flag, a counted loop over a non-number, `of` on an empty stack, foreach over a string)
    If,
    While,
    Until,
    Do,
    Of,
    Foreach,
    // a token that spans several lines: a string literal with line breaks in it, used where a
    // number is needed (the quoted line is the line the token starts on)
    MultiLine,
    // the failing token itself spans lines: a string literal with a line break in it that is not
    // followed by a separator, an unterminated block comment, a multi-line literal as a `let`
    // pattern that does not match
    BadLiteral,
    OpenComment,
    LetPattern,
    // a word that needs a name after it is followed by a literal (possibly in the enclosing source, when the
    // word is the last token of an included file or of injected text): the word itself is blamed
    NeedsNameDef,
    NeedsNameVar,
    // the instruction budget runs out at the culprit token (the limit is measured per case)
    InsnLimit,
}

impl Kind {
    fn name(self) -> &'static str {
        match self {
            Kind::Unknown => "unknown",
            Kind::Get => "get",
            Kind::Div => "div",
            Kind::Assert => "assert",
            Kind::If => "if",
            Kind::While => "while",
            Kind::Until => "until",
            Kind::Do => "do",
            Kind::Of => "of",
            Kind::Foreach => "foreach",
            Kind::MultiLine => "multi-line-token",
            Kind::BadLiteral => "bad-literal",
            Kind::OpenComment => "open-comment",
            Kind::LetPattern => "let-pattern",
            Kind::NeedsNameDef => "needs-name-def",
            Kind::NeedsNameVar => "needs-name-var",
            Kind::InsnLimit => "insn-limit",
        }
    }
    fn culprit(self) -> &'static str {
        match self {
            Kind::Unknown => "zz9",
            Kind::Get => "get",
            Kind::Div => "/",
            Kind::Assert => "assert",
            Kind::If => "if",
            Kind::While => "while",
            Kind::Until => "until",
            Kind::Do => "do",
            Kind::Of => "of",
            Kind::Foreach => "foreach",
            Kind::MultiLine => "neg",
            Kind::BadLiteral => "\"ab\r\ncd\"",
            Kind::OpenComment => "\\( never\nclosed\r\n 2 drop",
            Kind::LetPattern => "\"ab\ncd\"",
            Kind::NeedsNameDef => ":",
            Kind::NeedsNameVar => "var",
            Kind::InsnLimit => "depth",
        }
    }
    fn args(self) -> &'static str {
        match self {
            Kind::Unknown => "",
            Kind::Get => "[ ] 0 ",
            Kind::Div => "1 0 ",
            Kind::Assert => "false ",
            Kind::If | Kind::While | Kind::Until => "1 ",
            Kind::Do => "\"ten\" 0 ",
            Kind::Of => "",
            Kind::Foreach => "\"x\" ",
            Kind::MultiLine => "\"ab\r\ncd\nef\" ",
            Kind::BadLiteral | Kind::OpenComment => "",
            Kind::LetPattern => "\"zz\" let ",
            Kind::NeedsNameDef | Kind::InsnLimit => "",
            Kind::NeedsNameVar => "7 ",
        }
    }
    fn expect_err(self) -> &'static str {
        match self {
            Kind::Unknown => "UnknownWord(zz9)",
            Kind::Get => "OutOfBounds",
            Kind::Div => "DivisionByZero",
            Kind::Assert => "AssertFailed",
            Kind::If | Kind::While | Kind::Until | Kind::Do | Kind::MultiLine => "TypeErrorMsg",
            Kind::Of => "StackUnderflow",
            Kind::Foreach => "TypeNotSupported",
            Kind::BadLiteral | Kind::OpenComment => "ParseError",
            Kind::LetPattern => "AssertEqFailed",
            Kind::NeedsNameDef | Kind::NeedsNameVar => "ExpectingName",
            Kind::InsnLimit => "",
        }
    }
}

#[derive(Clone, Copy, PartialEq, Debug)]
enum Where {
    Src(usize), // the n-th evaluated source of the case
    File,       // the included file
    Inject,     // the text injected with `~)`
}

/// Template markers: `{A}` = the culprit's arguments, `^` = layout insertion point, `@` = culprit
/// token, `{F}` = path of the included file, `{I}` = the injected text as a string-literal body.
#[derive(Clone)]
struct Tpl {
    name: &'static str,
    family: &'static str,
    kind: Kind,
    srcs: Vec<&'static str>,
    file: Option<&'static str>,
    inject: Option<&'static str>,
    culprit: Where,
    fail_at: usize,
}

fn templates() -> Vec<Tpl> {
    let mut v = vec![];
    let mut add = |name: &'static str, family: &'static str, kinds: &[Kind], srcs: &[&'static str], file: Option<&'static str>, inject: Option<&'static str>, culprit: Where, fail_at: usize| {
        for k in kinds {
            v.push(Tpl { name, family, kind: *k, srcs: srcs.to_vec(), file, inject, culprit, fail_at });
        }
    };
    let b = [Kind::Unknown];
    let r = [Kind::Get, Kind::Div, Kind::Assert];
    use Where::*;
    // ---- build-time: unknown word
    add("top", "build", &b, &["1 drop ^@ 2 drop"], None, None, Src(0), 0);
    add("alone", "build", &b, &["^@"], None, None, Src(0), 0);
    add("top-lines-after", "build", &b, &["1 drop ^@ 2 drop\r\n3 drop\n4 drop"], None, None, Src(0), 0);
    add("top-eol-lf", "build", &b, &["^@\n"], None, None, Src(0), 0);
    add("top-eol-crlf", "build", &b, &["1 ^@\r\n2"], None, None, Src(0), 0);
    add("layout-at-start", "build", &b, &["^1 drop 2 drop @ 3"], None, None, Src(0), 0);
    add("def", "build", &b, &[": w 1 drop ^@ 2 ; w"], None, None, Src(0), 0);
    add("do-loop", "build", &b, &["3 0 do I drop ^@ loop"], None, None, Src(0), 0);
    add("begin-until", "build", &b, &["begin ^@ true until"], None, None, Src(0), 0);
    add("def-do-loop", "build", &b, &[": w 2 0 do ^@ loop ; w"], None, None, Src(0), 0);
    add("vec", "build", &b, &["[ 1 ^@ ]"], None, None, Src(0), 0);
    add("if", "build", &b, &["true if ^@ then"], None, None, Src(0), 0);
    add("def-if-else", "build", &b, &[": w true if 1 else ^@ then ;"], None, None, Src(0), 0);
    add("def-after-meta", "build", &b, &[": w #( 1 2 3 4 5 6 + + + + + #) drop ^@ ; w"], None, None, Src(0), 0);
    add("meta", "build-meta", &b, &["1 #( 2 ^@ #) drop"], None, None, Src(0), 0);
    add("meta-nested", "build-meta", &b, &["#( #( ^@ #) #)"], None, None, Src(0), 0);
    add("meta-in-def", "build-meta", &b, &[": w 1 #( 2 ^@ #) ; w"], None, None, Src(0), 0);
    add("src1", "src-later", &b, &["1 var q", "q drop ^@ 3"], None, None, Src(1), 1);
    add("src2", "src-later", &b, &["1 var q\n", ": w q ;", "w drop ^@ 3"], None, None, Src(2), 2);
    add("src2-def", "src-later", &b, &["1 var q\n", "q drop", ": w q ^@ ;"], None, None, Src(2), 2);
    add("file", "include", &b, &["1 drop include \"{F}\" 2 drop"], Some("1 drop ^@ 2 drop"), None, File, 0);
    add("file-def", "include", &b, &["include \"{F}\""], Some("1 drop\n: w ^@ ;\n"), None, File, 0);
    add("file-src1", "include", &b, &["1 drop", "2 include \"{F}\" drop"], Some("^@"), None, File, 1);
    add("after-file", "include", &b, &["include \"{F}\" 1 drop ^@"], Some(": w 1 ;\n"), None, Src(0), 0);
    add("inject", "inject", &b, &["1 drop #( \"{I}\" ~) 2 drop"], None, Some("1 drop ^@ 2 drop"), Inject, 0);
    add("inject-src1", "inject", &b, &["1 drop", "#( \"{I}\" ~)"], None, Some("^@"), Inject, 1);
    add("after-inject", "inject", &b, &["#( \"1 drop\" ~) 2 drop ^@"], None, None, Src(0), 0);
    // ---- run-time failures
    add("top", "rt-top", &r, &["1 drop {A}^@ 2 drop"], None, None, Src(0), 0);
    add("alone", "rt-top", &r, &["{A}^@"], None, None, Src(0), 0);
    add("top-lines-after", "rt-top", &r, &["{A}^@ 2 drop\r\n3 drop\n"], None, None, Src(0), 0);
    add("layout-at-start", "rt-top", &r, &["^1 drop {A}@ 3"], None, None, Src(0), 0);
    add("top-do-loop", "rt-top", &r, &["2 0 do I drop {A}^@ loop"], None, None, Src(0), 0);
    add("top-after-if", "rt-top", &r, &["true if 1 drop else 2 drop then {A}^@"], None, None, Src(0), 0);
    add("top-after-meta", "rt-top", &r, &["#( 1 2 3 4 5 6 + + + + + #) drop {A}^@"], None, None, Src(0), 0);
    add("top-after-def", "rt-top", &r, &[": w 1 ; w drop {A}^@"], None, None, Src(0), 0);
    add("depth1", "rt-called", &r, &[": w1 1 drop {A}^@ 2 drop ; w1"], None, None, Src(0), 0);
    add("depth2", "rt-called", &r, &[": w1 {A}^@ ; : w2 1 w1 drop ; w2"], None, None, Src(0), 0);
    add("depth3", "rt-called", &r, &[": w1 {A}^@ ; : w2 w1 ; : w3 1 drop w2 ; 5 w3"], None, None, Src(0), 0);
    add("depth3-layout-in-caller", "rt-called", &r, &[": w1 {A}@ ; : w2 w1 ; : w3 1 drop w2 ; 5 ^w3"], None, None, Src(0), 0);
    add("def-do-loop", "rt-called", &r, &[": w1 2 0 do I drop {A}^@ loop ; w1"], None, None, Src(0), 0);
    add("def-begin-until", "rt-called", &r, &[": w1 begin {A}^@ true until ; w1"], None, None, Src(0), 0);
    add("def-if-else", "rt-called", &r, &[": w1 true if 1 drop else 2 drop then false if 3 drop else {A}^@ then ; w1"], None, None, Src(0), 0);
    add("def-after-meta", "rt-called", &r, &[": w1 #( 1 2 3 4 5 6 + + + + + #) drop {A}^@ ; w1"], None, None, Src(0), 0);
    add("def-local", "rt-called", &r, &[": w1 7 local a a drop {A}^@ ; w1"], None, None, Src(0), 0);
    add("def-loop-depth2", "rt-called", &r, &[": w1 {A}^@ ; : w2 2 0 do w1 loop ; w2"], None, None, Src(0), 0);
    add("def-second", "rt-called", &r, &[": w0 1 ; : w1 w0 drop {A}^@ ; w1"], None, None, Src(0), 0);
    add("meta", "rt-meta", &r, &["1 #( {A}^@ #) drop"], None, None, Src(0), 0);
    add("meta-call", "rt-meta", &r, &[": w1 {A}^@ ; #( w1 #)"], None, None, Src(0), 0);
    add("def0-call1", "src-later", &r, &[": w1 1 drop {A}^@ ;", "w1"], None, None, Src(0), 1);
    add("def0-call2", "src-later", &r, &[": w1 {A}^@ ;", "1 drop", " \n  w1"], None, None, Src(0), 2);
    add("def0-def1-call2", "src-later", &r, &[": w1 {A}^@ ;", "\n\n: w2 2 0 do w1 loop ;", "1 w2"], None, None, Src(0), 2);
    add("def0-call2-layout-in-caller", "src-later", &r, &[": w1 {A}@ ;\n", "\n: w2 w1 ;", "^w2"], None, None, Src(0), 2);
    // a user-defined immediate word defined by an earlier source fails while a later source is being built
    add("imm0-use1", "src-later", &r, &[": w1 immediate 1 drop {A}^@ ;", "4 drop\nw1 5"], None, None, Src(0), 1);
    add("imm0-use1-in-def", "src-later", &r, &["\n: w1 immediate {A}^@ ;", "4 drop\n: f 5 w1 ;"], None, None, Src(0), 1);
    add("imm1-use2", "src-later", &r, &["1 var q", ": w1 immediate q drop {A}^@ ;", ": f\n w1 ;"], None, None, Src(1), 2);
    add("def1-call2", "src-later", &r, &["1 var q", "\t: w1 q {A}^@ ;", "w1"], None, None, Src(1), 2);
    add("top-src2", "src-later", &r, &["1 var q", ": w q ;", "w drop {A}^@"], None, None, Src(2), 2);
    add("file-top", "include", &r, &["include \"{F}\""], Some("1 drop {A}^@ 2 drop"), None, File, 0);
    add("file-def-called-from-main", "include", &r, &["include \"{F}\" w1"], Some(": w1 {A}^@ ;"), None, File, 0);
    add("file-def-called-from-src2", "include", &r, &["1 drop", "include \"{F}\"", "\n w1"], Some("\n: w1 {A}^@ ;\n"), None, File, 2);
    add("main-def-called-from-file", "include", &r, &[": w1 {A}^@ ; include \"{F}\""], Some("\n\n  w1"), None, Src(0), 0);
    add("inject-top", "inject", &r, &["1 drop #( \"{I}\" ~) 2 drop"], None, Some("{A}^@"), Inject, 0);
    add("inject-def-called", "inject", &r, &["#( \"{I}\" ~) w1"], None, Some(": w1 {A}^@ ;"), Inject, 0);
    add("main-def-called-from-inject", "inject", &r, &[": w1 {A}^@ ; #( \"w1\" ~)"], None, None, Src(0), 0);
    // ---- the control word's own instruction fails (its jump is patched later, when the closing word is compiled)
    add("top", "rt-control", &[Kind::If], &["1 drop {A}^@ 2 drop then 3 drop"], None, None, Src(0), 0);
    add("top-else", "rt-control", &[Kind::If], &["{A}^@ 2 drop else 3 drop then"], None, None, Src(0), 0);
    add("def", "rt-control", &[Kind::If], &[": w1 {A}^@ 1 else 2 then ; w1"], None, None, Src(0), 0);
    add("nested", "rt-control", &[Kind::If], &["true if {A}^@ 1 drop then then"], None, None, Src(0), 0);
    add("def0-call1", "rt-control", &[Kind::If], &[": w1 {A}^@ 1 drop then ;\n", "\n w1"], None, None, Src(0), 1);
    add("top", "rt-control", &[Kind::While], &["begin {A}^@ 1 drop repeat 2 drop"], None, None, Src(0), 0);
    add("def", "rt-control", &[Kind::While], &[": w1 begin {A}^@ repeat ; w1"], None, None, Src(0), 0);
    add("top", "rt-control", &[Kind::Until], &["begin 1 drop {A}^@ 2 drop"], None, None, Src(0), 0);
    add("def", "rt-control", &[Kind::Until], &[": w1 begin {A}^@ ; w1"], None, None, Src(0), 0);
    add("top", "rt-control", &[Kind::Do], &["{A}^@ I drop loop 1 drop"], None, None, Src(0), 0);
    add("def", "rt-control", &[Kind::Do], &[": w1 {A}^@ loop ; : w2 w1 ; w2"], None, None, Src(0), 0);
    add("top", "rt-control", &[Kind::Of], &["case ^@ 1 endof 2 endcase"], None, None, Src(0), 0);
    add("def", "rt-control", &[Kind::Of], &[": w1 case ^@ 1 endof 2 of 3 endof endcase ; w1"], None, None, Src(0), 0);
    add("top", "rt-control", &[Kind::Foreach], &["{A}^@ I drop loop"], None, None, Src(0), 0);
    add("def", "rt-control", &[Kind::Foreach], &[": w1 {A}^@ I drop loop ; w1"], None, None, Src(0), 0);
    // ---- a failing word whose argument literal spans lines (lines are counted through it)
    add("top", "rt-multiline", &[Kind::MultiLine], &["1 drop {A}^@ 2 drop"], None, None, Src(0), 0);
    add("def", "rt-multiline", &[Kind::MultiLine], &[": w1 {A}^@ ; w1"], None, None, Src(0), 0);
    add("top", "multiline-token", &[Kind::BadLiteral], &["1 drop ^@x 2 drop"], None, None, Src(0), 0);
    add("def", "multiline-token", &[Kind::BadLiteral], &[": w1 ^@x ;"], None, None, Src(0), 0);
    add("top", "multiline-token", &[Kind::OpenComment], &["1 drop ^@"], None, None, Src(0), 0);
    add("src1", "multiline-token", &[Kind::OpenComment], &["1 var q", "q drop\n ^@"], None, None, Src(1), 1);
    let nn = [Kind::NeedsNameDef, Kind::NeedsNameVar];
    add("top", "needs-name", &nn, &["1 drop {A}^@ 5 6"], None, None, Src(0), 0);
    add("end-of-source", "needs-name", &nn, &["1 drop {A}^@"], None, None, Src(0), 0);
    add("end-of-file", "needs-name", &nn, &["include \"{F}\" 5 6"], Some("1 drop {A}^@"), None, File, 0);
    add("end-of-file-eol", "needs-name", &nn, &["1 drop include \"{F}\"\n5"], Some("{A}^@\n"), None, File, 0);
    add("end-of-injected-text", "needs-name", &nn, &["1 drop #( \"{I}\" ~) 5 6"], None, Some("{A}^@"), Inject, 0);
    add("top", "insn-limit", &[Kind::InsnLimit], &["1 drop 2 drop ^@ drop 3 drop"], None, None, Src(0), 0);
    add("def", "insn-limit", &[Kind::InsnLimit], &[": w1 1 drop ^@ drop ; w1 2 drop"], None, None, Src(0), 0);
    add("loop", "insn-limit", &[Kind::InsnLimit], &["2 0 do I drop loop ^@ drop"], None, None, Src(0), 0);
    add("top", "multiline-token", &[Kind::LetPattern], &["1 drop ^{A}@ 2 drop"], None, None, Src(0), 0);
    add("def", "multiline-token", &[Kind::LetPattern], &[": w1 ^{A}@ ; w1"], None, None, Src(0), 0);
    v
}

/// expands one template text: returns (text, byte offset of the culprit if the marker is in it)
fn expand(t: &str, kind: Kind, layout: &str, path: &str, inj: &str) -> (String, Option<usize>) {
    let t = t.replace("{A}", kind.args()).replace("{F}", path).replace("{I}", inj);
    let mut out = String::with_capacity(t.len() + layout.len() + 8);
    let mut at = None;
    for c in t.chars() {
        match c {
            '^' => out.push_str(layout),
            '@' => {
                at = Some(out.len());
                out.push_str(kind.culprit());
            }
            c => out.push(c),
        }
    }
    (out, at)
}

fn escape_lit(s: &str) -> String {
    let mut o = String::new();
    for c in s.chars() {
        match c {
            '\\' => o.push_str("\\\\"),
            '"' => o.push_str("\\\""),
            '\n' => o.push_str("\\n"),
            '\r' => o.push_str("\\r"),
            '\t' => o.push_str("\\t"),
            c => o.push(c),
        }
    }
    o
}

/// what the property demands, computed from the text alone
#[derive(Debug, Clone, PartialEq)]
pub struct Expect {
    pub line: usize,
    pub col: usize,
    pub whole_line: String,
    pub range: (usize, usize),
    pub token: String,
}

pub fn oracle(text: &str, off: usize, tok: &str) -> Expect {
    let before = &text[..off];
    let line = before.bytes().filter(|b| *b == b'\n').count();
    let start = before.rfind(|c| c == '\n' || c == '\r').map(|i| i + 1).unwrap_or(0);
    let col = text[start..off].chars().count();
    let end = text[off..].find(|c| c == '\n' || c == '\r').map(|i| off + i).unwrap_or(text.len());
    Expect { line, col, whole_line: text[start..end].to_string(), range: (off, off + tok.len()), token: tok.to_string() }
}

/// finding-key classes: narrow enough that one defect of the line/column scan gets one key
fn prev_terminator(text: &str, line_start: usize) -> &'static str {
    if line_start == 0 {
        "first-line"
    } else if text[..line_start].ends_with("\r\n") {
        "after-crlf"
    } else if text[..line_start].ends_with('\n') {
        "after-lf"
    } else {
        "after-cr"
    }
}
fn next_terminator(text: &str, line_end: usize) -> &'static str {
    if text[line_end..].starts_with("\r\n") {
        "before-crlf"
    } else if text[line_end..].starts_with('\n') {
        "before-lf"
    } else if text[line_end..].starts_with('\r') {
        "before-cr"
    } else {
        "last-line"
    }
}
fn line_class(text: &str, off: usize) -> &'static str {
    if text[..off].contains("\r\n") {
        "crlf"
    } else if text[..off].contains('\n') {
        "lf"
    } else {
        "none"
    }
}
fn col_class(text: &str, line_start: usize, off: usize) -> String {
    let pre = &text[line_start..off];
    if !pre.is_ascii() {
        "multibyte".into()
    } else if pre.contains('\t') {
        "tab".into()
    } else {
        format!("ascii:{}", prev_terminator(text, line_start))
    }
}

struct Built {
    srcs: Vec<String>,
    file: Option<String>,
    ctext: String, // text of the source that holds the culprit
    coff: usize,
    cname: String, // expected source name
}

fn build_case(t: &Tpl, layout: &str, path: &str, base_n: usize) -> Built {
    let mut ctext = None;
    let mut coff = 0;
    let mut inj_lit = String::new();
    if let Some(it) = t.inject {
        let (txt, at) = expand(it, t.kind, layout, path, "");
        inj_lit = escape_lit(&txt);
        if t.culprit == Where::Inject {
            coff = at.expect("template: inject text without culprit marker");
            ctext = Some(txt);
        }
    }
    let mut file = None;
    if let Some(ft) = t.file {
        let (txt, at) = expand(ft, t.kind, layout, path, "");
        if t.culprit == Where::File {
            coff = at.expect("template: file text without culprit marker");
            ctext = Some(txt.clone());
        }
        file = Some(txt);
    }
    let mut srcs = vec![];
    for (i, s) in t.srcs.iter().enumerate() {
        let (txt, at) = expand(s, t.kind, layout, path, &inj_lit);
        if t.culprit == Where::Src(i) {
            coff = at.expect("template: source without culprit marker");
            ctext = Some(txt.clone());
        }
        srcs.push(txt);
    }
    let cname = match t.culprit {
        Where::Src(i) => format!("<buffer#{}>", base_n + i),
        Where::File => path.to_string(),
        // `~)` interns the injected text while the source that contains it is being built
        Where::Inject => format!("<buffer#{}>", base_n + t.fail_at + 1),
    };
    Built { srcs, file, ctext: ctext.expect("template: no culprit text"), coff, cname }
}

struct Observed {
    results: Vec<String>,
    loc: Option<(String, usize, usize, String, (usize, usize), String)>,
    pretty: Option<String>,
}

pub const DRIVES: [&str; 3] = ["eval", "compile+run", "compile+next*"];

fn submit(xs: &mut Xstate, s: &str, drive: usize) -> Xresult {
    match drive {
        0 => xs.eval(s),
        1 => xs.compile(s).and_then(|_| xs.run()),
        _ => {
            xs.compile(s)?;
            let mut n = 0;
            while xs.is_running() {
                xs.next()?;
                n += 1;
                if n > 100_000 {
                    return Err(Xerr::InternalError);
                }
            }
            OK
        }
    }
}

fn run_case(base: &Xstate, b: &Built, fail_at: usize, path: &str, drive: usize, recording: bool, limit_at: Option<(usize, usize)>) -> Result<Observed, String> {
    if let Some(f) = &b.file {
        std::fs::write(path, f).map_err(|e| format!("MACHINERY cannot write {}: {}", path, e))?;
    }
    let mut xs = base.clone();
    xs.set_recording_enabled(recording);
    if let Some(range) = limit_at {
        // how many instructions run before the one compiled from the culprit token: measured by stepping an
        // unconstrained copy until the current instruction's location is that token
        let mut probe = xs.clone();
        let mut n = 0usize;
        let counted = guarded(|| -> Result<bool, Xerr> {
            probe.compile(&b.srcs[0])?;
            while probe.is_running() {
                if let Some(l) = probe.location_from_current_ip() {
                    if (l.token.range().start, l.token.range().end) == range {
                        return Ok(true);
                    }
                }
                probe.next()?;
                n += 1;
                if n > 10_000 {
                    break;
                }
            }
            Ok(false)
        });
        match counted {
            Ok(Ok(true)) => xs.set_insn_limit(Some(n)).map_err(|e| format!("MACHINERY set_insn_limit: {:?}", e))?,
            other => return Err(format!("MACHINERY C17 insn-limit template: the culprit instruction was not reached while stepping ({:?})", other.map(|r| r.map_err(|e| err_kind(&e))))),
        }
    }
    let mut results = vec![];
    for (i, s) in b.srcs.iter().enumerate() {
        let r = guarded(|| submit(&mut xs, s, drive)).map_err(|p| format!("panic in {} #{}: {}", DRIVES[drive], i, p))?;
        results.push(res_kind(&r));
        if r.is_err() || i == fail_at {
            break;
        }
    }
    if b.file.is_some() {
        // a fresh file per case (never truncate-and-rewrite)
        let _ = std::fs::remove_file(path);
    }
    let loc = guarded(|| {
        xs.last_err_location().map(|l| {
            (l.filename.to_string(), l.line, l.col, l.whole_line.as_str().to_string(), (l.token.range().start, l.token.range().end), l.token.as_str().to_string())
        })
    })
    .map_err(|p| format!("panic in last_err_location: {}", p))?;
    let pretty = guarded(|| xs.pretty_error()).map_err(|p| format!("panic in pretty_error: {}", p))?;
    Ok(Observed { results, loc, pretty })
}

fn layouts(max_len: usize) -> Vec<(String, u8)> {
    // all strings over ATOMS of length 0..=max_len, shortest first; second = bit set of atoms used
    let mut all: Vec<(String, u8)> = vec![(String::new(), 0)];
    let mut prev: Vec<(String, u8)> = vec![(String::new(), 0)];
    for _ in 0..max_len {
        let mut next = Vec::with_capacity(prev.len() * ATOMS.len());
        for (p, m) in &prev {
            for (ai, a) in ATOMS.iter().enumerate() {
                next.push((format!("{}{}", p, a), m | (1 << ai)));
            }
        }
        all.extend(next.iter().cloned());
        prev = next;
    }
    all
}

fn case_json(t: &Tpl, b: &Built, layout: &str, path: &str, exp: &Expect, obs: Option<&Observed>, what: &str) -> J {
    let mut v = vec![
        ("kind", js("c17")),
        ("template", js(format!("{}/{}", t.kind.name(), t.name))),
        ("layout", js(layout)),
        ("boot", js(": é ;   (evaluated once on the fresh interpreter; it is source #0)")),
        ("sources_in_order", J::A(b.srcs.iter().map(|s| js(s.clone())).collect())),
        ("failing_source_index", ji(t.fail_at)),
        ("what", js(what)),
        (
            "expected",
            jo(vec![
                ("source", js(b.cname.clone())),
                ("line", ji(exp.line)),
                ("col", ji(exp.col)),
                ("whole_line", js(exp.whole_line.clone())),
                ("token", js(exp.token.clone())),
                ("token_range", J::A(vec![ji(exp.range.0), ji(exp.range.1)])),
                ("pretty_contains", js(format!("{}:{}:{}", b.cname, exp.line + 1, exp.col + 1))),
            ]),
        ),
    ];
    if let Some(f) = &b.file {
        v.push(("included_file", jo(vec![("path", js(path)), ("content", js(f.clone()))])));
    }
    if let Some(o) = obs {
        v.push(("results", J::A(o.results.iter().map(|s| js(s.clone())).collect())));
        v.push((
            "observed",
            match &o.loc {
                None => J::Null,
                Some((f, l, c, w, r, tk)) => jo(vec![
                    ("source", js(f.clone())),
                    ("line", ji(*l)),
                    ("col", ji(*c)),
                    ("whole_line", js(w.clone())),
                    ("token", js(tk.clone())),
                    ("token_range", J::A(vec![ji(r.0), ji(r.1)])),
                ]),
            },
        ));
        v.push(("pretty_error", o.pretty.clone().map(js).unwrap_or(J::Null)));
    }
    jo(v)
}

pub fn run(cfg: &Cfg) -> i32 {
    let rep = Reporter::new("C17");
    let mut ev = Evidence::new("C17", cfg);
    let max_len: usize = std::env::var("VERIF_C17_LEN").ok().and_then(|s| s.parse().ok()).unwrap_or(if cfg.quick() { 5 } else { 6 });
    let tpls = templates();
    let lays = layouts(max_len);
    // scratch directory for the included files: memory-backed when there is one (a file is
    // written per case; rewriting files on a journaled disk costs far more than the check)
    let shm = std::path::Path::new("/dev/shm");
    let root = if shm.is_dir() && std::fs::write(shm.join(format!(".xmc-c17-probe-{}", std::process::id())), b"x").is_ok() {
        let _ = std::fs::remove_file(shm.join(format!(".xmc-c17-probe-{}", std::process::id())));
        shm.to_path_buf()
    } else {
        std::env::temp_dir()
    };
    let dir = root.join(format!("xmc-c17-{}", std::process::id()));
    if std::fs::create_dir_all(&dir).is_err() {
        machinery_error("C17: cannot create scratch directory");
    }
    let dir_s = dir.to_string_lossy().to_string();
    if dir_s.contains('"') || dir_s.contains('\\') || dir_s.contains(char::is_whitespace) {
        machinery_error("C17: scratch directory path needs escaping");
    }
    ev.rule = format!(
        "{} templates x every layout string of 0..={} atoms over {:?} ({} strings) x 3 ways of submitting the sources (eval, compile+run, compile+next*) x reverse recording off/on; plus two failures inside one single-stepped program (5 second culprits x layouts of 0..=3 atoms); non-trivial = the culprit token is not at line 0 / column 0 of its source and its column differs from its byte offset in the line or its line is > 0",
        tpls.len(),
        max_len,
        ATOM_NAMES,
        lays.len()
    );
    let total = tpls.len() * lays.len();
    let n_lay = lays.len();
    let cases = AtomicU64::new(0);
    let evals = AtomicU64::new(0);
    let nontriv = AtomicU64::new(0);
    let cover = Counters::new();
    let unexpected = Mutex::new(Vec::<String>::new());
    let samples = Mutex::new(Vec::<J>::new());
    let deadline = std::time::Instant::now() + std::time::Duration::from_secs(if cfg.quick() { 60 } else { 1500 });
    let capped = AtomicU64::new(0);
    par_run(cfg.threads, total, 256, |ti, pull| {
        let mut base = boot();
        base.eval(": é ;").expect("define é");
        let base_n: usize = dump_get(&base.verif_dump(), "sources_len").parse().unwrap_or_else(|_| machinery_error("C17: sources_len missing from verif_dump"));
        // one directory per worker: creating and unlinking in a shared directory serialises on its lock
        let _ = std::fs::create_dir_all(format!("{}/t{}", dir_s, ti));
        let path = format!("{}/t{}/f.xeh", dir_s, ti);
        let mut local: BTreeMap<String, u64> = BTreeMap::new();
        let (mut n_cases, mut n_evals, mut n_nt) = (0u64, 0u64, 0u64);
        while let Some(r) = pull() {
            if std::time::Instant::now() > deadline {
                capped.fetch_add(r.len() as u64, Ordering::Relaxed);
                continue;
            }
            for idx in r {
                // layout index varies fastest inside a template
                let t = &tpls[idx / n_lay];
                let (layout, amask) = &lays[idx % n_lay];
                let b = build_case(t, layout, &path, base_n);
                let exp = oracle(&b.ctext, b.coff, t.kind.culprit());
                let weight = (b.srcs.iter().map(|s| s.len()).sum::<usize>() + b.file.as_ref().map(|f| f.len()).unwrap_or(0)) as u64 + 10_000 * layout.len() as u64;
                for drive_rec in 0..DRIVES.len() * 2 {
                let (drive, recording) = (drive_rec / 2, drive_rec % 2 == 1);
                n_cases += 1;
                let limit_at = if t.kind == Kind::InsnLimit { Some(exp.range) } else { None };
                let obs = match run_case(&base, &b, t.fail_at, &path, drive, recording, limit_at) {
                    Ok(o) => o,
                    Err(p) if p.starts_with("MACHINERY") => machinery_error(&p),
                    Err(p) => {
                        rep.report_w(&format!("panic:{}", t.family), weight, || case_json(t, &b, layout, &path, &exp, None, &p));
                        continue;
                    }
                };
                n_evals += obs.results.len() as u64;
                // the template must fail where and how it was designed to
                let ok_prefix = obs.results.len() == t.fail_at + 1 && obs.results[..t.fail_at].iter().all(|r| r == "Ok");
                let want_err = if t.kind == Kind::InsnLimit { limit_kinds().0.clone() } else { t.kind.expect_err().to_string() };
                if !ok_prefix || !obs.results[t.fail_at].starts_with(&want_err) {
                    bump(&mut local, "unexpected-result");
                    let mut u = unexpected.lock().unwrap();
                    if u.len() < 5 {
                        u.push(format!("{}/{} layout {:?}: sources {:?} -> {:?} (expected failure {} at #{})", t.kind.name(), t.name, layout, b.srcs, obs.results, t.kind.expect_err(), t.fail_at));
                    }
                    continue;
                }
                bump(&mut local, &format!("template:{}/{}", t.kind.name(), t.name));
                bump(&mut local, &format!("family:{}", t.family));
                for (ai, an) in ATOM_NAMES.iter().enumerate() {
                    if amask & (1 << ai) != 0 {
                        bump(&mut local, &format!("layout-contains:{}", an));
                    }
                }
                let line_start_byte = b.ctext[..b.coff].rfind(|c| c == '\n' || c == '\r').map(|i| i + 1).unwrap_or(0);
                if exp.line > 0 || exp.col != b.coff - line_start_byte {
                    n_nt += 1;
                    if exp.col != b.coff - line_start_byte {
                        bump(&mut local, "col-differs-from-byte-col");
                    }
                    if exp.line > 0 {
                        bump(&mut local, "line>0");
                    }
                }
                if idx % (total / 7 + 1) == 3 {
                    let mut s = samples.lock().unwrap();
                    if s.len() < 8 {
                        s.push(case_json(t, &b, layout, &path, &exp, Some(&obs), "sample (passed)"));
                    }
                }
                let line_end = b.ctext[b.coff..].find(|c| c == '\n' || c == '\r').map(|i| b.coff + i).unwrap_or(b.ctext.len());
                let fam = t.family;
                let fail = |key: String, what: String| {
                    let mode = format!("{}{}", DRIVES[drive], if recording { ", reverse recording on" } else { "" });
                    let (key, what) = if drive_rec == 0 { (key, what) } else { (format!("{}|{}", key, mode), format!("{} (sources submitted as {})", what, mode)) };
                    rep.report_w(&key, weight + drive_rec as u64, || case_json(t, &b, layout, &path, &exp, Some(&obs), &what));
                };
                match &obs.loc {
                    None => fail(format!("none:{}/{}", fam, t.name), "no location reported for a failing source".into()),
                    Some((f, l, c, w, r, tk)) => {
                        if *r != exp.range || *tk != exp.token {
                            // a token of another source would also show here; tell them apart
                            if *f != b.cname {
                                fail(format!("token+source:{}/{}", fam, t.name), format!("location quotes token {:?} at {:?} of {} instead of {:?} at {:?} of {}", tk, r, f, exp.token, exp.range, b.cname));
                            } else {
                                fail(format!("token:{}/{}", fam, t.name), format!("location quotes token {:?} at {:?} instead of {:?} at {:?}", tk, r, exp.token, exp.range));
                            }
                        } else if *f != b.cname {
                            fail(format!("source:{}/{}", fam, t.name), format!("location names source {} instead of {}", f, b.cname));
                        } else if *l != exp.line {
                            fail(format!("line:{}", line_class(&b.ctext, b.coff)), format!("line {} instead of {}", l, exp.line));
                        } else if *c != exp.col {
                            fail(format!("col:{}", col_class(&b.ctext, line_start_byte, b.coff)), format!("col {} instead of {}", c, exp.col));
                        } else if *w != exp.whole_line {
                            let wkey = if w.starts_with(exp.whole_line.as_str()) || exp.whole_line.starts_with(w.as_str()) {
                                format!("whole_line:end:{}", next_terminator(&b.ctext, line_end))
                            } else {
                                format!("whole_line:start:{}", prev_terminator(&b.ctext, line_start_byte))
                            };
                            fail(wkey, format!("quoted line {:?} instead of {:?}", w, exp.whole_line));
                        } else {
                            let want = format!("{}:{}:{}", b.cname, exp.line + 1, exp.col + 1);
                            match &obs.pretty {
                                Some(p) if p.contains(&want) => {}
                                _ => fail("pretty".into(), format!("pretty_error does not contain {:?}", want)),
                            }
                        }
                    }
                }
                }
            }
        }
        cover.merge(&local);
        cases.fetch_add(n_cases, Ordering::Relaxed);
        evals.fetch_add(n_evals, Ordering::Relaxed);
        nontriv.fetch_add(n_nt, Ordering::Relaxed);
    });

    // ---- same text evaluated twice on one interpreter: the second failure belongs to the second source
    {
        let mut base = boot();
        base.eval(": é ;").expect("define é");
        let base_n: usize = dump_get(&base.verif_dump(), "sources_len").parse().unwrap_or(0);
        for (kind, text) in [(Kind::Unknown, " zz9"), (Kind::Div, "\n1 0 /"), (Kind::Get, ": w [ ] 0 get ; w")] {
            let mut xs = base.clone();
            let r1 = guarded(|| xs.eval(text));
            let name1 = xs.last_err_location().map(|l| l.filename.to_string());
            let r2 = guarded(|| xs.eval(text));
            let loc2 = xs.last_err_location().map(|l| (l.filename.to_string(), l.token.as_str().to_string()));
            cases.fetch_add(1, Ordering::Relaxed);
            evals.fetch_add(2, Ordering::Relaxed);
            let as_designed = |r: &Result<Xresult, String>| matches!(r, Ok(x) if res_kind(x) == kind.expect_err());
            let want1 = format!("<buffer#{}>", base_n);
            let want2 = format!("<buffer#{}>", base_n + 1);
            if !as_designed(&r1) || name1.as_deref() != Some(&want1) {
                vacuous("C17: identical-text probe: first evaluation did not fail as designed");
            }
            // what a failed source leaves behind is C10's subject: judge the repeat only when it failed the same way
            let (name2, tok2) = match (&loc2, as_designed(&r2)) {
                (Some((n, t)), true) => (n.clone(), t.clone()),
                _ => {
                    cover.merge(&BTreeMap::from([("identical-text:second-run-differs(skipped)".to_string(), 1u64)]));
                    continue;
                }
            };
            cover.merge(&BTreeMap::from([("identical-text:judged".to_string(), 1u64)]));
            if tok2 == kind.culprit() && name2 != want2 {
                rep.report_w("source:identical-text", text.len() as u64, || {
                    jo(vec![
                        ("kind", js("c17-repeat")),
                        ("boot", js(": é ;")),
                        ("sources_in_order", J::A(vec![js(text), js(text)])),
                        ("culprit", js(kind.culprit())),
                        ("expected_source", js(want2.clone())),
                        ("observed_source", js(name2.clone())),
                        ("what", js("a source whose text equals an earlier source's text is reported under the earlier source's name")),
                    ])
                });
            }
        }
    }

    // ---- two failures while one compiled program is single-stepped: the first word underflows, the host
    //      repairs the stack (push_data) and keeps stepping, a later word fails: every error is located at
    //      its own token. Every layout of 0..=3 atoms between the two.
    {
        let mut base = boot();
        base.eval(": é ;").expect("define é");
        let base_n: usize = dump_get(&base.verif_dump(), "sources_len").parse().unwrap_or(0);
        let short: Vec<&(String, u8)> = lays.iter().take(1 + 6 + 36 + 216).collect(); // layouts are listed shortest first
        let second: [(Kind, &str); 5] = [(Kind::Get, " 2 drop"), (Kind::Div, ""), (Kind::Assert, "\n3 drop"), (Kind::If, " 2 drop then"), (Kind::Until, "")];
        let mut n = 0u64;
        for (kind, tail) in second {
            for (layout, _) in short.iter().map(|x| (&x.0, x.1)) {
                let head = if kind == Kind::Until { "drop begin " } else { "drop " };
                let text = format!("{}{}{}{}{}", head, layout, kind.args(), kind.culprit(), tail);
                let off2 = head.len() + layout.len() + kind.args().len();
                let mut xs = base.clone();
                n += 1;
                let r = guarded(|| -> Result<(Xresult, Option<(usize, usize)>, Xresult, Option<(String, usize, usize, String, (usize, usize))>), Xerr> {
                    xs.compile(&text)?;
                    let mut step = |xs: &mut Xstate| -> Xresult {
                        let mut k = 0;
                        while xs.is_running() {
                            xs.next()?;
                            k += 1;
                            if k > 10_000 {
                                return Err(Xerr::InternalError);
                            }
                        }
                        OK
                    };
                    let r1 = step(&mut xs);
                    let l1 = xs.last_err_location().map(|l| (l.token.range().start, l.token.range().end));
                    xs.push_data(Cell::Int(1))?;
                    let r2 = step(&mut xs);
                    let l2 = xs.last_err_location().map(|l| (l.filename.to_string(), l.line, l.col, l.whole_line.as_str().to_string(), (l.token.range().start, l.token.range().end)));
                    Ok((r1, l1, r2, l2))
                });
                let (r1, l1, r2, l2) = match r {
                    Ok(Ok(x)) => x,
                    other => {
                        rep.report_w("panic:two-failures-stepping", text.len() as u64, || jo(vec![("source", js(text.clone())), ("problem", js(format!("{:?}", other.map(|r| r.map(|_| ()).map_err(|e| err_kind(&e))))))]));
                        continue;
                    }
                };
                if res_kind(&r1) != "StackUnderflow" || l1 != Some((0, 4)) || !res_kind(&r2).starts_with(kind.expect_err()) {
                    cover.merge(&BTreeMap::from([("two-failures:not-as-designed(skipped)".to_string(), 1u64)]));
                    continue;
                }
                cover.merge(&BTreeMap::from([("two-failures:judged".to_string(), 1u64)]));
                let exp = oracle(&text, off2, kind.culprit());
                let want = (format!("<buffer#{}>", base_n), exp.line, exp.col, exp.whole_line.clone(), exp.range);
                if l2.as_ref() != Some(&want) {
                    rep.report_w(&format!("second-failure-while-stepping:{}", kind.name()), (layout.len() * 1000 + text.len()) as u64, || {
                        jo(vec![
                            ("kind", js("c17-two-failures")),
                            ("boot", js(": é ;")),
                            ("calls", J::A(vec![js(format!("compile {:?}", text)), js("next() until it fails (stack underflow at `drop`)"), js("push_data(Int(1))"), js("next() until it fails again")])),
                            ("expected_location_(source, line, col, quoted line, token range)", js(format!("{:?}", want))),
                            ("observed_location", js(format!("{:?}", l2))),
                        ])
                    });
                }
            }
        }
        cases.fetch_add(n, Ordering::Relaxed);
        evals.fetch_add(n, Ordering::Relaxed);
        if cover.get("two-failures:judged") == 0 {
            vacuous("vacuous: C17 no two-failure stepping case behaved as designed");
        }
    }

    // ---- a structure still open at the end of a source: the location names THAT source, also when
    //      the last token that was read came from an included file or from injected text
    {
        let mut base = boot();
        base.eval(": é ;").expect("define é");
        let base_n: usize = dump_get(&base.verif_dump(), "sources_len").parse().unwrap_or(0);
        let ok_file = format!("{}/eoi_ok.xeh", dir.display());
        let _ = std::fs::write(&ok_file, "1 2 +\n");
        let texts: Vec<(&str, String)> = vec![
            ("after-include", format!("[ include \"{}\"", ok_file)),
            ("after-include-in-definition", format!(": f include \"{}\"\n", ok_file)),
            ("after-injected-text", ": f #( \"1 2 +\" ~)".to_string()),
            ("after-injected-text-in-vector", "[ #( \"7\" ~)\n".to_string()),
            ("plain-vector", "[ 1 2\n\n".to_string()),
            ("plain-definition", ": g 1\n".to_string()),
            ("after-comment", "[ 1 \\ c\n".to_string()),
        ];
        for (name, text) in &texts {
            let mut xs = base.clone();
            let r = guarded(|| xs.eval(text));
            cases.fetch_add(1, Ordering::Relaxed);
            evals.fetch_add(1, Ordering::Relaxed);
            if !matches!(r, Ok(Err(_))) {
                vacuous(&format!("vacuous: C17 end-of-input template {} did not fail", name));
                continue;
            }
            let want = format!("<buffer#{}>", base_n);
            let got = xs.last_err_location().map(|l| l.filename.to_string());
            cover.merge(&BTreeMap::from([("end-of-input:judged".to_string(), 1u64)]));
            if got.as_deref() != Some(&want) {
                rep.report_w(&format!("eoi:wrong-source:{}", name), text.len() as u64, || {
                    jo(vec![
                        ("kind", js("c17-end-of-input")),
                        ("boot", js(": é ;")),
                        ("source", js(text.clone())),
                        ("included_file_content", js("1 2 +\n")),
                        ("expected_source", js(want.clone())),
                        ("observed_source", js(format!("{:?}", got))),
                        ("what", js("a structure left open at the end of a source must be reported in that source")),
                    ])
                });
            }
        }
    }

    let _ = std::fs::remove_dir_all(&dir);
    let u = unexpected.into_inner().unwrap();
    if !u.is_empty() {
        vacuous(&format!("C17 vacuous: {} template cases did not fail as designed, e.g. {}", cover.get("unexpected-result"), u[0]));
    }
    let c = capped.load(Ordering::Relaxed);
    if c > 0 {
        ev.cap(format!("wall-clock cap reached, {} of {} cases not run", c, total));
    }
    // vacuity: every template and every atom must have been exercised
    for t in &tpls {
        if cover.get(&format!("template:{}/{}", t.kind.name(), t.name)) == 0 && c == 0 {
            vacuous(&format!("vacuous: template {}/{} never ran", t.kind.name(), t.name));
        }
    }
    if max_len > 0 && c == 0 {
        for an in ATOM_NAMES {
            if cover.get(&format!("layout-contains:{}", an)) == 0 {
                vacuous(&format!("vacuous: layout atom {} never used", an));
            }
        }
        if cover.get("col-differs-from-byte-col") == 0 || cover.get("line>0") == 0 {
            vacuous("vacuous: no case with a multi-byte column or a later line");
        }
    }
    for s in samples.into_inner().unwrap() {
        ev.sample(s);
    }
    ev.states = cases.load(Ordering::Relaxed);
    ev.evaluations = evals.load(Ordering::Relaxed);
    ev.transitions = ev.evaluations;
    ev.traces = ev.states;
    ev.nontrivial = nontriv.load(Ordering::Relaxed);
    ev.add("max_layout_atoms", ji(max_len));
    ev.add("layout_strings", ji(lays.len()));
    ev.add("templates", ji(tpls.len()));
    ev.add("coverage_counts", cover.json());
    ev.assumptions = vec![
        "line = number of LF before the token; column = characters since the last LF or CR; quoted line = text between the surrounding LF/CR (pinned by state.rs test_error_location)".into(),
        "sources are named <buffer#N> in evaluation order, an included file by the path given to include (pinned by test_error_location)".into(),
        "for a run-time failure inside a called word the culprit is the failing word inside the definition (pinned: `: test3 0 get ;` / `[ ] test3`)".into(),
        "one failure per fresh interpreter (what a failed source leaves behind is C10's subject), except the identical-text probe".into(),
    ];
    conclude(&ev, &rep)
}
