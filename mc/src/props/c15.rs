// C15 — how a program is driven does not change what it does.
// Every program of the corpus is run six ways: {eval, compile+run, compile+next*} x
// reverse recording {off, on}; result/error kind, visible stack, variables and output agree.
use crate::cf::*;
use crate::common::*;
use crate::corpus;
use std::collections::BTreeMap;
use std::sync::atomic::{AtomicU64, Ordering};
use xeh::prelude::*;

const LIMIT: usize = 1500;
const MODES: [&str; 3] = ["eval", "compile+run", "compile+step"];

#[derive(PartialEq, Clone, Debug)]
pub struct Outcome {
    pub kind: String,
    pub stack: String,
    pub heap: String,
    pub out: String,
    pub idle_state: String, // return/loop/builder stacks, only compared for successful runs
    pub errloc: String,     // what the failure is blamed on (token range, line, column), and whether an error is on record
}

pub fn drive(base: &Xstate, src: &str, mode: usize, recording: bool, with_input: bool) -> Result<Outcome, String> {
    let mut xs = base.clone();
    if with_input {
        xs.set_binary_input(Xbitstr::from(corpus::BIN_INPUT.to_vec())).unwrap();
    }
    let _ = xs.intercept_output(true);
    xs.set_recording_enabled(recording);
    xs.set_insn_limit(Some(LIMIT)).unwrap();
    watch::note(src);
    // several sources (separated by ` ;;; `) are submitted one after the other, each in the same way
    let r = guarded(|| {
        let mut last = OK;
        for part in src.split(" ;;; ") {
            last = match mode {
                0 => xs.eval(part),
                1 => xs.compile(part).and_then(|_| xs.run()),
                _ => (|| {
                    xs.compile(part)?;
                    let mut steps = 0;
                    while xs.is_running() {
                        xs.next()?;
                        steps += 1;
                        if steps > 4 * LIMIT {
                            return Err(Xerr::ErrorMsg("harness: step cap".into()));
                        }
                    }
                    OK
                })(),
            };
            if last.is_err() {
                break;
            }
        }
        last
    })?;
    let d = xs.verif_dump_light();
    let kind = res_kind(&r);
    let errloc = if r.is_err() {
        format!("{:?}", xs.last_err_location().map(|l| (l.token.range().start, l.token.range().end, l.line, l.col)))
    } else {
        String::new()
    };
    Ok(Outcome {
        errloc,
        kind,
        stack: dump_get(&d, "data").to_string(),
        heap: dump_get(&d, "heap").to_string(),
        out: xs.read_stdout().unwrap_or_default(),
        idle_state: format!("{}|{}|{}", dump_get(&d, "return"), dump_get(&d, "loops"), dump_get(&d, "special")),
    })
}

fn compare(src: &str, start: &str, with_input: bool, outs: &[(String, Outcome)], rep: &Reporter, local: &mut BTreeMap<String, u64>) {
    let (n0, o0) = &outs[0];
    bump(local, &format!("result:{}", o0.kind.split('(').next().unwrap_or("")));
    let limit_hit = o0.kind == limit_kinds().0;
    for (n, o) in &outs[1..] {
        let mut diff = None;
        if o.kind != o0.kind {
            diff = Some(("result", o0.kind.clone(), o.kind.clone()));
        } else if limit_hit {
            continue; // cut at the limit: only the result class is comparable
        } else if o.out != o0.out {
            diff = Some(("output", o0.out.clone(), o.out.clone()));
        } else if o.kind == "Ok" && o.stack != o0.stack {
            diff = Some(("stack", o0.stack.clone(), o.stack.clone()));
        } else if o.heap != o0.heap {
            diff = Some(("variables", o0.heap.clone(), o.heap.clone()));
        } else if o.kind == "Ok" && o.idle_state != o0.idle_state {
            diff = Some(("call/loop/builder-stacks", o0.idle_state.clone(), o.idle_state.clone()));
        } else if o.kind != "Ok" && o.errloc != o0.errloc {
            diff = Some(("error-location", o0.errloc.clone(), o.errloc.clone()));
        } else if o.kind != "Ok" && o.stack != o0.stack {
            // after a failing primitive the stack is whatever that primitive left: still the same
            // code ran, so the same residue is expected in every drive mode
            diff = Some(("stack-after-error", o0.stack.clone(), o.stack.clone()));
        }
        if let Some((what, a, b)) = diff {
            let key = format!("{}:{}-vs-{}", what, n0, n);
            rep.report_w(&key, src.len() as u64, || {
                jo(vec![
                    ("kind", js("drive-modes")),
                    ("interpreter_before", js(if start.is_empty() { "fresh (Xstate::boot)" } else { start })),
                    ("source", js(src)),
                    ("binary_input", J::B(with_input)),
                    ("insn_limit", ji(LIMIT)),
                    ("differs", js(what)),
                    (n0.as_str(), js(truncate(&a, 400))),
                    (n.as_str(), js(truncate(&b, 400))),
                ])
            });
            return;
        }
    }
}

pub fn six(base: &Xstate, src: &str, with_input: bool) -> Result<Vec<(String, Outcome)>, String> {
    let mut outs = vec![];
    for rec in [false, true] {
        for (mi, m) in MODES.iter().enumerate() {
            outs.push((format!("{}{}", m, if rec { "+rec" } else { "" }), drive(base, src, mi, rec, with_input)?));
        }
    }
    Ok(outs)
}

pub fn run(cfg: &Cfg) -> i32 {
    let rep = Reporter::new("C15");
    let mut ev = Evidence::new("C15", cfg);
    let quick = cfg.quick();
    let nprog = AtomicU64::new(0);
    let nontriv = AtomicU64::new(0);
    let classes = Counters::new();
    let gsets: Vec<(&str, Grammar, usize)> = vec![
        ("control-flow-grammar", corpus::grammar_full(), if quick { 4 } else { 5 }),
        ("repertoire-grammar", corpus::grammar_repertoire(), if quick { 4 } else { 5 }),
    ];
    let mut corp = vec![];
    for (name, gr, maxn) in &gsets {
        let mut tasks_all: Vec<Task> = vec![];
        for s in 0..=*maxn {
            tasks_all.extend(tasks(gr, s, 2, &G::top()));
        }
        let before = nprog.load(Ordering::Relaxed);
        par_run(cfg.threads, tasks_all.len(), 1, |_t, pull| {
            let base = boot();
            let mut local = BTreeMap::new();
            while let Some(r) = pull() {
                for ti in r {
                    run_task(gr, &tasks_all[ti], &mut |prog, _| {
                        let src = source(prog);
                        nprog.fetch_add(1, Ordering::Relaxed);
                        match six(&base, &src, false) {
                            Ok(outs) => {
                                if outs[0].1.kind == "Ok" && !outs[0].1.stack.is_empty() {
                                    nontriv.fetch_add(1, Ordering::Relaxed);
                                }
                                compare(&src, "", false, &outs, &rep, &mut local)
                            }
                            Err(p) => rep.report_w("panic", src.len() as u64, || jo(vec![("source", js(src.clone())), ("panic", js(p))])),
                        }
                    });
                }
            }
            classes.merge(&local);
        });
        corp.push(jo(vec![("corpus", js(*name)), ("max_nodes", ji(*maxn)), ("programs", ji(nprog.load(Ordering::Relaxed) - before))]));
    }
    let mut tpl = corpus::templates();
    // user-defined immediate words (they run while the source is compiled; everything else runs afterwards)
    for t in [
        ": foo immediate 7 ; 1 foo 2",
        ": foo immediate 7 ; : g 1 foo 2 ; g g",
        "\"a\" print : foo immediate \"i\" print ; \"b\" print foo \"c\" print",
        ": foo immediate 1 drop ; 3 0 do I foo loop",
        ": foo immediate 5 ; true if 1 foo else 2 then",
        // programs in several sources: a late-bound word called before and after its meaning changes, an
        // immediate word that reads and writes a variable of an earlier source, a failure followed by more work
        "late lw : lb lw ; : lw 1 ; lb ;;; : lw 2 ; lb",
        "late lw : lb lw ; 1 var lw lb ;;; 2 ! lw lb ;;; : lw 3 ; lb",
        "0 var cnt : bump immediate cnt 1 + ! cnt ; ;;; bump bump cnt",
        "1 var cnt : peek immediate cnt print ; ;;; 5 ! cnt ;;; peek peek",
    ] {
        tpl.push(t.to_string());
    }
    {
        let base = boot();
        let mut local = BTreeMap::new();
        for src in &tpl {
            nprog.fetch_add(1, Ordering::Relaxed);
            match six(&base, src, true) {
                Ok(outs) => {
                    if outs[0].1.kind == "Ok" {
                        nontriv.fetch_add(1, Ordering::Relaxed);
                    }
                    compare(src, "", true, &outs, &rep, &mut local)
                }
                Err(p) => rep.report_w("panic", src.len() as u64, || jo(vec![("source", js(src.clone())), ("panic", js(p))])),
            }
        }
        // ... and under a stack limit that the program may hit at any of its words (single-source programs)
        for lim in [2usize, 4] {
            let mut b3 = boot();
            b3.set_stack_limit(Some(lim)).unwrap();
            for src in tpl.iter().filter(|s| !s.contains(" ;;; ")) {
                nprog.fetch_add(1, Ordering::Relaxed);
                match six(&b3, src, true) {
                    Ok(outs) => compare(src, &format!("fresh, set_stack_limit(Some({}))", lim), true, &outs, &rep, &mut local),
                    Err(p) => rep.report_w("panic", src.len() as u64, || jo(vec![("source", js(src.clone())), ("stack_limit", ji(lim)), ("panic", js(p))])),
                }
            }
        }
        // ... and from idle interpreters that are not fresh (values on the stack, a variable defined)
        for st in ["5 6", "[ 1 2 ] \"s\" 7 var cv"] {
            let mut b2 = boot();
            b2.eval(st).unwrap();
            for src in &tpl {
                nprog.fetch_add(1, Ordering::Relaxed);
                match six(&b2, src, true) {
                    Ok(outs) => compare(src, &format!("after `{}`", st), true, &outs, &rep, &mut local),
                    Err(p) => rep.report_w("panic", src.len() as u64, || jo(vec![("source", js(src.clone())), ("start", js(st)), ("panic", js(p))])),
                }
            }
        }
        classes.merge(&local);
        corp.push(jo(vec![("corpus", js("templates (with binary input), from the fresh interpreter and from two idle non-fresh ones")), ("programs", ji(tpl.len() * 3))]));
    }
    // every word of the dictionary as a one-word program (and after `over over`), from idle interpreters that
    // are not fresh (values left on the stack, variables defined) and under stack limits with 0 / 1 / 2
    // free places: a word that is refused, or that prints what it sees of the stack, must do so alike
    // in all six runs
    {
        const EXTERNAL: [&str; 9] = ["random", "random-bits", "read-all", "write-all", "exec-piped", "include", "require", "exit", "bye"];
        let words: Vec<String> = boot().word_list().iter().map(|s| s.to_string()).filter(|w| !EXTERNAL.contains(&w.as_str())).collect();
        let starts: [&str; 5] = ["", "10 20 30", "[ 1 2 ] \"s\" 5 7 var cv", "1.5 nil |ff| { 1 \"k\" }", "10 [ 1 2 3 ]"];
        let before = nprog.load(Ordering::Relaxed);
        par_run(cfg.threads, words.len(), 4, |_t, pull| {
            let mut local = BTreeMap::new();
            let mut bases: Vec<(String, Xstate)> = vec![];
            for st in starts {
                for headroom in [None, Some(0usize), Some(1), Some(2)] {
                    let mut xs = boot();
                    xs.eval(st).unwrap();
                    if let Some(h) = headroom {
                        let d = xs.data_depth();
                        xs.set_stack_limit(Some(d + h)).unwrap();
                    }
                    bases.push((format!("after `{}`, stack limit {}", st, headroom.map(|h| format!("= depth + {}", h)).unwrap_or("none".into())), xs));
                }
            }
            while let Some(r) = pull() {
                for wi in r {
                    for prog in [words[wi].clone(), format!("over over {}", words[wi])] {
                        for (bname, base) in &bases {
                            nprog.fetch_add(1, Ordering::Relaxed);
                            match six(base, &prog, true) {
                                Ok(outs) => {
                                    if outs[0].1.kind == "Ok" {
                                        nontriv.fetch_add(1, Ordering::Relaxed);
                                    }
                                    compare(&prog, bname, true, &outs, &rep, &mut local)
                                }
                                Err(p) => rep.report_w("panic", prog.len() as u64, || jo(vec![("source", js(prog.clone())), ("start", js(bname.clone())), ("panic", js(p))])),
                            }
                        }
                    }
                }
            }
            classes.merge(&local);
        });
        corp.push(jo(vec![("corpus", js("every dictionary word, alone and after `over over`, from 4 idle start states x 4 stack-limit settings")), ("words", ji(words.len())), ("programs", ji(nprog.load(Ordering::Relaxed) - before))]));
    }
    ev.evaluations = nprog.load(Ordering::Relaxed) * 6;
    ev.states = nprog.load(Ordering::Relaxed);
    ev.transitions = ev.evaluations;
    ev.traces = ev.states;
    ev.nontrivial = nontriv.load(Ordering::Relaxed);
    ev.rule = format!(
        "every program of the control-flow grammar and the repertoire grammar up to {} nodes plus {} repertoire templates, each run six ways ({{eval, compile+run, compile+next*}} x recording off/on) under an instruction limit of {}; compared: result/error kind, output, visible stack, heap cells, and (for successful runs) call/loop/builder stacks; non-trivial = programs that succeed and leave something on the stack (distinct sources)",
        gsets[0].2, tpl.len(), LIMIT
    );
    ev.add("corpora", J::A(corp));
    ev.add("result_classes_of_the_reference_run", classes.json());
    ev.sample(jo(vec![("program", js(tpl[4].clone())), ("runs", J::A(MODES.iter().map(|m| js(*m)).collect()))]));
    ev.sample(jo(vec![("program", js("begin 1 break repeat "))]));
    ev.assumptions = vec!["programs cut by the instruction limit are compared by result class only".into()];
    conclude(&ev, &rep)
}
