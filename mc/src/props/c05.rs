// C05 — number <-> bits codecs are exact inverses and independent of alignment.
//
// Complete products, no sampling:
//   A. Rust API, integers: width 1..=128 x {LE,BE} x value set U(w) (all 2^w values for small w,
//      boundary/single-bit/pattern/truncation values above) x field offset k x trailing junk
//      0..=7 bits x junk polarity. Oracles: (a) to_uint(from_int(v)) = v mod 2^w, to_int = its
//      two's complement reading; (b) byte-multiple widths: to_bytes = std to_le/to_be bytes;
//      (c) decode of the field embedded at bit offset k inside a larger buffer = decode at
//      offset 0; (d) len = w.
//   B. width 0 (edge named by the design: `0 int`): must not panic; a value must be 0.
//   C. language words through eval: pack words (`uint! int! uN! iN! ..le! ..be!` under
//      `big`/`little`) against the API bits; read words (`uint int uN iN ..le ..be`) on a literal
//      holding the field at offset k; pure language round trip.
//   D. floats: f32 (quick: sign x exponent x 64 mantissa patterns; thorough: all 2^32 patterns),
//      f64 class set; both orders; offsets; bit-exact via to_bits. Language words f32!/f64!/float!
//      and f32/f64/float (f32 NaN compared by class at the language level only).
use crate::common::*;
use std::collections::{BTreeMap, BTreeSet};
use std::sync::atomic::{AtomicU64, Ordering};
use std::sync::Mutex;
use xeh::bitstr::{Bitstr, Byteorder, BIG, LITTLE};
use xeh::prelude::*;

// ------------------------------------------------------------------ small helpers
fn oname(o: Byteorder) -> &'static str {
    if o == BIG { "be" } else { "le" }
}
fn oword(o: Byteorder) -> &'static str {
    if o == BIG { "big" } else { "little" }
}
/// the same order reached another way: the opposite order is selected with its word, a codec is
/// used once, then the order is changed by a plain store to the `big?` variable
fn ostore(o: Byteorder) -> String {
    format!("{} 0 u8! drop {} ! big?", oword(opposite(o)), if o == BIG { 1 } else { 0 })
}
fn opposite(o: Byteorder) -> Byteorder {
    if o == BIG { LITTLE } else { BIG }
}
const ORDERS: [Byteorder; 2] = [LITTLE, BIG];

fn mask(w: usize) -> u128 {
    if w >= 128 { u128::MAX } else { (1u128 << w) - 1 }
}
/// the value reduced modulo 2^w
pub fn model_u(v: i128, w: usize) -> u128 {
    (v as u128) & mask(w)
}
/// two's complement reading of the low w bits
pub fn model_i(v: i128, w: usize) -> i128 {
    if w == 0 {
        return 0;
    }
    let u = model_u(v, w);
    if w < 128 && (u >> (w - 1)) & 1 == 1 {
        (u | !mask(w)) as i128
    } else {
        u as i128
    }
}

fn bits_of(bs: &Bitstr) -> Vec<u8> {
    bs.bits().collect()
}
fn lit_of(bits: &[u8]) -> String {
    bits.iter().map(|b| if *b != 0 { 'x' } else { '.' }).collect()
}

/// buffer = k junk bits, the field, t junk bits, junk up to the byte boundary
fn embed_bits(bits: &[u8], k: usize, t: usize, junk: u8) -> (Vec<u8>, usize) {
    let total = k + bits.len() + t;
    let nbytes = (total + 7) / 8;
    let mut buf = vec![if junk != 0 { 0xffu8 } else { 0u8 }; nbytes];
    for (i, b) in bits.iter().enumerate() {
        let pos = k + i;
        let m = 0x80u8 >> (pos % 8);
        if *b != 0 {
            buf[pos / 8] |= m;
        } else {
            buf[pos / 8] &= !m;
        }
    }
    (buf, nbytes * 8)
}
/// the field as a sub-range of the larger buffer (shares the buffer, start = k)
fn embed(bits: &[u8], k: usize, t: usize, junk: u8) -> Bitstr {
    let (buf, _) = embed_bits(bits, k, t, junk);
    Bitstr::from(buf).substr(k, k + bits.len()).expect("substr inside buffer")
}
/// all bits of the embedding buffer as a source literal |x..x|
fn embed_literal(bits: &[u8], k: usize, t: usize, junk: u8) -> String {
    let (buf, n) = embed_bits(bits, k, t, junk);
    let all: Vec<u8> = (0..n).map(|p| (buf[p / 8] >> (7 - p % 8)) & 1).collect();
    lit_of(&all)
}
fn hex(b: &[u8]) -> String {
    b.iter().map(|x| format!("{:02x}", x)).collect::<Vec<_>>().join(" ")
}

const OFFSETS: [usize; 10] = [0, 1, 2, 3, 4, 5, 6, 7, 8, 13];

// ------------------------------------------------------------------ value sets
fn ramp128() -> u128 {
    let mut r = 0u128;
    for i in 1..=16u128 {
        r = (r << 8) | i;
    }
    r
}

/// U(w): all 2^w values (plus truncation aliases) for w <= full, boundary set above
pub fn values(w: usize, full: usize, seed: u64) -> Vec<i128> {
    let mut s: BTreeSet<i128> = BTreeSet::new();
    let m = mask(w);
    if w <= full {
        for v in 0..(1i128 << w) {
            s.insert(v);
        }
    }
    let top = if w == 0 { 0 } else { 1u128 << (w - 1) };
    // boundary values
    for v in [0i128, 1, -1, 2, -2, 3, 7, 8, 255, 256, -128, -129] {
        s.insert(v);
    }
    s.insert(model_i(top as i128, w)); // min
    s.insert(model_i(top as i128, w).wrapping_add(1)); // min + 1
    s.insert((top.wrapping_sub(1)) as i128); // max
    s.insert((top.wrapping_sub(2)) as i128); // max - 1
    s.insert(m as i128); // unsigned max (as i128; -1 for w = 128)
    // every single-bit value and its complement
    for i in 0..w {
        let b = 1u128 << i;
        s.insert(b as i128);
        s.insert((!b & m) as i128);
        s.insert(!(b as i128)); // negative, wider than w
    }
    // patterns
    let p5 = 0x5555_5555_5555_5555_5555_5555_5555_5555u128;
    let pa = !p5;
    for p in [p5, pa, ramp128(), ramp128() >> (128 - w.max(1).min(128)), 0x8000_0000_0000_0000_0000_0000_0000_0001u128, 0x0123_4567_89ab_cdef_fedc_ba98_7654_3210u128] {
        s.insert((p & m) as i128); // in range
        s.insert(p as i128); // wider than w: truncation
    }
    // wider numbers whose residue matters
    for v in [i128::MAX, i128::MIN, i128::MIN + 1, i128::MAX - 1] {
        s.insert(v);
    }
    if w < 127 {
        s.insert(1i128 << w); // residue 0
        s.insert((1i128 << w) + 1); // residue 1
        s.insert(-(1i128 << w) - 1); // residue all-ones
    }
    // seed-derived extras (added members only; the product is still complete)
    for i in 0..4u64 {
        let hi = mix(seed, 1000 + 2 * i + (w as u64) * 16) as u128;
        let lo = mix(seed, 1001 + 2 * i + (w as u64) * 16) as u128;
        let x = (hi << 64) | lo;
        s.insert(x as i128);
        s.insert((x & m) as i128);
    }
    s.into_iter().collect()
}

/// thin set for the language level
fn thin_values(w: usize, seed: u64) -> Vec<i128> {
    let mut s: BTreeSet<i128> = BTreeSet::new();
    let m = mask(w);
    if w <= 4 {
        for v in 0..(1i128 << w) {
            s.insert(v);
        }
    }
    let top = 1u128 << (w - 1);
    for v in [0i128, 1, -1, -2] {
        s.insert(v);
    }
    s.insert(model_i(top as i128, w));
    s.insert((top - 1) as i128);
    s.insert(m as i128);
    s.insert((1u128 << (w / 2)) as i128);
    s.insert((0x5555_5555_5555_5555_5555_5555_5555_5555u128 & m) as i128);
    s.insert((ramp128() >> (128 - w)) as i128);
    s.insert(ramp128() as i128); // wider: truncation
    s.insert(i128::MIN + 5); // wider: truncation
    let x = ((mix(seed, 77 + w as u64) as u128) << 64) | mix(seed, 78 + w as u64) as u128;
    s.insert((x & m) as i128);
    s.into_iter().collect()
}

// ------------------------------------------------------------------ shared run state
struct Tot {
    cases: AtomicU64,
    ops: AtomicU64,
    cmps: AtomicU64,
    evals: AtomicU64,
    nontrivial: AtomicU64,
}

struct Local {
    cases: u64,
    ops: u64,
    cmps: u64,
    evals: u64,
    nontrivial: u64,
    cov: BTreeMap<String, u64>,
}
impl Local {
    fn new() -> Local {
        Local { cases: 0, ops: 0, cmps: 0, evals: 0, nontrivial: 0, cov: BTreeMap::new() }
    }
    fn flush(&self, tot: &Tot, cov: &Counters) {
        tot.cases.fetch_add(self.cases, Ordering::Relaxed);
        tot.ops.fetch_add(self.ops, Ordering::Relaxed);
        tot.cmps.fetch_add(self.cmps, Ordering::Relaxed);
        tot.evals.fetch_add(self.evals, Ordering::Relaxed);
        tot.nontrivial.fetch_add(self.nontrivial, Ordering::Relaxed);
        cov.merge(&self.cov);
    }
}

fn offset_key(order: Byteorder, k: usize) -> String {
    if order == LITTLE && k % 8 != 0 {
        "le-unaligned".to_string()
    } else {
        format!("offset:{}:{}", oname(order), if k % 8 == 0 { "byte-aligned" } else { "unaligned" })
    }
}

/// smaller = simpler case: narrow field, small offset, few set bits, value given in range
fn weight(w: usize, k: usize, v: i128) -> u64 {
    let u = model_u(v, w);
    let in_range = v >= 0 && v as u128 == u;
    (w as u64) * 10_000_000 + (k as u64) * 100_000 + (u.count_ones() as u64) * 1000 + (u.min(499) as u64) + if in_range { 0 } else { 500 }
}


/// Which finding family does a wrong language-level integer read belong to? If the Rust API
/// decodes the very same bits wrongly too, it is the API's finding (same key as section A);
/// only a read word that disagrees with a correct API gets a language-level key.
fn classify_int_read(bits: &[u8], w: usize, order: Byteorder, signed: bool, k: usize, t: usize, junk: u8, u_exp: u128, i_exp: i128, lang_key: String) -> String {
    let on = oname(order);
    let wclass = if w % 8 == 0 { "byte-width" } else { "odd-width" };
    let dec = |b: &Bitstr| -> Option<bool> { guarded(|| if signed { b.to_int(order) == i_exp } else { b.to_uint(order) == u_exp }).ok() };
    let at0 = dec(&embed(bits, 0, 0, 0));
    if at0 != Some(true) {
        return format!("roundtrip:{}:{}:{}", on, if signed { "int" } else { "uint" }, wclass);
    }
    if dec(&embed(bits, k, t, junk)) != Some(true) {
        return offset_key(order, k);
    }
    lang_key
}

// ------------------------------------------------------------------ A. API integers
fn api_int_case(w: usize, order: Byteorder, v: i128, rep: &Reporter, l: &mut Local) {
    let u_exp = model_u(v, w);
    let i_exp = model_i(v, w);
    let on = oname(order);
    l.cases += 1;
    l.ops += 1;
    let f = match guarded(|| Bitstr::from_int(v, w, order)) {
        Ok(f) => f,
        Err(p) => {
            rep.report_w("panic:from_int", weight(w, 0, v), || {
                jo(vec![("kind", js("api")), ("call", js(format!("Bitstr::from_int({}, {}, {})", v, w, on))), ("observed", js(format!("panic: {}", p)))])
            });
            return;
        }
    };
    l.cmps += 1;
    if f.len() != w {
        rep.report_w("from_int:len", weight(w, 0, v), || {
            jo(vec![("kind", js("api")), ("call", js(format!("Bitstr::from_int({}, {}, {}).len()", v, w, on))), ("expected", ji(w)), ("observed", ji(f.len()))])
        });
        return;
    }
    let bits = bits_of(&f);
    // (a) round trip at offset 0
    l.ops += 2;
    let (du, di) = match guarded(|| (f.to_uint(order), f.to_int(order))) {
        Ok(x) => x,
        Err(p) => {
            rep.report_w("panic:decode-at-0", weight(w, 0, v), || {
                jo(vec![("kind", js("api")), ("call", js(format!("Bitstr::from_int({}, {}, {}).to_uint/to_int({})", v, w, on, on))), ("observed", js(format!("panic: {}", p)))])
            });
            return;
        }
    };
    l.cmps += 2;
    let wclass = if w % 8 == 0 { "byte-width" } else { "odd-width" };
    if du != u_exp {
        rep.report_w(&format!("roundtrip:{}:uint:{}", on, wclass), weight(w, 0, v), || {
            jo(vec![
                ("kind", js("api")),
                ("call", js(format!("Bitstr::from_int({}, {}, {}).to_uint({})", v, w, on, on))),
                ("field_bits", js(lit_of(&bits))),
                ("expected", js(format!("{}", u_exp))),
                ("observed", js(format!("{}", du))),
            ])
        });
    }
    if di != i_exp {
        rep.report_w(&format!("roundtrip:{}:int:{}", on, wclass), weight(w, 0, v), || {
            jo(vec![
                ("kind", js("api")),
                ("call", js(format!("Bitstr::from_int({}, {}, {}).to_int({})", v, w, on, on))),
                ("field_bits", js(lit_of(&bits))),
                ("expected", js(format!("{}", i_exp))),
                ("observed", js(format!("{}", di))),
            ])
        });
    }
    // (b) standard byte layouts
    if w % 8 == 0 {
        let n = w / 8;
        let exp: Vec<u8> = if order == LITTLE { u_exp.to_le_bytes()[..n].to_vec() } else { u_exp.to_be_bytes()[16 - n..].to_vec() };
        l.ops += 1;
        l.cmps += 1;
        let got = f.to_bytes();
        if got.as_deref() != Some(&exp[..]) {
            rep.report_w(&format!("layout:{}", on), weight(w, 0, v), || {
                jo(vec![
                    ("kind", js("api")),
                    ("call", js(format!("Bitstr::from_int({}, {}, {}).to_bytes()", v, w, on))),
                    ("expected", js(hex(&exp))),
                    ("observed", js(format!("{:?}", got.as_ref().map(|b| hex(b))))),
                ])
            });
        }
    }
    // (c) offset independence
    let trivial = u_exp == 0 || u_exp == mask(w);
    for &k in OFFSETS.iter() {
        let mut bad: Option<(usize, u8, String)> = None;
        'outer: for junk in [1u8, 0u8] {
            for t in 0..8usize {
                let e = embed(&bits, k, t, junk);
                l.ops += 2;
                l.cmps += 2;
                match guarded(|| (e.to_uint(order), e.to_int(order))) {
                    Ok((a, b)) => {
                        if a != du || b != di {
                            bad = Some((t, junk, format!("uint={} int={}", a, b)));
                            break 'outer;
                        }
                    }
                    Err(p) => {
                        bad = Some((t, junk, format!("panic: {}", p)));
                        break 'outer;
                    }
                }
            }
        }
        let kc = format!("api-int:{}:k{}", on, k);
        bump(&mut l.cov, &kc);
        if (k % 8 != 0 || w % 8 != 0) && !trivial {
            l.nontrivial += 1;
        }
        if let Some((t, junk, obs)) = bad {
            let key = if obs.starts_with("panic") { format!("panic:decode:{}", offset_key(order, k)) } else { offset_key(order, k) };
            rep.report_w(&key, weight(w, k, v), || {
                let (buf, _) = embed_bits(&bits, k, t, junk);
                jo(vec![
                    ("kind", js("api-offset")),
                    ("what", js("Bitstr::from(buffer).substr(k, k+w) decoded with to_uint/to_int must equal the decode of the same bits at offset 0")),
                    ("width", ji(w)),
                    ("order", js(on)),
                    ("value", js(format!("{}", v))),
                    ("field_bits", js(lit_of(&bits))),
                    ("offset", ji(k)),
                    ("trailing_junk_bits", ji(t)),
                    ("junk", ji(junk)),
                    ("buffer_hex", js(hex(&buf))),
                    ("expected", js(format!("uint={} int={}", du, di))),
                    ("observed", js(obs.clone())),
                    ("equivalent_source", js(format!("{} |{}| open-bitstr {} bits drop {} uint", oword(order), embed_literal(&bits, k, t, junk), k, w))),
                ])
            });
        }
    }
}

fn api_ints(cfg: &Cfg, rep: &Reporter, cov: &Counters, tot: &Tot) -> J {
    let full = if cfg.quick() { 12 } else { 20 };
    struct Item {
        w: usize,
        order: Byteorder,
        vals: Vec<i128>,
    }
    let mut items: Vec<Item> = vec![];
    let mut per_width = vec![];
    for w in 1..=128usize {
        let vs = values(w, full, cfg.seed);
        per_width.push(vs.len() as u64);
        for order in ORDERS {
            for ch in vs.chunks(256) {
                items.push(Item { w, order, vals: ch.to_vec() });
            }
        }
    }
    // heavy items first is not needed: chunks are uniform
    par_run(cfg.threads, items.len(), 1, |_t, pull| {
        let mut l = Local::new();
        while let Some(r) = pull() {
            for i in r {
                let it = &items[i];
                for &v in &it.vals {
                    api_int_case(it.w, it.order, v, rep, &mut l);
                }
            }
        }
        l.flush(tot, cov);
    });
    jo(vec![
        ("widths", js("1..=128")),
        ("all_values_up_to_width", ji(full)),
        ("values_per_width_min", ji(*per_width.iter().min().unwrap())),
        ("values_per_width_max", ji(*per_width.iter().max().unwrap())),
        ("values_total", ji(per_width.iter().sum::<u64>())),
        ("offsets", J::A(OFFSETS.iter().map(|k| ji(*k)).collect())),
        ("trailing_junk_bits", js("0..=7, buffer padded with junk to the byte boundary")),
        ("junk", js("all-ones and all-zeros")),
    ])
}

// ------------------------------------------------------------------ B. width 0
fn width0(rep: &Reporter, cov: &Counters, tot: &Tot) {
    let mut l = Local::new();
    for order in ORDERS {
        let on = oname(order);
        // API: empty bit-strings of several provenances
        let mk: Vec<(&str, Box<dyn Fn() -> Bitstr>)> = vec![
            ("Bitstr::new()", Box::new(|| Bitstr::new())),
            ("Bitstr::from_int(5, 0, order)", Box::new(move || Bitstr::from_int(5, 0, order))),
            ("Bitstr::from(vec![0xff,0xff]).substr(3,3)", Box::new(|| Bitstr::from(vec![0xffu8, 0xff]).substr(3, 3).unwrap())),
            ("Bitstr::from(vec![0xff,0xff]).substr(8,8)", Box::new(|| Bitstr::from(vec![0xffu8, 0xff]).substr(8, 8).unwrap())),
            ("Bitstr::from(vec![0xff,0xff]).substr(16,16)", Box::new(|| Bitstr::from(vec![0xffu8, 0xff]).substr(16, 16).unwrap())),
        ];
        for (name, f) in &mk {
            for signed in [false, true] {
                l.cases += 1;
                l.ops += 1;
                l.cmps += 1;
                bump(&mut l.cov, &format!("w0:api:{}", if signed { "to_int" } else { "to_uint" }));
                let r = guarded(|| {
                    let b = f();
                    if signed { b.to_int(order) } else { b.to_uint(order) as i128 }
                });
                let call = format!("{}.{}({})", name, if signed { "to_int" } else { "to_uint" }, on);
                let key = if signed { "to_int:w0" } else { "to_uint:w0" };
                match r {
                    Ok(0) => {}
                    Ok(x) => rep.report_w(key, 1, || jo(vec![("kind", js("api")), ("call", js(call.clone())), ("expected", ji(0)), ("observed", js(format!("{}", x)))])),
                    Err(p) => rep.report_w(key, 0, || jo(vec![("kind", js("api")), ("call", js(call.clone())), ("expected", js("0 (no panic)")), ("observed", js(format!("panic: {}", p)))])),
                }
            }
        }
        // language: a zero-width read is either 0 or a clean error
        let base = boot();
        for (src, signed) in [("|| open-bitstr 0 uint", false), ("|| open-bitstr 0 int", true), ("|ff| open-bitstr 0 uint", false), ("|ff| open-bitstr 0 int", true), ("|ff| open-bitstr 3 bits drop 0 int", true), ("|ff| open-bitstr 8 bits drop 0 int", true), ("5 0 int! open-bitstr 0 int", true), ("5 0 uint! open-bitstr 0 uint", false)] {
            let src = format!("{} {}", oword(order), src);
            let mut xs = base.clone();
            l.cases += 1;
            l.evals += 1;
            l.cmps += 1;
            bump(&mut l.cov, &format!("w0:lang:{}", if signed { "int" } else { "uint" }));
            let r = guarded(|| xs.eval(&src));
            let key = if signed { "to_int:w0" } else { "to_uint:w0" };
            let obs = match r {
                Err(p) => Some(format!("panic: {}", p)),
                Ok(Err(_)) => None, // a clean error is accepted: the property starts at width 1
                Ok(Ok(())) => match xs.get_data(0).map(|c| c.value().clone()) {
                    Some(Cell::Int(0)) if xs.data_depth() == 1 => None,
                    other => Some(format!("depth {} top {:?}", xs.data_depth(), other.map(|c| render(&c)))),
                },
            };
            if let Some(obs) = obs {
                rep.report_w(key, 2 + src.len() as u64, || jo(vec![("kind", js("eval")), ("source", js(src.clone())), ("expected", js("0 or a clean error")), ("observed", js(obs.clone()))]));
            }
        }
    }
    l.flush(tot, cov);
}

// ------------------------------------------------------------------ C. language words
#[derive(Clone)]
struct RdWord {
    src: String,   // words after `open-bitstr [k bits drop]`
    prefix: String, // byte order word(s) executed first
    signed: bool,
    class: String,
}

fn read_words(w: usize, order: Byteorder) -> Vec<RdWord> {
    let mut v = vec![
        RdWord { src: format!("{} uint", w), prefix: oword(order).into(), signed: false, class: "uint".into() },
        RdWord { src: format!("{} int", w), prefix: oword(order).into(), signed: true, class: "int".into() },
        RdWord { src: format!("{} uint", w), prefix: ostore(order), signed: false, class: "uint:order-stored".into() },
    ];
    if [8, 16, 32, 64].contains(&w) {
        let sfx = oname(order);
        v.push(RdWord { src: format!("u{}", w), prefix: oword(order).into(), signed: false, class: format!("u{}", w) });
        v.push(RdWord { src: format!("i{}", w), prefix: oword(order).into(), signed: true, class: format!("i{}", w) });
        // explicit-order words are run with the opposite current order: the suffix must win
        v.push(RdWord { src: format!("u{}{}", w, sfx), prefix: oword(opposite(order)).into(), signed: false, class: format!("u{}{}", w, sfx) });
        v.push(RdWord { src: format!("i{}{}", w, sfx), prefix: oword(opposite(order)).into(), signed: true, class: format!("i{}{}", w, sfx) });
    }
    v
}

struct PkWord {
    src: String,
    class: String,
}
fn pack_words(w: usize, order: Byteorder) -> Vec<PkWord> {
    let mut v = vec![
        PkWord { src: format!("{} {} uint!", oword(order), w), class: "uint!".into() },
        PkWord { src: format!("{} {} int!", oword(order), w), class: "int!".into() },
        PkWord { src: format!("{} {} uint!", ostore(order), w), class: "uint!:order-stored".into() },
    ];
    if [8, 16, 32, 64].contains(&w) {
        let sfx = oname(order);
        v.push(PkWord { src: format!("{} u{}!", oword(order), w), class: format!("u{}!", w) });
        v.push(PkWord { src: format!("{} i{}!", oword(order), w), class: format!("i{}!", w) });
        v.push(PkWord { src: format!("{} u{}{}!", oword(opposite(order)), w, sfx), class: format!("u{}{}!", w, sfx) });
        v.push(PkWord { src: format!("{} i{}{}!", oword(opposite(order)), w, sfx), class: format!("i{}{}!", w, sfx) });
    }
    v
}

/// result of evaluating `src` on a clone of `base` with `pre` pushed first
enum Ev {
    Panic(String),
    Err(Xerr),
    Stack(Vec<Cell>), // bottom first
}
fn run_src(base: &Xstate, pre: &[Cell], src: &str) -> Ev {
    let mut xs = base.clone();
    for c in pre {
        xs.push_data(c.clone()).expect("push");
    }
    match guarded(|| xs.eval(src)) {
        Err(p) => Ev::Panic(p),
        Ok(Err(e)) => Ev::Err(e),
        Ok(Ok(())) => {
            let n = xs.data_depth();
            Ev::Stack((0..n).rev().map(|i| xs.get_data(i).unwrap().clone()).collect())
        }
    }
}
fn ev_text(e: &Ev) -> String {
    match e {
        Ev::Panic(p) => format!("panic: {}", p),
        Ev::Err(e) => format!("error: {}", err_kind(e)),
        Ev::Stack(s) => format!("stack: [{}]", s.iter().map(render).collect::<Vec<_>>().join(" ")),
    }
}

fn lang_ints(cfg: &Cfg, rep: &Reporter, cov: &Counters, tot: &Tot) {
    let items: Vec<(usize, Byteorder)> = (1..=128usize).flat_map(|w| ORDERS.into_iter().map(move |o| (w, o))).collect();
    let ts: &[usize] = if cfg.quick() { &[0, 3, 7] } else { &[0, 1, 2, 3, 4, 5, 6, 7] };
    par_run(cfg.threads, items.len(), 1, |_t, pull| {
        let base = boot();
        let mut l = Local::new();
        while let Some(r) = pull() {
            for i in r {
                let (w, order) = items[i];
                let on = oname(order);
                let vals = thin_values(w, cfg.seed);
                let mut seen_u: BTreeSet<u128> = BTreeSet::new();
                for &v in &vals {
                    let u_exp = model_u(v, w);
                    let i_exp = model_i(v, w);
                    let api_bits = match guarded(|| bits_of(&Bitstr::from_int(v, w, order))) {
                        Ok(b) if b.len() == w => b,
                        _ => continue, // reported by section A
                    };
                    l.cases += 1;
                    // ---- pack words against the API bits
                    for pw in pack_words(w, order) {
                        l.evals += 1;
                        l.cmps += 1;
                        bump(&mut l.cov, &format!("lang-pack:{}", pw.class));
                        let r = run_src(&base, &[Cell::Int(v)], &pw.src);
                        let ok = match &r {
                            Ev::Stack(s) if s.len() == 1 => match s[0].value() {
                                Cell::Bitstr(b) => bits_of(b) == api_bits && s[0].tags().is_none(),
                                _ => false,
                            },
                            _ => false,
                        };
                        if !ok {
                            let key = match &r {
                                Ev::Panic(_) => format!("panic:lang-pack:{}", pw.class),
                                _ => format!("lang-pack:{}", pw.class),
                            };
                            rep.report_w(&key, weight(w, 0, v), || {
                                jo(vec![
                                    ("kind", js("eval")),
                                    ("stack_before", js(format!("i:{}", v))),
                                    ("source", js(pw.src.clone())),
                                    ("expected", js(format!("one bit-string |{}| (= Bitstr::from_int({}, {}, {}))", lit_of(&api_bits), v, w, on))),
                                    ("observed", js(ev_text(&r))),
                                ])
                            });
                        }
                    }
                    // ---- pure language round trip at offset 0
                    for (pk, rd, signed) in [("uint!", "uint", false), ("int!", "int", true)] {
                        let src = format!("{} {} {} open-bitstr {} {}", oword(order), w, pk, w, rd);
                        l.evals += 1;
                        l.cmps += 1;
                        bump(&mut l.cov, &format!("lang-roundtrip:{}", rd));
                        let r = run_src(&base, &[Cell::Int(v)], &src);
                        if !read_ok(&r, w, signed, u_exp, i_exp) {
                            let key = match &r {
                                Ev::Panic(_) => format!("panic:lang-roundtrip:{}", rd),
                                _ => classify_int_read(&api_bits, w, order, signed, 0, 0, 0, u_exp, i_exp, format!("lang-roundtrip:{}:{}", on, rd)),
                            };
                            rep.report_w(&key, weight(w, 0, v), || {
                                jo(vec![
                                    ("kind", js("eval")),
                                    ("stack_before", js(format!("i:{}", v))),
                                    ("source", js(src.clone())),
                                    ("expected", js(if signed { format!("i:{}", i_exp) } else { format!("i:{}", u_exp) })),
                                    ("observed", js(ev_text(&r))),
                                ])
                            });
                        }
                    }
                    // ---- read words on a literal holding the field at offset k
                    if !seen_u.insert(u_exp) {
                        continue;
                    }
                    let trivial = u_exp == 0 || u_exp == mask(w);
                    for k in 0..8usize {
                        if (k % 8 != 0 || w % 8 != 0) && !trivial {
                            l.nontrivial += 1;
                        }
                        for rw in read_words(w, order) {
                            let mut bad: Option<(String, Ev, usize, u8)> = None;
                            'outer: for junk in [1u8, 0u8] {
                                for &t in ts {
                                    let lit = embed_literal(&api_bits, k, t, junk);
                                    let src = if k == 0 {
                                        format!("{} |{}| open-bitstr {}", rw.prefix, lit, rw.src)
                                    } else {
                                        format!("{} |{}| open-bitstr {} bits drop {}", rw.prefix, lit, k, rw.src)
                                    };
                                    l.evals += 1;
                                    l.cmps += 1;
                                    let r = run_src(&base, &[], &src);
                                    if !read_ok(&r, w, rw.signed, u_exp, i_exp) {
                                        bad = Some((src, r, t, junk));
                                        break 'outer;
                                    }
                                }
                            }
                            bump(&mut l.cov, &format!("lang-read:{}", rw.class));
                            bump(&mut l.cov, &format!("lang-read:{}:k{}", on, k));
                            if let Some((src, r, t, junk)) = bad {
                                let key = match &r {
                                    Ev::Panic(_) => format!("panic:lang-read:{}", rw.class),
                                    _ => classify_int_read(&api_bits, w, order, rw.signed, k, t, junk, u_exp, i_exp, format!("lang-read:{}", rw.class)),
                                };
                                rep.report_w(&key, weight(w, k, v) + 50_000, || {
                                    jo(vec![
                                        ("kind", js("eval")),
                                        ("source", js(src.clone())),
                                        ("width", ji(w)),
                                        ("order", js(on)),
                                        ("offset", ji(k)),
                                        ("expected", js(if rw.signed { format!("i:{}", i_exp) } else { format!("i:{}", u_exp) })),
                                        ("observed", js(ev_text(&r))),
                                    ])
                                });
                            }
                        }
                    }
                }
            }
        }
        l.flush(tot, cov);
    });
}

/// the read left exactly one integer with the expected value (tags of the result are not
/// part of the property). An unsigned read of 128 bits may refuse with IntegerOverflow.
fn read_ok(r: &Ev, w: usize, signed: bool, u_exp: u128, i_exp: i128) -> bool {
    match r {
        Ev::Stack(s) if s.len() == 1 => match s[0].value() {
            Cell::Int(x) => {
                if signed {
                    *x == i_exp
                } else {
                    u_exp <= i128::MAX as u128 && *x == u_exp as i128
                }
            }
            _ => false,
        },
        Ev::Err(Xerr::IntegerOverflow) => !signed && w == 128,
        _ => false,
    }
}

// ------------------------------------------------------------------ D. floats
const MANT32: [u32; 64] = {
    let mut a = [0u32; 64];
    let m = 0x7f_ffffu32;
    let mut i = 0;
    while i < 23 {
        a[i] = 1 << i;
        a[23 + i] = !(1u32 << i) & m;
        i += 1;
    }
    a[46] = 0;
    a[47] = m;
    a[48] = 0x55_5555;
    a[49] = 0x2a_aaaa;
    a[50] = 0x40_0001;
    a[51] = 0x3f_fffe;
    a[52] = 0x01_2345;
    a[53] = 0x65_4321;
    a[54] = 0x0f_0f0f;
    a[55] = 0x70_f0f0;
    a[56] = 0x00_ffff;
    a[57] = 0x7f_0000;
    a[58] = 0x00_0fff;
    a[59] = 0x12_3456;
    a[60] = 0x67_89ab;
    a[61] = 0x00_00ff;
    a[62] = 0x20_0001;
    a[63] = 0x00_0003;
    a
};

fn f32_quick_set() -> Vec<u32> {
    let mut v = Vec::with_capacity(2 * 256 * 64);
    for s in 0..2u32 {
        for e in 0..256u32 {
            for m in MANT32 {
                v.push((s << 31) | (e << 23) | m);
            }
        }
    }
    v
}

fn f64_class_set(seed: u64) -> Vec<u64> {
    let mm = (1u64 << 52) - 1;
    let mut mant: BTreeSet<u64> = BTreeSet::new();
    for i in 0..52 {
        mant.insert(1 << i);
    }
    for m in [0u64, 1, 2, mm, mm - 1, 1 << 51, (1 << 51) | 1, (1 << 50) | 1, 0x5_5555_5555_5555, 0xa_aaaa_aaaa_aaaa, 0x1_2345_6789_abcd, 0xf_edcb_a987_6543, 0x0_0000_ffff_ffff, 0xf_ffff_0000_0000] {
        mant.insert(m);
    }
    mant.insert(mix(seed, 501) & mm);
    mant.insert(mix(seed, 502) & mm);
    let mut v = vec![];
    for s in 0..2u64 {
        for e in [0u64, 1, 2, 0x3fe, 0x3ff, 0x400, 0x401, 0x7fd, 0x7fe, 0x7ff, 0x555, 0x2aa] {
            for &m in &mant {
                v.push((s << 63) | (e << 52) | m);
            }
        }
    }
    v
}

fn fclass32(b: u32) -> &'static str {
    let f = f32::from_bits(b);
    if f.is_nan() {
        if b & 0x40_0000 != 0 { "quiet-nan" } else { "signalling-nan" }
    } else if f.is_infinite() {
        "inf"
    } else if f == 0.0 {
        "zero"
    } else if f.is_normal() {
        "normal"
    } else {
        "subnormal"
    }
}
fn fclass64(b: u64) -> &'static str {
    let f = f64::from_bits(b);
    if f.is_nan() {
        if b & (1 << 51) != 0 { "quiet-nan" } else { "signalling-nan" }
    } else if f.is_infinite() {
        "inf"
    } else if f == 0.0 {
        "zero"
    } else if f.is_normal() {
        "normal"
    } else {
        "subnormal"
    }
}

/// API check of one f32 pattern at offset 0; returns the field bits
#[inline]
fn f32_api_at0(b: u32, order: Byteorder, rep: &Reporter) -> bool {
    let on = oname(order);
    let r = guarded(|| {
        let s = Bitstr::from_f32(f32::from_bits(b), order);
        let bytes = s.to_bytes();
        let back = s.to_f32(order).to_bits();
        (s.len(), bytes, back)
    });
    match r {
        Err(p) => {
            rep.report_w(&format!("panic:f32:{}", on), b.count_ones() as u64, || jo(vec![("kind", js("api")), ("call", js(format!("Bitstr::from_f32(f32::from_bits({:#010x}), {}) / to_f32", b, on))), ("observed", js(format!("panic: {}", p)))]));
            false
        }
        Ok((len, bytes, back)) => {
            let exp = if order == LITTLE { b.to_le_bytes() } else { b.to_be_bytes() };
            let mut ok = true;
            if len != 32 || bytes.as_deref() != Some(&exp[..]) {
                ok = false;
                rep.report_w(&format!("f32:layout:{}", on), b.count_ones() as u64, || {
                    jo(vec![("kind", js("api")), ("call", js(format!("Bitstr::from_f32(f32::from_bits({:#010x}), {}).to_bytes()", b, on))), ("expected", js(hex(&exp))), ("observed", js(format!("len {} bytes {:?}", len, bytes.as_ref().map(|x| hex(x)))))])
                });
            }
            if back != b {
                ok = false;
                rep.report_w(&format!("f32:roundtrip:{}:{}", on, fclass32(b)), b.count_ones() as u64, || {
                    jo(vec![("kind", js("api")), ("call", js(format!("Bitstr::from_f32(f32::from_bits({:#010x}), {}).to_f32({}).to_bits()", b, on, on))), ("expected", js(format!("{:#010x}", b))), ("observed", js(format!("{:#010x}", back)))])
                });
            }
            ok
        }
    }
}

fn bytes_bits(bytes: &[u8]) -> Vec<u8> {
    let mut v = Vec::with_capacity(bytes.len() * 8);
    for b in bytes {
        for i in (0..8).rev() {
            v.push((b >> i) & 1);
        }
    }
    v
}

fn floats_api(cfg: &Cfg, rep: &Reporter, cov: &Counters, tot: &Tot, ev: &mut Evidence) {
    let q32 = f32_quick_set();
    // f32: the class set at every offset
    par_run(cfg.threads, q32.len(), 512, |_t, pull| {
        let mut l = Local::new();
        while let Some(r) = pull() {
            for i in r {
                let b = q32[i];
                for order in ORDERS {
                    let on = oname(order);
                    l.cases += 1;
                    l.ops += 3;
                    l.cmps += 2;
                    bump(&mut l.cov, &format!("f32:api:{}", fclass32(b)));
                    f32_api_at0(b, order, rep);
                    // offsets: std byte layout embedded at offset k
                    let bytes = if order == LITTLE { b.to_le_bytes() } else { b.to_be_bytes() };
                    let bits = bytes_bits(&bytes);
                    for &k in OFFSETS.iter() {
                        if k % 8 != 0 {
                            l.nontrivial += 1;
                        }
                        for junk in [1u8, 0u8] {
                            for t in [0usize, 5] {
                                let e = embed(&bits, k, t, junk);
                                l.ops += 1;
                                l.cmps += 1;
                                let got = guarded(|| e.to_f32(order).to_bits());
                                if got != Ok(b) {
                                    let key = match &got {
                                        Err(_) => format!("panic:f32:offset:{}", on),
                                        Ok(_) => format!("f32:offset:{}:{}", on, if k % 8 == 0 { "byte-aligned" } else { "unaligned" }),
                                    };
                                    rep.report_w(&key, (k as u64) * 100 + b.count_ones() as u64, || {
                                        let (buf, _) = embed_bits(&bits, k, t, junk);
                                        jo(vec![
                                            ("kind", js("api-offset")),
                                            ("call", js(format!("Bitstr::from(buffer).substr({}, {}).to_f32({}).to_bits()", k, k + 32, on))),
                                            ("buffer_hex", js(hex(&buf))),
                                            ("expected", js(format!("{:#010x}", b))),
                                            ("observed", js(match &got {
                                                Ok(x) => format!("{:#010x}", x),
                                                Err(p) => format!("panic: {}", p),
                                            })),
                                        ])
                                    });
                                }
                            }
                        }
                    }
                }
            }
        }
        l.flush(tot, cov);
    });
    // f32: every bit pattern at offset 0 (thorough)
    if !cfg.quick() {
        let done = AtomicU64::new(0);
        let deadline = std::time::Instant::now() + std::time::Duration::from_secs(1500);
        let skipped = AtomicU64::new(0);
        par_run(cfg.threads, 1usize << 32, 1 << 20, |_t, pull| {
            let mut n = 0u64;
            while let Some(r) = pull() {
                if std::time::Instant::now() > deadline {
                    skipped.fetch_add(r.len() as u64, Ordering::Relaxed);
                    continue;
                }
                for i in r {
                    let b = i as u32;
                    f32_api_at0(b, LITTLE, rep);
                    f32_api_at0(b, BIG, rep);
                    n += 2;
                }
            }
            done.fetch_add(n, Ordering::Relaxed);
        });
        let n = done.load(Ordering::Relaxed);
        tot.cases.fetch_add(n, Ordering::Relaxed);
        tot.ops.fetch_add(3 * n, Ordering::Relaxed);
        tot.cmps.fetch_add(2 * n, Ordering::Relaxed);
        let sk = skipped.load(Ordering::Relaxed);
        if sk > 0 {
            ev.cap(format!("f32 all-patterns sweep: wall-clock cap, {} of 2^32 patterns not run", sk));
        }
        ev.add("f32_all_bit_patterns_checked", ji(n / 2));
    }
    // f64 class set
    let q64 = f64_class_set(cfg.seed);
    par_run(cfg.threads, q64.len(), 32, |_t, pull| {
        let mut l = Local::new();
        while let Some(r) = pull() {
            for i in r {
                let b = q64[i];
                for order in ORDERS {
                    let on = oname(order);
                    l.cases += 1;
                    l.ops += 3;
                    l.cmps += 2;
                    bump(&mut l.cov, &format!("f64:api:{}", fclass64(b)));
                    let exp = if order == LITTLE { b.to_le_bytes() } else { b.to_be_bytes() };
                    let r = guarded(|| {
                        let s = Bitstr::from_f64(f64::from_bits(b), order);
                        (s.len(), s.to_bytes(), s.to_f64(order).to_bits())
                    });
                    match r {
                        Err(p) => rep.report_w(&format!("panic:f64:{}", on), b.count_ones() as u64, || jo(vec![("kind", js("api")), ("call", js(format!("Bitstr::from_f64(f64::from_bits({:#018x}), {}) / to_f64", b, on))), ("observed", js(format!("panic: {}", p)))])),
                        Ok((len, bytes, back)) => {
                            if len != 64 || bytes.as_deref() != Some(&exp[..]) {
                                rep.report_w(&format!("f64:layout:{}", on), b.count_ones() as u64, || {
                                    jo(vec![("kind", js("api")), ("call", js(format!("Bitstr::from_f64(f64::from_bits({:#018x}), {}).to_bytes()", b, on))), ("expected", js(hex(&exp))), ("observed", js(format!("len {} bytes {:?}", len, bytes.as_ref().map(|x| hex(x)))))])
                                });
                            }
                            if back != b {
                                rep.report_w(&format!("f64:roundtrip:{}:{}", on, fclass64(b)), b.count_ones() as u64, || {
                                    jo(vec![("kind", js("api")), ("call", js(format!("Bitstr::from_f64(f64::from_bits({:#018x}), {}).to_f64({}).to_bits()", b, on, on))), ("expected", js(format!("{:#018x}", b))), ("observed", js(format!("{:#018x}", back)))])
                                });
                            }
                        }
                    }
                    let bits = bytes_bits(&exp);
                    for &k in OFFSETS.iter() {
                        if k % 8 != 0 {
                            l.nontrivial += 1;
                        }
                        for junk in [1u8, 0u8] {
                            for t in 0..8usize {
                                let e = embed(&bits, k, t, junk);
                                l.ops += 1;
                                l.cmps += 1;
                                let got = guarded(|| e.to_f64(order).to_bits());
                                if got != Ok(b) {
                                    let key = match &got {
                                        Err(_) => format!("panic:f64:offset:{}", on),
                                        Ok(_) => format!("f64:offset:{}:{}", on, if k % 8 == 0 { "byte-aligned" } else { "unaligned" }),
                                    };
                                    rep.report_w(&key, (k as u64) * 100 + b.count_ones() as u64, || {
                                        let (buf, _) = embed_bits(&bits, k, t, junk);
                                        jo(vec![
                                            ("kind", js("api-offset")),
                                            ("call", js(format!("Bitstr::from(buffer).substr({}, {}).to_f64({}).to_bits()", k, k + 64, on))),
                                            ("buffer_hex", js(hex(&buf))),
                                            ("expected", js(format!("{:#018x}", b))),
                                            ("observed", js(match &got {
                                                Ok(x) => format!("{:#018x}", x),
                                                Err(p) => format!("panic: {}", p),
                                            })),
                                        ])
                                    });
                                }
                            }
                        }
                    }
                }
            }
        }
        l.flush(tot, cov);
    });
    ev.add("f32_class_set", ji(q32.len()));
    ev.add("f64_class_set", ji(q64.len()));
}

/// language level floats. width = 32 or 64; `b` = the IEEE bit pattern (f32 patterns in the low half)
fn floats_lang(cfg: &Cfg, rep: &Reporter, cov: &Counters, tot: &Tot) {
    // f32 subset: every sign x exponent x 8 mantissas; f64: the class set
    let mut items: Vec<(usize, u64)> = vec![];
    for s in 0..2u64 {
        for e in 0..256u64 {
            for m in [0u32, 1, 0x40_0000, 0x40_0001, 0x20_0000, 0x7f_ffff, 0x12_3456, 0x2a_aaaa] {
                items.push((32, (s << 31) | (e << 23) | m as u64));
            }
        }
    }
    for b in f64_class_set(cfg.seed) {
        items.push((64, b));
    }
    par_run(cfg.threads, items.len(), 16, |_t, pull| {
        let base = boot();
        let mut l = Local::new();
        while let Some(r) = pull() {
            for i in r {
                let (w, b) = items[i];
                // the real value handed to the pack word, and what must come back from a read
                let (val, is_nan, class) = if w == 32 {
                    let f = f32::from_bits(b as u32);
                    (f as f64, f.is_nan(), fclass32(b as u32))
                } else {
                    let f = f64::from_bits(b);
                    (f, f.is_nan(), fclass64(b))
                };
                for order in ORDERS {
                    let on = oname(order);
                    let sfx = on;
                    l.cases += 1;
                    let bytes: Vec<u8> = if w == 32 {
                        if order == LITTLE { (b as u32).to_le_bytes().to_vec() } else { (b as u32).to_be_bytes().to_vec() }
                    } else if order == LITTLE {
                        b.to_le_bytes().to_vec()
                    } else {
                        b.to_be_bytes().to_vec()
                    };
                    let bits = bytes_bits(&bytes);
                    // ---- pack
                    let packs = [
                        (format!("{} f{}!", oword(order), w), format!("f{}!", w)),
                        (format!("{} f{}{}!", oword(opposite(order)), w, sfx), format!("f{}{}!", w, sfx)),
                        (format!("{} {} float!", oword(order), w), "float!".to_string()),
                    ];
                    for (src, cls) in &packs {
                        l.evals += 1;
                        l.cmps += 1;
                        bump(&mut l.cov, &format!("lang-pack:{}", cls));
                        let r = run_src(&base, &[Cell::Real(val)], src);
                        let ok = match &r {
                            Ev::Stack(s) if s.len() == 1 => match s[0].value() {
                                Cell::Bitstr(bs) => {
                                    if w == 32 && is_nan {
                                        // f64 -> f32 conversion of a NaN: class only
                                        bs.len() == 32 && bs.to_f32(order).is_nan()
                                    } else {
                                        bits_of(bs) == bits
                                    }
                                }
                                _ => false,
                            },
                            _ => false,
                        };
                        if !ok {
                            let key = match &r {
                                Ev::Panic(_) => format!("panic:lang-pack:{}", cls),
                                _ => format!("lang-pack:{}:{}", cls, class),
                            };
                            rep.report_w(&key, b.count_ones() as u64, || {
                                jo(vec![
                                    ("kind", js("eval")),
                                    ("stack_before", js(format!("r:{:#x} (f64 bits)", val.to_bits()))),
                                    ("source", js(src.clone())),
                                    ("expected", js(format!("bytes {}", hex(&bytes)))),
                                    ("observed", js(ev_text(&r))),
                                ])
                            });
                        }
                    }
                    // ---- read at offset k
                    let reads = [
                        (oword(order).to_string(), format!("f{}", w), format!("f{}", w)),
                        (oword(opposite(order)).to_string(), format!("f{}{}", w, sfx), format!("f{}{}", w, sfx)),
                        (oword(order).to_string(), format!("{} float", w), "float".to_string()),
                    ];
                    for k in 0..8usize {
                        if k % 8 != 0 {
                            l.nontrivial += 1;
                        }
                        for (prefix, word, cls) in &reads {
                            bump(&mut l.cov, &format!("lang-read:{}", cls));
                            for junk in [1u8, 0u8] {
                                let lit = embed_literal(&bits, k, 3, junk);
                                let src = if k == 0 { format!("{} |{}| open-bitstr {}", prefix, lit, word) } else { format!("{} |{}| open-bitstr {} bits drop {}", prefix, lit, k, word) };
                                l.evals += 1;
                                l.cmps += 1;
                                let r = run_src(&base, &[], &src);
                                let ok = match &r {
                                    Ev::Stack(s) if s.len() == 1 => match s[0].value() {
                                        Cell::Real(x) => {
                                            if w == 32 && is_nan {
                                                x.is_nan()
                                            } else {
                                                x.to_bits() == val.to_bits()
                                            }
                                        }
                                        _ => false,
                                    },
                                    _ => false,
                                };
                                if !ok {
                                    let al = if k % 8 == 0 { "byte-aligned" } else { "unaligned" };
                                    // the API's finding if the API decodes the same bits wrongly too
                                    let e = embed(&bits, k, 3, junk);
                                    let api_ok = guarded(|| if w == 32 { e.to_f32(order).to_bits() as u64 == b } else { e.to_f64(order).to_bits() == b }) == Ok(true);
                                    let key = match &r {
                                        Ev::Panic(_) => format!("panic:lang-read:{}", cls),
                                        _ if !api_ok && k == 0 => format!("f{}:roundtrip:{}:{}", w, on, class),
                                        _ if !api_ok => format!("f{}:offset:{}:{}", w, on, al),
                                        _ => format!("lang-read:{}:{}", cls, al),
                                    };
                                    rep.report_w(&key, (k as u64) * 100 + b.count_ones() as u64, || {
                                        jo(vec![("kind", js("eval")), ("source", js(src.clone())), ("expected", js(format!("r:{:#x}", val.to_bits()))), ("observed", js(ev_text(&r)))])
                                    });
                                }
                            }
                        }
                    }
                }
            }
        }
        l.flush(tot, cov);
    });
}

// ------------------------------------------------------------------ driver
pub fn run(cfg: &Cfg) -> i32 {
    let rep = Reporter::new("C05");
    let mut ev = Evidence::new("C05", cfg);
    let cov = Counters::new();
    let tot = Tot { cases: AtomicU64::new(0), ops: AtomicU64::new(0), cmps: AtomicU64::new(0), evals: AtomicU64::new(0), nontrivial: AtomicU64::new(0) };
    ev.rule = "distinct (width, order, value, offset) integer cases whose field is not byte-aligned or not a byte multiple wide and whose bits are not all equal, plus float cases at a non-byte offset; every case is a different member of the complete product".into();

    let t0 = std::time::Instant::now();
    let api_desc = api_ints(cfg, &rep, &cov, &tot);
    println!("C05 api-ints: {} cases, {:.1}s", tot.cases.load(Ordering::Relaxed), t0.elapsed().as_secs_f64());
    width0(&rep, &cov, &tot);
    let t1 = std::time::Instant::now();
    lang_ints(cfg, &rep, &cov, &tot);
    println!("C05 lang-ints: {} evals, {:.1}s", tot.evals.load(Ordering::Relaxed), t1.elapsed().as_secs_f64());
    let t2 = std::time::Instant::now();
    floats_api(cfg, &rep, &cov, &tot, &mut ev);
    println!("C05 floats-api: {:.1}s", t2.elapsed().as_secs_f64());
    let t3 = std::time::Instant::now();
    floats_lang(cfg, &rep, &cov, &tot);
    println!("C05 floats-lang: {:.1}s", t3.elapsed().as_secs_f64());

    // samples: a few cases re-executed here and written out with what was observed
    let samples = Mutex::new(vec![]);
    for (w, order, v, k) in [(12usize, BIG, 0xabc_i128, 4usize), (12, LITTLE, 0xabc, 0), (8, LITTLE, 0x23, 4), (16, LITTLE, -2, 3), (128, BIG, i128::MIN + 1, 7), (3, LITTLE, 5, 6)] {
        let r = guarded(|| {
            let f = Bitstr::from_int(v, w, order);
            let bits = bits_of(&f);
            let e = embed(&bits, k, 2, 1);
            (lit_of(&bits), f.to_uint(order), f.to_int(order), e.to_uint(order), e.to_int(order))
        });
        samples.lock().unwrap().push(jo(vec![
            ("case", js(format!("from_int({}, {}, {}) embedded at bit offset {}", v, w, oname(order), k))),
            ("model", js(format!("uint={} int={}", model_u(v, w), model_i(v, w)))),
            ("observed", js(match r {
                Ok((b, u0, i0, uk, ik)) => format!("bits {} ; at 0: uint={} int={} ; at {}: uint={} int={}", b, u0, i0, k, uk, ik),
                Err(p) => format!("panic: {}", p),
            })),
        ]));
    }
    for s in samples.into_inner().unwrap() {
        ev.sample(s);
    }

    ev.states = tot.cases.load(Ordering::Relaxed);
    ev.transitions = tot.ops.load(Ordering::Relaxed) + tot.evals.load(Ordering::Relaxed);
    ev.traces = tot.cmps.load(Ordering::Relaxed);
    ev.evaluations = tot.evals.load(Ordering::Relaxed);
    ev.nontrivial = tot.nontrivial.load(Ordering::Relaxed);
    ev.add("api_integer_product", api_desc);
    ev.add("coverage_counts", cov.json());
    ev.assumptions = vec![
        "reference = two's complement / modulo arithmetic on i128/u128 and std to_le_bytes/to_be_bytes; the bit layout of little-endian fields whose width is not a byte multiple is left open (only round trip and offset independence are demanded)".into(),
        "offset independence compares the decode of a sub-range of a larger buffer (junk before and after) with the decode of the same bits at offset 0".into(),
        "an unsigned language-level read of 128 bits may refuse with IntegerOverflow (pinned by the unit tests)".into(),
        "width 0 is outside the property's 1..=128; it is probed only for 'no panic, value 0 or clean error' (key to_int:w0 / to_uint:w0)".into(),
        "f32 NaN at the language level is compared by class (the pack word converts f64 -> f32); everything else is bit-exact".into(),
    ];
    // vacuity: every cell of the coverage tables that must be exercised
    let mut need: Vec<String> = vec![];
    for o in ["le", "be"] {
        for k in OFFSETS {
            need.push(format!("api-int:{}:k{}", o, k));
        }
        for k in 0..8 {
            need.push(format!("lang-read:{}:k{}", o, k));
        }
    }
    for wd in ["uint", "int", "u8", "i8", "u16", "i16", "u32", "i32", "u64", "i64", "u8le", "u8be", "i16le", "i16be", "u32le", "u32be", "i64le", "i64be", "f32", "f64", "f32le", "f32be", "f64le", "f64be", "float"] {
        need.push(format!("lang-read:{}", wd));
    }
    for wd in ["uint!", "int!", "u8!", "i8!", "u16!", "i16!", "u32!", "i32!", "u64!", "i64!", "u8le!", "u8be!", "i16le!", "i16be!", "u32le!", "u32be!", "i64le!", "i64be!", "f32!", "f64!", "f32le!", "f32be!", "f64le!", "f64be!", "float!"] {
        need.push(format!("lang-pack:{}", wd));
    }
    for c in ["zero", "subnormal", "normal", "inf", "quiet-nan", "signalling-nan"] {
        need.push(format!("f32:api:{}", c));
        need.push(format!("f64:api:{}", c));
    }
    need.push("w0:api:to_int".into());
    need.push("w0:lang:int".into());
    for n in need {
        if cov.get(&n) == 0 {
            if rep.nviol.load(Ordering::Relaxed) == 0 {
                vacuous(&format!("vacuous: C05 coverage cell {} was never exercised", n));
            }
            // cases failed before reaching the cell: the verdict is a violation, the run is not exhaustive
            ev.cap(format!("coverage cell {} not exercised (earlier failures cut the cases short)", n));
        }
    }
    conclude(&ev, &rep)
}
