// C01 — structured control flow means what the source says.
// Exhaustive enumeration of all programs of the control-flow grammar up to N nodes
// (several strata = sub-grammars), each run on the real interpreter and on the
// structural evaluator of cf.rs; results compared.
use crate::cf::*;
use crate::common::*;
use std::collections::{BTreeMap, BTreeSet};
use std::sync::atomic::{AtomicU64, Ordering};
use xeh::prelude::*;

pub const LIMIT: usize = 400; // instruction limit given to the implementation

pub struct Stratum {
    pub name: &'static str,
    pub gr: Grammar,
    pub g0: G,
    pub wrap: fn(Vec<N>) -> Vec<N>,
    pub max_nodes: usize,
}

fn p(s: &'static str) -> N {
    N::Prim(s)
}

pub fn strata(quick: bool) -> Vec<Stratum> {
    let full = Grammar {
        atoms: vec![N::Int(0), N::Int(1), N::Int(2), N::Flag(true), N::Flag(false), p("dup"), p("drop"), p("+"), p("<"), p("print")],
        if_: true,
        if_else: true,
        case_arms: 1,
        until: true,
        while_: true,
        repeat: true,
        do_: true,
        do_ranges: vec![],
        defs: vec!["f", "g"],
        locals: vec!["x"],
        vars: vec!["v"],
        index_words: true,
        breaks: true,
        max_depth: 3,
        wraps: vec![],
    };
    // S2: definition bodies (locals declared in branches / loops, recursion)
    let body = Grammar {
        atoms: vec![N::Int(0), N::Int(1), N::Flag(true), N::Flag(false), p("dup"), p("drop"), p("+"), p("<"), N::Name("f")],
        if_: true,
        if_else: true,
        case_arms: 0,
        until: true,
        while_: true,
        repeat: false,
        do_: false,
        do_ranges: vec![],
        defs: vec![],
        locals: vec!["x", "y"],
        vars: vec![],
        index_words: false,
        breaks: true,
        max_depth: 3,
        wraps: vec![],
    };
    let body_g0 = G { in_def: true, loops: vec![], flows: 1, locals: vec![], defs: vec![], vars: vec![], depth: 1 };
    // S3: skeletons — every nesting of compound constructs, tiny filler alphabet
    let skel = Grammar {
        atoms: vec![N::Int(1), N::Flag(true), N::Flag(false), p("drop")],
        if_: true,
        if_else: true,
        case_arms: 2,
        until: true,
        while_: true,
        repeat: true,
        do_: true,
        do_ranges: vec![],
        defs: vec![],
        locals: vec![],
        vars: vec![],
        index_words: false,
        breaks: true,
        max_depth: 5,
        wraps: vec![],
    };
    // S4: counted loops with I/J/K, break under if/case, zero-trip ranges, after-loop probes
    let counted = Grammar {
        atoms: vec![N::Int(0), N::Int(1), N::Int(3), N::Flag(true), p("+"), p("drop"), p("=="), p("print")],
        if_: true,
        if_else: false,
        case_arms: 1,
        until: false,
        while_: false,
        repeat: false,
        do_: true,
        do_ranges: vec![],
        defs: vec![],
        locals: vec![],
        vars: vec![],
        index_words: true,
        breaks: true,
        max_depth: 4,
        wraps: vec![],
    };
    // S5: definitions — redefinition, mutual use, nesting, variables
    let defs = Grammar {
        atoms: vec![N::Int(1), N::Int(2), p("+"), p("drop")],
        if_: false,
        if_else: false,
        case_arms: 0,
        until: false,
        while_: false,
        repeat: false,
        do_: false,
        do_ranges: vec![],
        defs: vec!["f", "v"],
        locals: vec!["x"],
        vars: vec!["v"],
        index_words: false,
        breaks: false,
        max_depth: 3,
        wraps: vec![],
    };
    fn id(v: Vec<N>) -> Vec<N> {
        v
    }
    fn wrap_body(v: Vec<N>) -> Vec<N> {
        vec![N::Def("f", v), N::Int(1), N::Int(2), N::Name("f")]
    }
    // S6: name resolution across nested definitions: the outer definition has a local `v`, a global
    // `v` exists too; inside a nested definition `v` means the global (locals are per definition)
    let shadow = Grammar {
        atoms: vec![N::Int(1), p("+"), p("drop")],
        if_: true,
        if_else: false,
        case_arms: 0,
        until: false,
        while_: false,
        repeat: false,
        do_: false,
        do_ranges: vec![],
        defs: vec!["g"],
        locals: vec!["y"],
        vars: vec![],
        index_words: false,
        breaks: false,
        max_depth: 4,
        wraps: vec![],
    };
    let shadow_g0 = G { in_def: true, loops: vec![], flows: 1, locals: vec!["v"], defs: vec!["f"], vars: vec!["v"], depth: 1 };
    fn wrap_shadow(v: Vec<N>) -> Vec<N> {
        let mut body = vec![N::Local("v")];
        body.extend(v);
        vec![N::Int(7), N::Var("v"), N::Def("f", body), N::Int(2), N::Name("f")]
    }
    // S8: loops of different kinds inside each other, every counted loop really iterating (its range is
    // part of the node), break and I/J at every level
    let mixed = Grammar {
        atoms: vec![N::Int(1), N::Flag(true), N::Flag(false), p("drop"), p("print")],
        if_: true,
        if_else: false,
        case_arms: 0,
        until: true,
        while_: true,
        repeat: true,
        do_: false,
        do_ranges: vec![(2, 0)],
        defs: vec![],
        locals: vec![],
        vars: vec![],
        index_words: true,
        breaks: true,
        max_depth: 5,
        wraps: vec![],
    };
    // S10: case inside case (in branches, in the default part, after earlier branches), two literals only
    let cases = Grammar {
        atoms: if quick { vec![N::Int(0)] } else { vec![N::Int(0), N::Int(1)] },
        if_: false,
        if_else: false,
        case_arms: 1,
        until: false,
        while_: false,
        repeat: false,
        do_: false,
        do_ranges: vec![],
        defs: vec![],
        locals: vec![],
        vars: vec![],
        index_words: false,
        breaks: false,
        max_depth: 3,
        wraps: vec![],
    };
    let mut body = body;
    let mut skel = skel;
    if quick {
        // quick tier: same constructs, smaller filler alphabets
        body.atoms = vec![N::Int(0), N::Flag(true), N::Flag(false), p("dup"), p("drop"), N::Name("f")];
        skel.case_arms = 1;
    }
    vec![
        Stratum { name: "S1-full-grammar", gr: full, g0: G::top(), wrap: id, max_nodes: if quick { 4 } else { 5 } },
        Stratum { name: "S2-definition-bodies", gr: body, g0: body_g0, wrap: wrap_body, max_nodes: if quick { 5 } else { 6 } },
        Stratum { name: "S3-skeletons", gr: skel, g0: G::top(), wrap: id, max_nodes: if quick { 5 } else { 6 } },
        Stratum { name: "S4-counted-loops", gr: counted, g0: G::top(), wrap: id, max_nodes: if quick { 5 } else { 6 } },
        Stratum { name: "S5-definitions", gr: defs, g0: G::top(), wrap: id, max_nodes: if quick { 5 } else { 7 } },
        Stratum { name: "S6-nested-definition-names", gr: shadow, g0: shadow_g0, wrap: wrap_shadow, max_nodes: if quick { 5 } else { 7 } },
        Stratum { name: "S8-mixed-loop-nesting", gr: mixed, g0: G::top(), wrap: id, max_nodes: if quick { 5 } else { 6 } },
        Stratum { name: "S10-nested-case", gr: cases, g0: G::top(), wrap: id, max_nodes: 9 },
    ]
}

pub fn classify(e: &Xerr) -> String {
    match e {
        Xerr::StackUnderflow => "Underflow".into(),
        Xerr::TypeError | Xerr::TypeErrorMsg { .. } | Xerr::TypeNotSupported { .. } => "Type".into(),
        Xerr::LoopStackUnderflow => "LoopUnderflow".into(),
        e if is_limit_error(e, "insn") => "Fuel".into(),
        other => format!("Other({})", err_kind(other)),
    }
}

/// the error class the implementation gives to a read of a local slot the call never reached
/// (measured on the tree under test, not matched by message text)
pub fn unset_local_class() -> &'static str {
    static C: std::sync::OnceLock<String> = std::sync::OnceLock::new();
    C.get_or_init(|| {
        let mut xs = boot();
        match guarded(|| xs.eval(": unset-probe false if 1 local p then p ; unset-probe")) {
            Ok(Err(e)) => classify(&e),
            _ => "<none>".to_string(),
        }
    })
}

/// the error class of `! name` where name means a word (measured on the tree under test)
pub fn store_to_word_class() -> &'static str {
    static C: std::sync::OnceLock<String> = std::sync::OnceLock::new();
    C.get_or_init(|| {
        let mut xs = boot();
        match guarded(|| xs.eval(": store-probe 1 ; 0 ! store-probe")) {
            Ok(Err(e)) => classify(&e),
            _ => "<none>".to_string(),
        }
    })
}

pub struct Outcome {
    pub class: String,
    pub stack: Vec<String>,
    pub cells: Vec<String>,
    pub out: String,
}

/// run `src` on a clone of `base` with the instruction limit; returns observable outcome
pub fn run_impl(base: &Xstate, src: &str, ncells: usize) -> Result<Outcome, String> {
    let mut xs = base.clone();
    xs.set_insn_limit(Some(LIMIT)).unwrap();
    let r = guarded(|| xs.eval(src))?;
    let class = match &r {
        Ok(()) => "Ok".to_string(),
        Err(e) => classify(e),
    };
    let stack = stack_of(&xs);
    let d = xs.verif_dump();
    let heap: Vec<&str> = dump_get(&d, "heap").split_whitespace().collect();
    let cells = heap[heap.len().saturating_sub(ncells)..].iter().map(|s| s.to_string()).collect();
    let out = xs.read_stdout().unwrap_or_default();
    Ok(Outcome { class, stack, cells, out })
}

pub struct CaseResult {
    pub agree: bool,
    pub skipped: Option<&'static str>,
    pub mclass: String,
    pub iclass: String,
    pub nontrivial: bool,
    pub steps: usize,
    pub detail: String,
}

pub fn check_program(base: &Xstate, prog: &[N]) -> CaseResult {
    let src = source(prog);
    watch::note(&src);
    let rp = match resolve_program(prog) {
        Some(p) => p,
        None => {
            return CaseResult { agree: true, skipped: Some("not-in-language"), mclass: String::new(), iclass: String::new(), nontrivial: false, steps: 0, detail: String::new() }
        }
    };
    if rp.rejected {
        // refused while it is compiled: the error is the compiler's, nothing of the source has run
        let io = match run_impl(base, &src, 0) {
            Ok(o) => o,
            Err(pmsg) => return CaseResult { agree: false, skipped: None, mclass: "Rejected".into(), iclass: "PANIC".into(), nontrivial: false, steps: 0, detail: format!("panic: {}", pmsg) },
        };
        let agree = io.class == store_to_word_class() && io.stack.is_empty() && io.out.is_empty();
        let detail = if agree { String::new() } else { format!("model: the source stores to a name that means a word at that point, so it is refused by the compiler ({}) and nothing runs | impl: {} stack={:?} out={:?}", store_to_word_class(), io.class, io.stack, io.out) };
        return CaseResult { agree, skipped: None, mclass: "Rejected".into(), iclass: io.class, nontrivial: false, steps: 0, detail };
    }
    // a local read in a call that never executed its declaration has no documented value; what the
    // property needs is that it never shows another call's data. Three consistent readings are
    // accepted: the per-call slot rule of the implementation (nil below the highest slot the call
    // initialised, a failure otherwise), always nil, always a failure at that point.
    let mut verdicts: Vec<(bool, String, String, usize, bool)> = vec![];
    let mut io_cache: Option<Outcome> = None;
    for mode in 0..3u8 {
        let mut m = M::new(&rp, 2 * LIMIT);
        m.unset_mode = mode;
        let mr = m.run();
        let mclass = match &mr {
            Ok(()) => "Ok".to_string(),
            Err(e) => format!("{:?}", e),
        };
        let steps = m.steps;
        if mclass != "Fuel" && steps > LIMIT / 2 {
            return CaseResult { agree: true, skipped: Some("indeterminate-long-run"), mclass, iclass: String::new(), nontrivial: false, steps, detail: String::new() };
        }
        if io_cache.is_none() {
            io_cache = Some(match run_impl(base, &src, rp.ncells) {
                Ok(o) => o,
                Err(pmsg) => {
                    return CaseResult { agree: false, skipped: None, mclass, iclass: "PANIC".into(), nontrivial: false, steps, detail: format!("panic: {}", pmsg) }
                }
            });
        }
        let io = io_cache.as_ref().unwrap();
        let mstack: Vec<String> = m.ds.iter().map(|v| v.render()).collect();
        let mcells: Vec<String> = m.cells.iter().map(|v| v.render()).collect();
        let agree = if mclass == "Fuel" {
            io.class == "Fuel"
        } else if mclass == "Ok" {
            io.class == "Ok" && io.stack == mstack && io.cells == mcells && io.out == m.out
        } else if mclass == "Unbound" {
            io.class == unset_local_class() && io.cells == mcells && io.out == m.out
        } else {
            io.class == mclass && io.cells == mcells && io.out == m.out
        };
        let nontrivial = mclass == "Ok" && (m.back_jumps > 0 || (m.branches_taken > 0 && m.branches_skipped > 0) || m.calls > 0);
        let detail = if agree {
            String::new()
        } else {
            format!(
                "model{}: {} stack={:?} cells={:?} out={:?} | impl: {} stack={:?} cells={:?} out={:?}",
                if m.read_unset_local { " (a local is read in a call that never executed its declaration: expected nil or a failure there)" } else { "" },
                mclass, mstack, mcells, m.out, io.class, io.stack, io.cells, io.out
            )
        };
        let unset = m.read_unset_local;
        verdicts.push((agree, mclass, detail, steps, nontrivial));
        if agree || !unset {
            break;
        }
    }
    let pick = verdicts.iter().position(|v| v.0).unwrap_or(0);
    let (agree, mclass, detail, steps, nontrivial) = verdicts.swap_remove(pick);
    let io = io_cache.unwrap();
    CaseResult { agree, skipped: None, mclass, iclass: io.class, nontrivial, steps, detail }
}

pub fn run(cfg: &Cfg) -> i32 {
    let rep = Reporter::new("C01");
    let mut ev = Evidence::new("C01", cfg);
    ev.rule = format!(
        "every AST of each stratum's grammar up to its node bound, simplest first; non-trivial = the structural evaluator terminates without error and takes a backward jump, or both takes and skips a branch, or performs a call; all programs are distinct ASTs; instruction limit {} (model fuel {}, programs finishing between {} and {} model steps are counted indeterminate)",
        LIMIT, 2 * LIMIT, LIMIT / 2, 2 * LIMIT
    );
    let total_eval = AtomicU64::new(0);
    let total_steps = AtomicU64::new(0);
    let total_nontriv = AtomicU64::new(0);
    let outcomes = Counters::new();
    let mut per_stratum = vec![];
    let deadline = std::time::Instant::now() + std::time::Duration::from_secs(if cfg.quick() { 600 } else { 7200 });
    let only = std::env::var("VERIF_C01_ONLY").ok();
    let nodes_override: Option<usize> = std::env::var("VERIF_C01_NODES").ok().and_then(|s| s.parse().ok());
    for mut st in strata(cfg.quick()) {
        if let Some(o) = &only {
            if !st.name.starts_with(o.as_str()) {
                continue;
            }
        }
        if let Some(n) = nodes_override {
            st.max_nodes = n;
        }
        let t0 = std::time::Instant::now();
        let mut tasks_all: Vec<Task> = vec![];
        for s in 0..=st.max_nodes {
            tasks_all.extend(tasks(&st.gr, s, 2, &st.g0));
        }
        // big tasks first
        tasks_all.sort_by_key(|t| std::cmp::Reverse(t.rest + t.first.map(|f| f.0).unwrap_or(0)));
        let n_tasks = tasks_all.len();
        let st_eval = AtomicU64::new(0);
        let capped = AtomicU64::new(0);
        let samples = std::sync::Mutex::new(Vec::<J>::new());
        par_run(cfg.threads, n_tasks, 1, |_t, pull| {
            let base = boot();
            let mut local: BTreeMap<String, u64> = BTreeMap::new();
            let (mut n_eval, mut n_steps, mut n_nt) = (0u64, 0u64, 0u64);
            while let Some(r) = pull() {
                for ti in r {
                    if std::time::Instant::now() > deadline {
                        capped.fetch_add(1, Ordering::Relaxed);
                        continue;
                    }
                    let task = &tasks_all[ti];
                    run_task(&st.gr, task, &mut |prog, _g| {
                        let whole = (st.wrap)(prog.clone());
                        let cr = check_program(&base, &whole);
                        n_eval += 1;
                        n_steps += cr.steps as u64;
                        if let Some(why) = cr.skipped {
                            bump(&mut local, &format!("skipped:{}", why));
                            return;
                        }
                        bump(&mut local, &format!("outcome:{}", cr.mclass));
                        if cr.nontrivial {
                            n_nt += 1;
                            if n_nt % 50_000 == 1 {
                                let mut s = samples.lock().unwrap();
                                if s.len() < 6 {
                                    s.push(jo(vec![("stratum", js(st.name)), ("program", js(source(&whole))), ("result", js(cr.mclass.clone()))]));
                                }
                            }
                        }
                        if !cr.agree {
                            let mut ks = BTreeSet::new();
                            kinds(&whole, &mut ks);
                            let key = format!("{}->{}|{}", cr.mclass, cr.iclass, ks.into_iter().collect::<Vec<_>>().join("+"));
                            let w = (sz(&whole) as u64) * 1000 + source(&whole).len() as u64;
                            rep.report_w(&key, w, || {
                                jo(vec![
                                    ("kind", js("eval")),
                                    ("stratum", js(st.name)),
                                    ("source", js(source(&whole))),
                                    ("insn_limit", ji(LIMIT)),
                                    ("difference", js(cr.detail.clone())),
                                ])
                            });
                        }
                    });
                }
            }
            outcomes.merge(&local);
            st_eval.fetch_add(n_eval, Ordering::Relaxed);
            total_eval.fetch_add(n_eval, Ordering::Relaxed);
            total_steps.fetch_add(n_steps, Ordering::Relaxed);
            total_nontriv.fetch_add(n_nt, Ordering::Relaxed);
        });
        for s in samples.into_inner().unwrap() {
            ev.sample(s);
        }
        let c = capped.load(Ordering::Relaxed);
        if c > 0 {
            ev.cap(format!("{}: wall-clock cap reached, {} of {} tasks not run", st.name, c, n_tasks));
        }
        per_stratum.push(jo(vec![
            ("stratum", js(st.name)),
            ("max_nodes", ji(st.max_nodes)),
            ("programs", ji(st_eval.load(Ordering::Relaxed))),
            ("tasks", ji(n_tasks)),
            ("tasks_skipped_by_cap", ji(c)),
            ("wall_s", J::F(t0.elapsed().as_secs_f64())),
        ]));
        println!("C01 {}: {} programs, {:.1}s", st.name, st_eval.load(Ordering::Relaxed), t0.elapsed().as_secs_f64());
    }
    // ---- S9: caller x callee. Every callee body (locals declared under branches, read afterwards) under
    // every caller body (own locals, the call in every position incl. last-before-`;`): a call starts
    // with no locals of its own and returns to a caller whose locals are as it left them
    if only.as_deref().map(|o| "S9".starts_with(o) || o.starts_with("S9")).unwrap_or(true) {
        let t0 = std::time::Instant::now();
        let callee = Grammar {
            atoms: if cfg.quick() { vec![N::Int(1), N::Flag(false)] } else { vec![N::Int(1), N::Flag(false), N::Flag(true), p("drop")] },
            if_: true,
            if_else: false,
            case_arms: 0,
            until: false,
            while_: false,
            repeat: false,
            do_: false,
            do_ranges: vec![],
            defs: vec![],
            locals: if cfg.quick() { vec!["p"] } else { vec!["p", "q"] },
            vars: vec![],
            index_words: false,
            breaks: false,
            max_depth: 3,
            wraps: vec![],
        };
        let caller = Grammar { atoms: if cfg.quick() { vec![N::Int(7), N::Flag(true)] } else { vec![N::Int(7), N::Flag(true), p("drop")] }, locals: vec!["a"], ..callee.clone() };
        let callee_g0 = G { in_def: true, loops: vec![], flows: 1, locals: vec![], defs: vec![], vars: vec![], depth: 1 };
        let caller_g0 = G { in_def: true, loops: vec![], flows: 1, locals: vec![], defs: vec!["g"], vars: vec![], depth: 1 };
        let (ncallee, ncaller) = (5, 4); // the thorough tier differs in its alphabets (two locals, four atoms)
        let mut callees: Vec<Vec<N>> = vec![];
        for s in 0..=ncallee {
            let mut acc = vec![];
            gen_seq(&callee, s, &callee_g0, &mut acc, &mut |b, _| {
                // only bodies that both declare and read a local
                let src = source(b);
                if src.contains("local") {
                    callees.push(b.clone())
                }
            });
        }
        let mut callers: Vec<Vec<N>> = vec![];
        for s in 0..=ncaller {
            let mut acc = vec![];
            gen_seq(&caller, s, &caller_g0, &mut acc, &mut |b, _| {
                if b.iter().any(|n| source(std::slice::from_ref(n)).split_whitespace().any(|w| w == "g")) {
                    callers.push(b.clone())
                }
            });
        }
        let n9 = AtomicU64::new(0);
        let nt9 = AtomicU64::new(0);
        par_run(cfg.threads, callees.len(), 4, |_t, pull| {
            let base = boot();
            let mut local: BTreeMap<String, u64> = BTreeMap::new();
            while let Some(r) = pull() {
                for ci in r {
                    for f in &callers {
                        let whole = vec![N::Def("g", callees[ci].clone()), N::Def("f", f.clone()), N::Int(1), N::Int(2), N::Name("f")];
                        let cr = check_program(&base, &whole);
                        n9.fetch_add(1, Ordering::Relaxed);
                        if let Some(why) = cr.skipped {
                            bump(&mut local, &format!("skipped:{}", why));
                            continue;
                        }
                        bump(&mut local, &format!("outcome:{}", cr.mclass));
                        if cr.nontrivial {
                            nt9.fetch_add(1, Ordering::Relaxed);
                        }
                        if !cr.agree {
                            let key = format!("{}->{}|caller-callee", cr.mclass, cr.iclass);
                            let w = (sz(&whole) as u64) * 1000 + source(&whole).len() as u64;
                            rep.report_w(&key, w, || {
                                jo(vec![("kind", js("eval")), ("stratum", js("S9-caller-callee")), ("source", js(source(&whole))), ("insn_limit", ji(LIMIT)), ("difference", js(cr.detail.clone()))])
                            });
                        }
                    }
                }
            }
            outcomes.merge(&local);
        });
        total_eval.fetch_add(n9.load(Ordering::Relaxed), Ordering::Relaxed);
        total_nontriv.fetch_add(nt9.load(Ordering::Relaxed), Ordering::Relaxed);
        per_stratum.push(jo(vec![
            ("stratum", js("S9-caller-callee")),
            ("callee_bodies", ji(callees.len())),
            ("caller_bodies", ji(callers.len())),
            ("max_nodes", js(format!("callee {} / caller {}", ncallee, ncaller))),
            ("programs", ji(n9.load(Ordering::Relaxed))),
            ("wall_s", J::F(t0.elapsed().as_secs_f64())),
        ]));
        println!("C01 S9-caller-callee: {} x {} = {} programs, {:.1}s", callees.len(), callers.len(), n9.load(Ordering::Relaxed), t0.elapsed().as_secs_f64());
    }
    // ---- S11: declarations skipped by an untaken branch. A definition declares 0..3 locals inside a
    // branch and 1..2 after it; every local is read at the end (one read per program plus all of the
    // later ones); the branch is taken or not. (Reads of skipped locals are judged by the unset-local rule.)
    if only.as_deref().map(|o| o.starts_with("S11")).unwrap_or(true) {
        let t0 = std::time::Instant::now();
        let base = boot();
        let inner: [&'static str; 3] = ["a", "b", "c"];
        let later: [&'static str; 2] = ["d", "e"];
        let mut n11 = 0u64;
        let mut local: BTreeMap<String, u64> = BTreeMap::new();
        for taken in [true, false] {
            for ni in 0..=3usize {
                for nl in 1..=2usize {
                    for else_branch in [false, true] {
                        // which names are read at the end: each single name, and all later ones
                        let mut read_sets: Vec<Vec<&'static str>> = vec![later[..nl].to_vec()];
                        for nm in inner[..ni].iter().chain(later[..nl].iter()) {
                            read_sets.push(vec![*nm]);
                        }
                        for reads in read_sets {
                            let mut branch: Vec<N> = vec![];
                            for (i, nm) in inner[..ni].iter().enumerate() {
                                branch.push(N::Int(10 + i as i64));
                                branch.push(N::Local(nm));
                            }
                            let mut body: Vec<N> = vec![N::Flag(taken), N::If(branch, if else_branch { Some(vec![N::Int(0), N::Prim("drop")]) } else { None })];
                            for (i, nm) in later[..nl].iter().enumerate() {
                                body.push(N::Int(20 + i as i64));
                                body.push(N::Local(nm));
                            }
                            for nm in &reads {
                                body.push(N::Name(nm));
                            }
                            let whole = vec![N::Def("g", body), N::Name("g")];
                            let cr = check_program(&base, &whole);
                            n11 += 1;
                            if let Some(why) = cr.skipped {
                                bump(&mut local, &format!("skipped:{}", why));
                                continue;
                            }
                            bump(&mut local, &format!("outcome:{}", cr.mclass));
                            if !cr.agree {
                                let key = format!("{}->{}|skipped-declarations", cr.mclass, cr.iclass);
                                rep.report_w(&key, (sz(&whole) * 1000 + source(&whole).len()) as u64, || {
                                    jo(vec![("kind", js("eval")), ("stratum", js("S11-skipped-declarations")), ("source", js(source(&whole))), ("insn_limit", ji(LIMIT)), ("difference", js(cr.detail.clone()))])
                                });
                            }
                        }
                    }
                }
            }
        }
        outcomes.merge(&local);
        total_eval.fetch_add(n11, Ordering::Relaxed);
        per_stratum.push(jo(vec![("stratum", js("S11-skipped-declarations")), ("programs", ji(n11)), ("wall_s", J::F(t0.elapsed().as_secs_f64()))]));
        println!("C01 S11-skipped-declarations: {} programs, {:.1}s", n11, t0.elapsed().as_secs_f64());
    }
    // ---- S7: a later source never sees loop indices of an earlier one, however that one ended
    // (structurally a new source starts outside every loop): after every program of the counted-loop
    // grammar, `I` and `J`-in-one-loop evaluated as the next source must report the loop underflow
    {
        let t0 = std::time::Instant::now();
        let all = strata(cfg.quick());
        let st = all.iter().find(|s| s.name.starts_with("S4")).unwrap();
        let maxn = if cfg.quick() { 4 } else { 5 };
        let mut tasks_all: Vec<Task> = vec![];
        for s in 0..=maxn {
            tasks_all.extend(tasks(&st.gr, s, 2, &st.g0));
        }
        let n7 = AtomicU64::new(0);
        par_run(cfg.threads, tasks_all.len(), 1, |_t, pull| {
            let base = boot();
            let mut local: BTreeMap<String, u64> = BTreeMap::new();
            while let Some(r) = pull() {
                for ti in r {
                    run_task(&st.gr, &tasks_all[ti], &mut |prog, _g| {
                        let src = source(prog);
                        let mut xs = base.clone();
                        xs.set_insn_limit(Some(LIMIT)).unwrap();
                        let r1 = match guarded(|| xs.eval(&src)) {
                            Ok(r) => r,
                            Err(_) => return,
                        };
                        bump(&mut local, if r1.is_ok() { "S7:first-source-ok" } else { "S7:first-source-failed" });
                        n7.fetch_add(1, Ordering::Relaxed);
                        for probe in ["I", "1 0 do J loop", "2 0 do 1 0 do K loop loop"] {
                            let mut y = xs.clone();
                            y.set_insn_limit(Some(LIMIT)).unwrap();
                            let r2 = guarded(|| y.eval(probe));
                            let ok = matches!(&r2, Ok(Err(Xerr::LoopStackUnderflow)));
                            if !ok {
                                let key = format!("later-source-sees-loop-index|{}", if r1.is_ok() { "after-ok" } else { "after-failure" });
                                rep.report_w(&key, (sz(prog) * 1000 + src.len()) as u64, || {
                                    jo(vec![
                                        ("kind", js("eval-sequence")),
                                        ("stratum", js("S7-later-source")),
                                        ("sources", J::A(vec![js(src.clone()), js(probe)])),
                                        ("first_result", js(format!("{:?}", r1))),
                                        ("probe_result", js(format!("{:?}", r2))),
                                        ("expected", js("LoopStackUnderflow")),
                                    ])
                                });
                            }
                        }
                    });
                }
            }
            outcomes.merge(&local);
        });
        total_eval.fetch_add(n7.load(Ordering::Relaxed), Ordering::Relaxed);
        per_stratum.push(jo(vec![("stratum", js("S7-later-source-loop-probes")), ("max_nodes", ji(maxn)), ("programs", ji(n7.load(Ordering::Relaxed))), ("wall_s", J::F(t0.elapsed().as_secs_f64()))]));
        println!("C01 S7-later-source-loop-probes: {} programs, {:.1}s", n7.load(Ordering::Relaxed), t0.elapsed().as_secs_f64());
    }
    ev.evaluations = total_eval.load(Ordering::Relaxed);
    ev.states = ev.evaluations;
    ev.transitions = total_steps.load(Ordering::Relaxed);
    ev.traces = ev.evaluations.saturating_sub(0) - outcomes.get("skipped:not-in-language") - outcomes.get("skipped:reads-unset-local") - outcomes.get("skipped:indeterminate-long-run");
    ev.nontrivial = total_nontriv.load(Ordering::Relaxed);
    ev.add("strata", J::A(per_stratum));
    ev.add("outcome_classes", outcomes.json());
    ev.assumptions = vec![
        "the structural evaluator in mc/src/cf.rs is the reference semantics (documented language: README + pinned suite behaviour)".into(),
        "a local read in a call that never executed its declaration has no documented value: nil or a failure at that point are both accepted (consistently per program, or by the per-call slot rule), any other value is a violation".into(),
        "error point = error class + stdout + global variables at the failure; the data stack after a failing primitive is not compared".into(),
    ];
    if outcomes.get("skipped:not-in-language") > 0 {
        ev.add("generator_sanity", js("generator produced programs the resolver rejects (counted as skipped:not-in-language)"));
    }
    conclude(&ev, &rep)
}

pub fn replay(case_src: &str) {
    let base = boot();
    let mut xs = base.clone();
    xs.set_insn_limit(Some(LIMIT)).unwrap();
    let r = xs.eval(case_src);
    println!("source: {}", case_src);
    println!("result: {:?}", r);
    println!("stack:  {:?}", stack_of(&xs));
    println!("stdout: {:?}", xs.read_stdout());
}
