#!/bin/sh
# runs every check of the given tier sequentially; prints one line per check
tier=${1:-quick}
cd /verif
for i in 01 02 03 04 05 06 07 08 09 10 11 12 13 14 15 16 17 18; do
  s=$(date +%s)
  out=$(./check C$i $tier 2>&1); code=$?
  e=$(date +%s)
  echo "C$i exit=$code $((e-s))s $(echo "$out" | grep -E "^C$i $tier" | tail -1 | cut -c1-160)"
  echo "$out" | grep -E "^(VIOLATION|MACHINERY|KNOWN)" | cut -c1-200
done
