#!/usr/bin/env python3
# ./check replay <file>  — prints a recorded counterexample and, where the record carries source
# texts, re-runs them verbosely on the real interpreter (xmc replay-seq)
import json, sys, subprocess, os
rec = json.load(open(sys.argv[1]))
case = rec.get('case', {})
print('property:', rec.get('property'), ' key:', rec.get('key'), ' cases with this key:', rec.get('cases_with_this_key'))
print(json.dumps(case, indent=1, ensure_ascii=False)[:4000])
srcs = None
env = dict(os.environ)
k = case.get('kind')
if 'sources' in case: srcs = case['sources']
elif 'sources_in_order' in case: srcs = case['sources_in_order']
elif 'with_block' in case: srcs = None; runs = [[case['with_block']], [case['inlined']]]
elif 'source' in case: srcs = [case['source']]
elif 'program' in case:
    prog = case['program']
    # C13 records the position variant as `PROGRAM   -- written as `SOURCE``
    if '-- written as `' in prog: prog = prog.split('-- written as `', 1)[1].rstrip('`')
    srcs = [prog]
elif k == 'hang':
    print('(the noted case is re-run with a 30 s time limit)')
    srcs = [case.get('case_noted_by_the_stuck_thread', '')]
elif 'lines' in case: srcs = case['lines']; env['XMC_REPLAY_STYLE'] = 'compile+run'
elif 'rejected_source' in case:
    srcs = [h.split(': ', 1)[1] for h in case.get('history', [])] + [case['rejected_source'], 'depth']
if case.get('insn_limit'): env['XMC_REPLAY_INSN_LIMIT'] = str(case['insn_limit'])
if case.get('binary_input') not in (None, 'none', False): env['XMC_REPLAY_INPUT'] = '1'
xmc = '/verif/mc/target/release/xmc'
if 'with_block' in case:
    for r in runs:
        print('---'); subprocess.run([xmc, 'replay-seq'] + r, env=env)
elif srcs:
    print('--- re-running on the real interpreter')
    try:
        subprocess.run([xmc, 'replay-seq'] + [s for s in srcs if not s.startswith('/') and not s.startswith('(host)')], env=env, timeout=30)
    except subprocess.TimeoutExpired:
        print('... did not finish within 30 s')
else:
    print('(this record is replayed by re-running the check; it has no source texts)')
