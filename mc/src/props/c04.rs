// C04 — bit-string operations depend only on the bit sequence, never on how it is stored.
// (1) stateless DFS over all operation histories on a pool of 3 bit-strings (every state is
//     rebuilt by replaying its history from nothing, because cloning a Bitstr changes the very
//     reference counts the property quantifies over);
// (2) single-operation sweep: every bit-string of length 0..=10 x 8 start alignments x
//     ownership recipes x junk patterns x every operation with every small argument.
// Reference model: Vec<u8> of bits.
use crate::common::*;
use std::collections::BTreeMap;
use std::sync::atomic::{AtomicU64, Ordering};
use xeh::bitstr::*;

#[derive(Clone)]
struct Slot {
    bs: Bitstr,
    m: Vec<u8>,
}

fn model_bytes(m: &[u8]) -> Vec<u8> {
    // groups of up to 8 bits, each group's value right-aligned (what iter8 yields)
    m.chunks(8).map(|c| c.iter().fold(0u8, |a, b| (a << 1) | b)).collect()
}

fn aligned_copy(m: &[u8]) -> Bitstr {
    let mut b = BitvecBuilder::default();
    for x in m {
        b.append_bit(*x);
    }
    b.finish()
}

fn model_hex(m: &[u8]) -> String {
    let mut s = String::new();
    for c in m.chunks(8) {
        let v = c.iter().fold(0u32, |a, b| (a << 1) | *b as u32);
        if c.len() > 4 {
            s.push(char::from_digit(v >> 4, 16).unwrap());
        }
        s.push(char::from_digit(v & 0xf, 16).unwrap());
    }
    s
}

/// ownership class of a value, from the storage hook (only used for keys and coverage tables)
fn own_class(bs: &Bitstr) -> String {
    let (strong, buflen, borrowed) = bs.verif_storage();
    let need = upper_bound_index(bs.end()) - bs.start() / 8;
    let slack = buflen > need || bs.start() >= 8;
    format!(
        "{}{}{}",
        if borrowed { "borrowed" } else if strong == 1 { "unique" } else { "shared" },
        if slack { "+slack" } else { "" },
        if bs.start() % 8 != 0 { "+unaligned" } else { "" }
    )
}

/// every observer of the value must agree with the model
fn check_obs(bs: &Bitstr, m: &[u8]) -> Result<(), String> {
    if bs.len() != m.len() {
        return Err(format!("len {} vs {}", bs.len(), m.len()));
    }
    if bs.end() - bs.start() != m.len() {
        return Err("end-start".into());
    }
    let bits: Vec<u8> = bs.bits().collect();
    if bits != m {
        return Err(format!("bits {:?} vs {:?}", bits, m));
    }
    let mut pos = 0;
    for (v, n) in bs.iter8() {
        let n = n as usize;
        let exp_n = (m.len() - pos).min(8);
        if n != exp_n || n == 0 {
            return Err(format!("iter8 group length {} vs {}", n, exp_n));
        }
        let e = m[pos..pos + n].iter().fold(0u8, |a, b| (a << 1) | b);
        if v != e {
            return Err(format!("iter8 value {:#x} vs {:#x} at bit {}", v, e, pos));
        }
        pos += n;
    }
    if pos != m.len() {
        return Err(format!("iter8 total {} vs {}", pos, m.len()));
    }
    let mb = model_bytes(m);
    if bs.to_bytes_with_padding() != mb {
        return Err("to_bytes_with_padding".into());
    }
    let bytestr_ok = m.len() % 8 == 0;
    match bs.to_bytes() {
        Some(b) if bytestr_ok && b == mb => {}
        None if !bytestr_ok => {}
        other => return Err(format!("to_bytes {:?} vs {:?}", other, if bytestr_ok { Some(&mb) } else { None })),
    }
    match bs.bytestr() {
        Some(b) if bytestr_ok && b.as_ref() == mb.as_slice() => {}
        None if !bytestr_ok => {}
        other => return Err(format!("bytestr {:?}", other.map(|c| c.into_owned()))),
    }
    if bs.is_bytestr() != bytestr_ok {
        return Err("is_bytestr".into());
    }
    // `slice` may decline (None) when the value is not byte aligned in its buffer, but what it
    // returns must be the value
    if let Some(s) = bs.slice() {
        if !bytestr_ok || s != mb.as_slice() {
            return Err(format!("slice {:x?} vs {:x?}", s, mb));
        }
    }
    if bs.to_hex_string() != model_hex(m) {
        return Err(format!("to_hex_string {} vs {}", bs.to_hex_string(), model_hex(m)));
    }
    let fresh = aligned_copy(m);
    if !bs.eq_with(&fresh) || !fresh.eq_with(bs) || bs != &fresh {
        return Err("eq_with aligned copy of the same bits is false".into());
    }
    if format!("{:?}", bs) != format!("{:?}", fresh) {
        return Err("Debug rendering differs from aligned copy".into());
    }
    Ok(())
}

fn check_eq_pair(a: &Slot, b: &Slot) -> Result<(), String> {
    let exp = a.m == b.m;
    if a.bs.eq_with(&b.bs) != exp || b.bs.eq_with(&a.bs) != exp {
        return Err(format!("eq_with {:?} {:?} != {}", a.m, b.m, exp));
    }
    Ok(())
}

// ---------------------------------------------------------------- (1) histories
#[derive(Clone, Debug)]
enum Op {
    Fresh(usize, usize),
    Static(usize),
    Hex(usize),
    Build(usize),
    Read(usize, usize),
    Peek(usize, usize),
    Seek(usize, usize),
    Substr(usize, usize, usize),
    Split(usize, usize),
    Append(usize, usize),
    Insert(usize, usize, usize),
    Invert(usize),
    Detach(usize),
    Clone(usize),
    Drop(usize),
}

impl Op {
    fn name(&self) -> &'static str {
        match self {
            Op::Fresh(..) => "fresh",
            Op::Static(..) => "static",
            Op::Hex(..) => "from_hex",
            Op::Build(..) => "builder",
            Op::Read(..) => "read",
            Op::Peek(..) => "peek",
            Op::Seek(..) => "seek",
            Op::Substr(..) => "substr",
            Op::Split(..) => "split_at",
            Op::Append(..) => "append",
            Op::Insert(..) => "insert",
            Op::Invert(..) => "invert",
            Op::Detach(..) => "detach",
            Op::Clone(..) => "clone",
            Op::Drop(..) => "drop",
        }
    }
}

static ST: [u8; 3] = [0xA5, 0x3C, 0x96];
fn pat(p: usize, len: usize) -> Vec<u8> {
    match p {
        0 => vec![0xff; len],
        1 => vec![0; len],
        _ => ST[..len].to_vec(),
    }
}
fn bits_of(bytes: &[u8], nbits: usize) -> Vec<u8> {
    (0..nbits).map(|i| (bytes[i / 8] >> (7 - i % 8)) & 1).collect()
}

const POOL: usize = 3;

/// Ok(None) = op not applicable in this state; Ok(Some(class)) = applied, class = ownership
/// class of the receiver before the op; Err = violation description
fn apply(pool: &mut Vec<Option<Slot>>, op: &Op) -> Result<Option<String>, String> {
    let free = pool.iter().position(|s| s.is_none());
    let cls = |pool: &Vec<Option<Slot>>, i: usize| pool[i].as_ref().map(|s| own_class(&s.bs)).unwrap_or_default();
    match op {
        Op::Fresh(p, len) => {
            let Some(f) = free else { return Ok(None) };
            let v = pat(*p, *len);
            let m = bits_of(&v, len * 8);
            pool[f] = Some(Slot { bs: Bitstr::from(v), m });
            Ok(Some(String::new()))
        }
        Op::Static(len) => {
            let Some(f) = free else { return Ok(None) };
            pool[f] = Some(Slot { bs: Bitstr::from(&ST[..*len]), m: bits_of(&ST, len * 8) });
            Ok(Some(String::new()))
        }
        Op::Hex(k) => {
            let Some(f) = free else { return Ok(None) };
            let s = ["", "a", "5c3", "ff00f"][*k];
            let bs = Bitstr::from_hex_str(s).map_err(|_| "from_hex_str failed")?;
            let mut m = vec![];
            for c in s.chars() {
                let d = c.to_digit(16).unwrap();
                for i in (0..4).rev() {
                    m.push(((d >> i) & 1) as u8);
                }
            }
            pool[f] = Some(Slot { bs, m });
            Ok(Some(String::new()))
        }
        Op::Build(k) => {
            let Some(f) = free else { return Ok(None) };
            let m: Vec<u8> = [vec![], vec![1], vec![1, 0, 1], vec![0, 1, 1, 0, 1, 0, 0, 1, 1]][*k].clone();
            pool[f] = Some(Slot { bs: aligned_copy(&m), m });
            Ok(Some(String::new()))
        }
        Op::Read(i, n) => {
            let Some(f) = free else { return Ok(None) };
            let c = cls(pool, *i);
            let Some(s) = pool[*i].as_mut() else { return Ok(None) };
            let r = s.bs.read(*n);
            if *n > s.m.len() {
                if r.is_some() {
                    return Err("read beyond the end succeeded".into());
                }
            } else {
                let r = r.ok_or("read inside the value failed")?;
                let head: Vec<u8> = s.m.drain(..*n).collect();
                pool[f] = Some(Slot { bs: r, m: head });
            }
            Ok(Some(c))
        }
        Op::Peek(i, n) => {
            let Some(f) = free else { return Ok(None) };
            let c = cls(pool, *i);
            let Some(s) = pool[*i].as_ref() else { return Ok(None) };
            let r = s.bs.peek(*n);
            if *n > s.m.len() {
                if r.is_some() {
                    return Err("peek beyond the end succeeded".into());
                }
            } else {
                let m = s.m[..*n].to_vec();
                pool[f] = Some(Slot { bs: r.ok_or("peek inside the value failed")?, m });
            }
            Ok(Some(c))
        }
        Op::Seek(i, k) => {
            let Some(f) = free else { return Ok(None) };
            let c = cls(pool, *i);
            let Some(s) = pool[*i].as_ref() else { return Ok(None) };
            let r = s.bs.seek(s.bs.start() + *k);
            if *k > s.m.len() {
                if r.is_some() {
                    return Err("seek beyond the end succeeded".into());
                }
            } else {
                let m = s.m[*k..].to_vec();
                pool[f] = Some(Slot { bs: r.ok_or("seek inside the value failed")?, m });
            }
            Ok(Some(c))
        }
        Op::Substr(i, a, b) => {
            let Some(f) = free else { return Ok(None) };
            let c = cls(pool, *i);
            let Some(s) = pool[*i].as_ref() else { return Ok(None) };
            let r = s.bs.substr(s.bs.start() + *a, s.bs.start() + *b);
            if *a > *b || *b > s.m.len() {
                if r.is_some() {
                    return Err("substr outside the value succeeded".into());
                }
            } else {
                let m = s.m[*a..*b].to_vec();
                pool[f] = Some(Slot { bs: r.ok_or("substr inside the value failed")?, m });
            }
            Ok(Some(c))
        }
        Op::Split(i, k) => {
            let Some(f) = free else { return Ok(None) };
            let c = cls(pool, *i);
            let Some(s) = pool[*i].take() else { return Ok(None) };
            let r = s.bs.split_at(*k);
            if *k > s.m.len() {
                if r.is_some() {
                    return Err("split_at beyond the end succeeded".into());
                }
                pool[*i] = Some(s);
            } else {
                let (l, r) = r.ok_or("split_at inside the value failed")?;
                let (ml, mr) = (s.m[..*k].to_vec(), s.m[*k..].to_vec());
                drop(s); // the original handle is gone: halves may become the only owners
                pool[*i] = Some(Slot { bs: l, m: ml });
                pool[f] = Some(Slot { bs: r, m: mr });
            }
            Ok(Some(c))
        }
        Op::Append(i, j) => {
            let c = cls(pool, *i);
            if pool[*i].is_none() || pool[*j].is_none() {
                return Ok(None);
            }
            if i == j {
                // tail is a second handle on the same value
                let a = pool[*i].take().unwrap();
                let t = a.bs.clone();
                let mut m = a.m.clone();
                m.extend(&a.m);
                let r = a.bs.append(&t);
                if t.bits().collect::<Vec<u8>>() != a.m {
                    return Err("append modified its tail operand".into());
                }
                pool[*i] = Some(Slot { bs: r, m });
                return Ok(Some(c));
            }
            let a = pool[*i].take().unwrap();
            let t = pool[*j].as_ref().unwrap();
            let mut m = a.m.clone();
            m.extend(&t.m);
            let r = a.bs.append(&t.bs);
            pool[*i] = Some(Slot { bs: r, m });
            Ok(Some(c))
        }
        Op::Insert(i, k, j) => {
            if i == j || pool[*i].is_none() || pool[*j].is_none() {
                return Ok(None);
            }
            let c = cls(pool, *i);
            let a = pool[*i].take().unwrap();
            let t = pool[*j].as_ref().unwrap();
            if *k > a.m.len() {
                let r = a.bs.clone().insert(*k, &t.bs);
                if r.is_some() {
                    return Err("insert beyond the end succeeded".into());
                }
                pool[*i] = Some(a);
            } else {
                let mut m = a.m[..*k].to_vec();
                m.extend(&t.m);
                m.extend(&a.m[*k..]);
                let r = a.bs.insert(*k, &t.bs).ok_or("insert inside the value failed")?;
                pool[*i] = Some(Slot { bs: r, m });
            }
            Ok(Some(c))
        }
        Op::Invert(i) => {
            let c = cls(pool, *i);
            let Some(a) = pool[*i].take() else { return Ok(None) };
            let m = a.m.iter().map(|b| 1 - b).collect();
            pool[*i] = Some(Slot { bs: a.bs.invert(), m });
            Ok(Some(c))
        }
        Op::Detach(i) => {
            let c = cls(pool, *i);
            let Some(a) = pool[*i].take() else { return Ok(None) };
            pool[*i] = Some(Slot { bs: a.bs.detach(), m: a.m });
            Ok(Some(c))
        }
        Op::Clone(i) => {
            let Some(f) = free else { return Ok(None) };
            let c = cls(pool, *i);
            let Some(s) = pool[*i].as_ref() else { return Ok(None) };
            pool[f] = Some(s.clone());
            Ok(Some(c))
        }
        Op::Drop(i) => {
            if pool[*i].is_none() {
                return Ok(None);
            }
            let c = cls(pool, *i);
            pool[*i] = None;
            Ok(Some(c))
        }
    }
}

fn check_pool(pool: &Vec<Option<Slot>>) -> Result<(), String> {
    for (i, s) in pool.iter().enumerate() {
        if let Some(s) = s {
            check_obs(&s.bs, &s.m).map_err(|e| format!("slot{}: {}", i, e))?;
        }
    }
    for i in 0..pool.len() {
        for j in i + 1..pool.len() {
            if let (Some(a), Some(b)) = (&pool[i], &pool[j]) {
                check_eq_pair(a, b)?;
            }
        }
    }
    Ok(())
}

fn alphabet(quick: bool) -> Vec<Op> {
    let mut ops = vec![];
    for p in 0..3 {
        for len in if quick { vec![1usize, 2] } else { vec![0usize, 1, 2, 3] } {
            ops.push(Op::Fresh(p, len));
        }
    }
    ops.push(Op::Static(2));
    if !quick {
        ops.push(Op::Static(0));
        ops.push(Op::Static(3));
    }
    for k in if quick { vec![2usize] } else { vec![0usize, 1, 2, 3] } {
        ops.push(Op::Hex(k));
        ops.push(Op::Build(k));
    }
    let ns: Vec<usize> = if quick { vec![0, 3, 4, 8, 9, 12, 17] } else { vec![0, 1, 3, 4, 7, 8, 9, 12, 16, 17, 25] };
    for i in 0..POOL {
        for n in &ns {
            ops.push(Op::Read(i, *n));
        }
        for n in if quick { vec![4usize, 8] } else { vec![0usize, 4, 8, 12, 17] } {
            ops.push(Op::Peek(i, n));
            ops.push(Op::Seek(i, n));
            ops.push(Op::Split(i, n));
        }
        ops.push(Op::Substr(i, 3, 11));
        if !quick {
            ops.push(Op::Substr(i, 8, 16));
            ops.push(Op::Substr(i, 5, 5));
            ops.push(Op::Substr(i, 9, 4));
        }
        for j in 0..POOL {
            ops.push(Op::Append(i, j));
            if i != j {
                ops.push(Op::Insert(i, 4, j));
                if !quick {
                    ops.push(Op::Insert(i, 8, j));
                    ops.push(Op::Insert(i, 0, j));
                }
            }
        }
        ops.push(Op::Invert(i));
        ops.push(Op::Detach(i));
        ops.push(Op::Clone(i));
        ops.push(Op::Drop(i));
    }
    ops
}

struct DfsStats {
    seqs: u64,
    applied: u64,
    classes: BTreeMap<String, u64>,
}

fn replay(ops: &[Op], hist: &[usize]) -> Option<Vec<Option<Slot>>> {
    let mut pool: Vec<Option<Slot>> = vec![None; POOL];
    for h in hist {
        match apply(&mut pool, &ops[*h]) {
            Ok(Some(_)) => {}
            _ => return None,
        }
    }
    Some(pool)
}

fn dfs(ops: &[Op], hist: &mut Vec<usize>, depth: usize, st: &mut DfsStats, rep: &Reporter) {
    if hist.len() == depth {
        st.seqs += 1;
        return;
    }
    for (k, op) in ops.iter().enumerate() {
        // rebuild by replay: cloning the pool would change the reference counts
        let Some(mut pool) = replay(ops, hist) else { continue };
        let r = guarded(|| apply(&mut pool, op));
        let res: Result<Option<String>, String> = match r {
            Err(p) => Err(format!("panic: {}", p)),
            Ok(r) => r,
        };
        let res = match res {
            Ok(None) => continue,
            Ok(Some(cls)) => match guarded(|| check_pool(&pool)) {
                Err(p) => Err((cls, format!("panic in observer: {}", p))),
                Ok(Err(x)) => Err((cls, x)),
                Ok(Ok(())) => Ok(cls),
            },
            Err(x) => Err((String::new(), x)),
        };
        st.applied += 1;
        hist.push(k);
        match res {
            Ok(cls) => {
                if !cls.is_empty() {
                    bump(&mut st.classes, &format!("{}:{}", op.name(), cls));
                }
                dfs(ops, hist, depth, st, rep);
            }
            Err((cls, x)) => {
                let body = if x.starts_with("slot") { x.splitn(2, ": ").nth(1).unwrap_or("") } else { x.as_str() };
                let what: String = body.split(' ').take(2).collect::<Vec<_>>().join("-");
                let key = format!("{}:{}:{}", op.name(), if cls.is_empty() { "-" } else { &cls }, what);
                rep.report_w(&key, hist.len() as u64, || {
                    jo(vec![
                        ("kind", js("bitstr-history")),
                        ("history", J::A(hist.iter().map(|h| js(format!("{:?}", ops[*h]))).collect())),
                        ("problem", js(x.clone())),
                    ])
                });
            }
        }
        hist.pop();
    }
}

// ---------------------------------------------------------------- (2) single operation sweep
const RECIPES: [&str; 6] = ["fresh-aligned", "slice-parent-alive", "slice-parent-dropped", "borrowed-static", "result-of-append", "result-of-invert"];

/// build a value with bit content `m` whose first bit sits at bit offset `a` of its buffer
fn make(recipe: usize, m: &[u8], a: usize, junk: u8, keep: &mut Vec<Bitstr>) -> Option<Bitstr> {
    let mut buf_bits: Vec<u8> = vec![junk; a];
    buf_bits.extend(m);
    let trailing = 13 - (buf_bits.len() % 8);
    buf_bits.extend(std::iter::repeat(junk).take(trailing));
    let bytes = model_bytes_left(&buf_bits);
    match recipe {
        0 => {
            if a != 0 {
                return None;
            }
            Some(aligned_copy(m))
        }
        1 => {
            let parent = Bitstr::from(bytes);
            let v = parent.substr(a, a + m.len())?;
            keep.push(parent);
            Some(v)
        }
        2 => {
            let parent = Bitstr::from(bytes);
            let v = parent.substr(a, a + m.len())?;
            drop(parent);
            Some(v)
        }
        3 => {
            let leaked: &'static [u8] = Box::leak(bytes.into_boxed_slice());
            let parent = Bitstr::from(leaked);
            parent.substr(a, a + m.len())
        }
        4 => {
            // uniquely owned slice (with slack) + appended tail
            let k = m.len() / 2;
            let parent = Bitstr::from(bytes);
            let head = parent.substr(a, a + k)?;
            drop(parent);
            let tail = aligned_copy(&m[k..]);
            Some(head.append(&tail))
        }
        _ => {
            let inv: Vec<u8> = buf_bits.iter().map(|b| 1 - b).collect();
            let parent = Bitstr::from(model_bytes_left(&inv));
            let v = parent.substr(a, a + m.len())?;
            drop(parent);
            Some(v.invert())
        }
    }
}

fn model_bytes_left(bits: &[u8]) -> Vec<u8> {
    bits.chunks(8)
        .map(|c| {
            let mut v = 0u8;
            for (i, b) in c.iter().enumerate() {
                v |= b << (7 - i);
            }
            v
        })
        .collect()
}

fn single_ops(subject_m: &[u8], mk: &dyn Fn() -> Bitstr, mk_sibling: &dyn Fn(&[u8]) -> Bitstr, tails: &[(Bitstr, Vec<u8>)], counts: &mut BTreeMap<String, u64>, cls: &str) -> Result<u64, (String, String)> {
    let mut n = 0u64;
    let len = subject_m.len();
    let fail = |op: &str, msg: String| Err((op.to_string(), msg));
    let chk = |op: &str, bs: &Bitstr, m: &[u8]| -> Result<(), (String, String)> { check_obs(bs, m).map_err(|e| (op.to_string(), e)) };
    // the subject itself
    let s = mk();
    chk("observe", &s, subject_m)?;
    for k in 0..=len + 1 {
        // read
        let mut s2 = mk();
        let r = s2.read(k);
        n += 1;
        if k > len {
            if r.is_some() {
                return fail("read", format!("read {} of {} succeeded", k, len));
            }
            chk("read", &s2, subject_m)?;
        } else {
            let r = match r {
                Some(r) => r,
                None => return fail("read", format!("read {} of {} failed", k, len)),
            };
            chk("read", &r, &subject_m[..k])?;
            chk("read", &s2, &subject_m[k..])?;
        }
        // peek
        let r = s.peek(k);
        n += 1;
        match (r, k <= len) {
            (Some(r), true) => chk("peek", &r, &subject_m[..k])?,
            (None, false) => {}
            _ => return fail("peek", format!("peek {} of {}", k, len)),
        }
        // seek (absolute position)
        let r = s.seek(s.start() + k);
        n += 1;
        match (r, k <= len) {
            (Some(r), true) => chk("seek", &r, &subject_m[k..])?,
            (None, false) => {}
            _ => return fail("seek", format!("seek {} of {}", k, len)),
        }
        // split_at
        let r = s.split_at(k);
        n += 1;
        match (r, k <= len) {
            (Some((l, r)), true) => {
                chk("split_at", &l, &subject_m[..k])?;
                chk("split_at", &r, &subject_m[k..])?;
            }
            (None, false) => {}
            _ => return fail("split_at", format!("split_at {} of {}", k, len)),
        }
        for b in 0..=len + 1 {
            let r = s.substr(s.start() + k, s.start() + b);
            n += 1;
            match (r, k <= b && b <= len) {
                (Some(r), true) => chk("substr", &r, &subject_m[k..b])?,
                (None, false) => {}
                _ => return fail("substr", format!("substr {}..{} of {}", k, b, len)),
            }
        }
    }
    chk("operand-unchanged", &s, subject_m)?;
    for (t, tm) in tails {
        // append consumes the receiver
        let r = mk().append(t);
        n += 1;
        let mut m = subject_m.to_vec();
        m.extend(tm);
        chk("append", &r, &m)?;
        chk("append-tail-unchanged", t, tm)?;
        // append the other way round (subject as the tail operand)
        let r = t.clone().append(&s);
        n += 1;
        let mut m = tm.clone();
        m.extend(subject_m);
        chk("append-as-tail", &r, &m)?;
        chk("operand-unchanged", &s, subject_m)?;
        for k in [0, 1, len / 2, len.saturating_sub(1), len, len + 1] {
            let r = mk().insert(k, t);
            n += 1;
            if k > len {
                if r.is_some() {
                    return fail("insert", format!("insert at {} of {} succeeded", k, len));
                }
            } else {
                let mut m = subject_m[..k].to_vec();
                m.extend(tm);
                m.extend(&subject_m[k..]);
                match r {
                    Some(r) => chk("insert", &r, &m)?,
                    None => return fail("insert", format!("insert at {} of {} failed", k, len)),
                }
            }
            chk("insert-operand-unchanged", t, tm)?;
        }
        let exp = subject_m == tm.as_slice();
        if s.eq_with(t) != exp || t.eq_with(&s) != exp {
            return fail("eq_with", format!("{:?} vs {:?}", subject_m, tm));
        }
        n += 1;
    }
    // equality against siblings stored the same way (same recipe, alignment and junk): a copy with
    // one bit flipped is never equal, whatever the position of the bit
    for j in 0..len {
        let mut m2 = subject_m.to_vec();
        m2[j] ^= 1;
        let sib = mk_sibling(&m2);
        n += 1;
        if s.eq_with(&sib) || sib.eq_with(&s) || s == sib {
            return fail("eq_with", format!("equal to a sibling that differs in bit {} of {}", j, len));
        }
    }
    {
        let twin = mk_sibling(subject_m);
        n += 1;
        if !s.eq_with(&twin) || !twin.eq_with(&s) {
            return fail("eq_with", "not equal to a twin stored the same way".to_string());
        }
    }
    let r = mk().invert();
    n += 1;
    let inv: Vec<u8> = subject_m.iter().map(|b| 1 - b).collect();
    chk("invert", &r, &inv)?;
    let r = r.invert();
    chk("invert-twice", &r, subject_m)?;
    let r = mk().detach();
    n += 1;
    chk("detach", &r, subject_m)?;
    // a second handle must survive the consuming operations on the first
    let h1 = mk();
    let h2 = h1.clone();
    let _ = h1.invert();
    chk("invert-second-handle", &h2, subject_m)?;
    let h1 = h2.clone();
    let _ = h1.append(&tails[1].0);
    chk("append-second-handle", &h2, subject_m)?;
    n += 2;
    bump(counts, cls);
    Ok(n)
}

pub fn run(cfg: &Cfg) -> i32 {
    let rep = Reporter::new("C04");
    let mut ev = Evidence::new("C04", cfg);
    let quick = cfg.quick();
    // ---------------- (1) histories
    let ops = alphabet(quick);
    let depth = 5;
    let t0 = std::time::Instant::now();
    // tasks = all op prefixes of length 2
    let mut prefixes = vec![];
    for a in 0..ops.len() {
        for b in 0..ops.len() {
            prefixes.push((a, b));
        }
    }
    let seqs = AtomicU64::new(0);
    let applied = AtomicU64::new(0);
    let classes = Counters::new();
    // depth-1 and depth-2 nodes themselves are covered inside the tasks' replay (a failing
    // prefix is reported by the task that first extends it); run the first two levels once here
    {
        let mut st = DfsStats { seqs: 0, applied: 0, classes: BTreeMap::new() };
        let mut hist = vec![];
        dfs(&ops, &mut hist, 2, &mut st, &rep);
        applied.fetch_add(st.applied, Ordering::Relaxed);
        classes.merge(&st.classes);
    }
    par_run(cfg.threads, prefixes.len(), 8, |_t, pull| {
        let mut st = DfsStats { seqs: 0, applied: 0, classes: BTreeMap::new() };
        while let Some(r) = pull() {
            for pi in r {
                let (a, b) = prefixes[pi];
                let mut hist = vec![a, b];
                if replay(&ops, &hist).is_none() {
                    continue;
                }
                // (the prefix nodes were checked by the level-2 pass above)
                dfs(&ops, &mut hist, depth, &mut st, &rep);
            }
        }
        seqs.fetch_add(st.seqs, Ordering::Relaxed);
        applied.fetch_add(st.applied, Ordering::Relaxed);
        classes.merge(&st.classes);
    });
    let hist_wall = t0.elapsed().as_secs_f64();
    println!("C04 histories: depth {} alphabet {} complete sequences {} ops applied {} in {:.1}s", depth, ops.len(), seqs.load(Ordering::Relaxed), applied.load(Ordering::Relaxed), hist_wall);

    // ---------------- (2) single-operation sweep
    let t1 = std::time::Instant::now();
    let maxlen = if quick { 9 } else { 11 };
    let mut subjects: Vec<(usize, u32)> = vec![];
    for len in 0..=maxlen {
        for v in 0..(1u32 << len) {
            subjects.push((len, v));
        }
    }
    let single_ops_n = AtomicU64::new(0);
    let single_subjects = AtomicU64::new(0);
    let recipe_counts = Counters::new();
    par_run(cfg.threads, subjects.len(), 16, |_t, pull| {
        let mut local: BTreeMap<String, u64> = BTreeMap::new();
        let (mut nops, mut nsub) = (0u64, 0u64);
        // tails: empty, 1 bit, 7 bits, one aligned byte, one byte sliced at offset 3 (parent alive), 9 bits, borrowed
        let par = Bitstr::from(vec![0b1011_0110u8, 0b0101_1011]);
        let tails: Vec<(Bitstr, Vec<u8>)> = vec![
            (Bitstr::new(), vec![]),
            (aligned_copy(&[1]), vec![1]),
            (aligned_copy(&[0, 1, 1, 0, 1, 0, 1]), vec![0, 1, 1, 0, 1, 0, 1]),
            (Bitstr::from(vec![0xC3u8]), bits_of(&[0xC3], 8)),
            (par.substr(3, 11).unwrap(), bits_of(&[0b1011_0110, 0b0101_1011], 16)[3..11].to_vec()),
            (aligned_copy(&[1, 1, 0, 0, 1, 0, 1, 1, 0]), vec![1, 1, 0, 0, 1, 0, 1, 1, 0]),
            (Bitstr::from(&ST[..1]), bits_of(&ST, 8)),
        ];
        while let Some(r) = pull() {
            for si in r {
                let (len, v) = subjects[si];
                let m: Vec<u8> = (0..len).map(|i| ((v >> (len - 1 - i)) & 1) as u8).collect();
                for a in 0..8usize {
                    for recipe in 0..RECIPES.len() {
                        for junk in 0..2u8 {
                            let mut keep = vec![];
                            let probe = match guarded(|| make(recipe, &m, a, junk, &mut keep)) {
                                Ok(Some(p)) => p,
                                Ok(None) => continue,
                                Err(p) => {
                                    rep.report_w(&format!("single:make:{}:panic", RECIPES[recipe]), len as u64, || jo(vec![("bits", js(format!("{:?}", m))), ("align", ji(a)), ("panic", js(p))]));
                                    continue;
                                }
                            };
                            let cls = format!("{}|{}", RECIPES[recipe], own_class(&probe));
                            drop(probe);
                            let mk = || {
                                let mut k2 = vec![];
                                let b = make(recipe, &m, a, junk, &mut k2).unwrap();
                                // parents that must stay alive are leaked into the closure's lifetime
                                // by moving them into a thread-local holder
                                HOLD.with(|h| {
                                    let mut h = h.borrow_mut();
                                    h.clear();
                                    h.extend(k2);
                                });
                                b
                            };
                            let mk_sibling = |m2: &[u8]| {
                                let mut k2 = vec![];
                                let b = make(recipe, m2, a, junk, &mut k2).unwrap();
                                HOLD2.with(|h| {
                                    let mut h = h.borrow_mut();
                                    h.clear();
                                    h.extend(k2);
                                });
                                b
                            };
                            let r = guarded(|| single_ops(&m, &mk, &mk_sibling, &tails, &mut local, &cls));
                            nsub += 1;
                            let r = match r {
                                Err(p) => Err(("panic".to_string(), p)),
                                Ok(r) => r,
                            };
                            match r {
                                Ok(n) => nops += n,
                                Err((op, msg)) => {
                                    let what: String = msg.split(' ').take(2).collect::<Vec<_>>().join("-");
                                    let key = format!("single:{}:{}:{}", op, cls, what);
                                    rep.report_w(&key, (len * 100 + a) as u64, || {
                                        jo(vec![
                                            ("kind", js("bitstr-single-op")),
                                            ("bits", js(format!("{:?}", m))),
                                            ("start_alignment", ji(a)),
                                            ("recipe", js(RECIPES[recipe])),
                                            ("junk_bit", ji(junk)),
                                            ("operation", js(op.clone())),
                                            ("problem", js(msg.clone())),
                                        ])
                                    });
                                }
                            }
                        }
                    }
                }
            }
        }
        HOLD.with(|h| h.borrow_mut().clear());
        HOLD2.with(|h| h.borrow_mut().clear());
        single_ops_n.fetch_add(nops, Ordering::Relaxed);
        single_subjects.fetch_add(nsub, Ordering::Relaxed);
        recipe_counts.merge(&local);
    });
    println!("C04 single-op: {} subjects, {} operations in {:.1}s", single_subjects.load(Ordering::Relaxed), single_ops_n.load(Ordering::Relaxed), t1.elapsed().as_secs_f64());

    // vacuity guards: the ownership situations named by the property must have been reached
    let cj = classes.0.lock().unwrap().clone();
    for need in ["append:unique+slack", "append:shared", "append:borrowed", "invert:unique+slack", "append:unique"] {
        if !cj.keys().any(|k| k.starts_with(need)) {
            vacuous(&format!("vacuous: ownership class {} never reached in the history search", need));
        }
    }
    let rc = recipe_counts.0.lock().unwrap().clone();
    for r in RECIPES {
        if !rc.keys().any(|k| k.starts_with(r)) {
            vacuous(&format!("vacuous: recipe {} never produced a subject", r));
        }
    }
    ev.states = seqs.load(Ordering::Relaxed) + single_subjects.load(Ordering::Relaxed);
    ev.transitions = applied.load(Ordering::Relaxed) + single_ops_n.load(Ordering::Relaxed);
    ev.traces = ev.states;
    ev.evaluations = ev.states;
    ev.nontrivial = cj.iter().filter(|(k, _)| k.contains("slack") || k.contains("shared") || k.contains("borrowed") || k.contains("unaligned")).map(|(_, v)| *v).sum::<u64>();
    ev.rule = format!(
        "(1) every operation sequence of length {} over a {}-operation alphabet on a pool of {} bit-strings, each state rebuilt by replay, all observers checked on every live slot after every operation; (2) every bit-string of length 0..={} x 8 start alignments x {} ownership recipes x 2 junk patterns x every operation with every small argument. non-trivial = operation applied to a receiver that is shared, borrowed, unaligned or has slack in its buffer (distinct (history, op) pairs)",
        depth, ops.len(), POOL, maxlen, RECIPES.len()
    );
    ev.add("history_depth", ji(depth));
    ev.add("history_alphabet", J::A(ops.iter().map(|o| js(format!("{:?}", o))).collect()));
    ev.add("complete_sequences", ji(seqs.load(Ordering::Relaxed)));
    ev.add("ownership_class_x_operation_counts_histories", jmap(&cj));
    ev.add("recipe_x_ownership_class_counts_single_op", jmap(&rc));
    ev.sample(jo(vec![("history", J::A(vec![js("Fresh(0, 1)"), js("Split(0, 4)"), js("Invert(1)"), js("Append(0, 1)")])), ("checked", js("all observers of all live slots after every step"))]));
    ev.sample(jo(vec![("single_op_subject", js("bits [1,0,1] at start alignment 5, recipe slice-parent-dropped, junk 1")), ("operations", js("read/peek/seek/split_at k=0..len+1, substr all a,b, append/insert with 7 tails, invert, detach, eq, second-handle survival"))]));
    ev.assumptions = vec![
        "Vec<u8> of bits is the reference model; `slice()` may return None for values not byte-aligned in their buffer (storage-dependent by design) but must be correct when Some".into(),
        "hex export format follows the pinned unit test (a trailing group of <= 4 bits prints one digit)".into(),
    ];
    conclude(&ev, &rep)
}

thread_local! {
    static HOLD: std::cell::RefCell<Vec<Bitstr>> = std::cell::RefCell::new(Vec::new());
    static HOLD2: std::cell::RefCell<Vec<Bitstr>> = std::cell::RefCell::new(Vec::new());
}
