pub mod c01;
pub mod c04;
pub mod c09;
pub mod c16;
