// C10 — a source that fails to build has no effect on anything submitted afterwards.
// Explicit-state formulation: compute the set of interpreter states reachable by histories of
// good and run-time-failing sources (both submission styles), and check in EVERY such state
// that EVERY rejected source (prefix x failing token x trailing text) is a no-op: the state
// after the rejection is either identical (complete dump) or, if it differs in bookkeeping,
// agrees on the property's named state and behaves identically under every probe source in
// both submission styles. By induction every history with rejected sources deleted behaves
// the same. Second part: a line that fails at run time is never re-executed.
use crate::common::*;
use std::collections::{BTreeMap, HashMap};
use std::sync::atomic::{AtomicU64, Ordering};
use xeh::prelude::*;

#[derive(Clone, Copy, PartialEq, Debug)]
pub enum Style {
    Eval,
    CompileRun,
}
const STYLES: [Style; 2] = [Style::Eval, Style::CompileRun];

pub fn submit(xs: &mut Xstate, src: &str, st: Style) -> Xresult {
    match st {
        Style::Eval => xs.eval(src),
        Style::CompileRun => xs.compile(src).and_then(|_| xs.run()),
    }
}

const GOOD: [&str; 12] = [
    "7 8",
    "5 var v",
    ": h 1 ;",
    "v 1 + ! v",
    "true if 2 then",
    "#( 3 #)",
    "[ 1 2 ]",
    "depth",
    "6 print",
    "drop",
    "h",
    "3 0 do I loop",
];
// run-time failing sources; each prints the marker <9> before it fails and has work left after the
// failing word that would print <8> (which therefore must never appear)
const FAILING: [&str; 4] = [
    "\"<9>\" print 1 0 / \"<8>\" print",
    "\"<9>\" print drop drop drop drop drop drop drop drop drop \"<8>\" print",
    ": k \"<9>\" print 0 get \"<8>\" print ; [ ] k \"<8>\" print",
    "3 0 do I 1 == if \"<9>\" print 1 0 / \"<8>\" print then loop \"<8>\" print",
];
const PROBES: [&str; 19] = [
    ": ph h ; ph ph",
    ": other 77 88 ; : lq 6 ; lu",
    // a later line that is blank / only a comment is still a later line
    "",
    "  \n ",
    "\\ just a comment",
    "4",
    "depth",
    "9 var y y",
    ": p 1 ; p",
    "true if 2 then",
    "#( 3 #)",
    "f",
    "g",
    "w",
    "x",
    "[ 1 ]",
    "v",
    "h",
    "begin 1 break repeat",
];

/// every history starts from a booted interpreter that already has two user-defined immediate
/// words: `imm` (harmless) and `boom` (fails when it is executed, i.e. while the source using it is read)
// ... and a late-bound word `lq` (not defined yet) with a caller `lu`
// ... and an immediate word that calls that caller while a source is compiled
const PRELUDE: &str = ": imm immediate 1 drop ; : boom immediate 1 0 / ; late lq : lu lq ; : calllu immediate lu drop ;";
fn c10_base() -> Xstate {
    let mut xs = boot();
    let _ = xs.set_insn_limit(Some(100_000));
    if !matches!(guarded(|| xs.eval(PRELUDE)), Ok(Ok(()))) {
        machinery_error("C10: the prelude defining the immediate words does not evaluate");
    }
    xs
}

fn rejected_candidates(quick: bool) -> Vec<String> {
    let prefixes: Vec<&str> = if quick {
        vec!["", "1 2", "true if", "begin", "[ 1", ": f 1", "#( 1", "#( true if", ": f #(", "3 0 do", "5 var w", "case 1 of", "^{", "late q", "7 imm", ": lq 5 ; #( lu #)", "5 var lq #( lu #)", ": lq 111 ; calllu", ": h 2 ;", "6 var v", "immediate"]
    } else {
        vec![
            "", "1", "1 2", "true if", "true if 1 else", "begin", "begin true while", "[ 1", "{ 1", ": f 1", ": f local x", "#(", "#( 1", "#( true if", "#( #( 2", ": f #(", "3 0 do", "[ 1 ] foreach",
            "5 var w", "case 1 of", "case 1 of 2 endof", "enum E", "enum E : A", "^{", "late q", "1 let z", "#( 4 const c #)", ": f 1 ; : g f", "7 imm", ": lq 5 ; #( lu #)", ": lq 5 ; lu", "5 var lq #( lu #)", "5 const lq #( lu #)", ": lq 111 ; calllu", ": h 2 ;", "6 var v", ": h 2 ; 6 var v : g h ;", "immediate",
        ]
    };
    let failing: Vec<&str> = if quick {
        vec!["foo", "12x", "\"abc", "then", "]", ";", "#)", "loop", "", "local x", "5 const k", "#( drop #)", "#( 1 0 / #)", "until", "boom"]
    } else {
        vec![
            "foo", "12x", "0x", "\"abc", "\"a\\q\"", "|f g|", "\\( c", "then", "else", "]", "}", ";", "#)", "~)", "loop", "endcase", "endof", "repeat", "until", "while", "break", "", "local x", "5 const k",
            "#( drop #)", "#( 1 0 / #)", "#( foo #)", "! nosuch", "endenum", "var", ":", "^}", "let", "1 let &", "boom",
        ]
    };
    // failures inside text injected by `~)`: the unread tail of the outer source must go too
    let prefixes: Vec<&str> = prefixes.into_iter().chain(vec!["#( \"1 foo 2\" ~)", "#( \"7\" ~) 8 #( \"then\" ~)", ": f #( \"1 12x\" ~)"]).collect();
    let trailing: Vec<&str> = if quick { vec!["", "2 3", ": g ;", "\"<T>\" print"] } else { vec!["", "2 3", ": g ;", "#)", "\"<T>\" print", "then", "\n7 var x"] };
    let mut out = vec![];
    for p in &prefixes {
        for f in &failing {
            for t in &trailing {
                let s = [*p, *f, *t].iter().filter(|x| !x.is_empty()).cloned().collect::<Vec<_>>().join(" ");
                if !s.is_empty() {
                    out.push(s);
                }
            }
        }
    }
    out.sort();
    out.dedup();
    out
}

/// text inside a meta block (`#(`, and the blocks `enum` opens) is executed while the source is
/// being read: what it printed before the failure is not an effect of *unread* text
fn runs_while_read(src: &str) -> bool {
    src.contains("#(") || src.split_whitespace().any(|w| w == "enum")
}

// sections that may legitimately differ between "never submitted" and "submitted and rejected"
const BOOKKEEPING: [&str; 3] = ["sources_len", "meter", "running"];

fn named_state(d: &[(&'static str, String)]) -> Vec<(String, String)> {
    let count = |k: &str| dump_get(d, k).split(' ').next().unwrap_or("").to_string();
    vec![
        ("visible-stack".into(), dump_get(d, "data").to_string()),
        ("hidden-stack".into(), dump_get(d, "data_hidden").to_string()),
        ("mode".into(), dump_get(d, "mode").to_string()),
        ("nesting-depth".into(), count("nested")),
        ("pending-flows".into(), count("flow")),
        ("pending-inputs".into(), count("input")),
        ("heap-values".into(), dump_get(d, "heap").to_string()),
        ("printed".into(), dump_get(d, "stdout").to_string()),
    ]
}

struct Obs {
    kind: String,
    stack: Vec<String>,
    out: String,
}
fn observe(xs: &mut Xstate, src: &str, st: Style) -> Result<Obs, String> {
    let _ = xs.read_stdout();
    watch::note(AsRef::<str>::as_ref(&src));
    let r = guarded(|| submit(xs, src, st))?;
    Ok(Obs { kind: res_kind(&r), stack: stack_of(xs), out: xs.read_stdout().unwrap_or_default() })
}

fn a_out(o: &(String, Vec<String>, String)) -> String {
    o.2.clone()
}

fn rebuild(base: &Xstate, hist: &[(usize, Style)], sources: &[&str]) -> Xstate {
    let mut xs = base.clone();
    for (si, st) in hist {
        let _ = guarded(|| submit(&mut xs, sources[*si], *st));
    }
    xs
}

pub fn run(cfg: &Cfg) -> i32 {
    let rep = Reporter::new("C10");
    let mut ev = Evidence::new("C10", cfg);
    let quick = cfg.quick();
    let depth = if quick { 2 } else { 3 };
    let sources: Vec<&str> = GOOD.iter().chain(FAILING.iter()).cloned().collect();
    let base = c10_base();
    // ---------- reachable states (BFS over good / run-time failing sources, one style per history)
    let mut states: Vec<Vec<(usize, Style)>> = vec![];
    let mut seen: HashMap<u128, usize> = HashMap::new();
    let mut bfs_transitions = 0u64;
    for style in STYLES {
        let mut frontier: Vec<Vec<(usize, Style)>> = vec![vec![]];
        for _d in 0..=depth {
            let mut next = vec![];
            for h in frontier {
                let xs = rebuild(&base, &h, &sources);
                let key = hash128(&project(&xs.verif_dump(), &BOOKKEEPING));
                if seen.contains_key(&key) {
                    continue;
                }
                seen.insert(key, states.len());
                states.push(h.clone());
                if h.len() < depth {
                    for si in 0..sources.len() {
                        let mut h2 = h.clone();
                        h2.push((si, style));
                        bfs_transitions += 1;
                        next.push(h2);
                    }
                }
            }
            frontier = next;
        }
    }
    println!("C10: {} distinct reachable states (histories of good/run-time-failing sources to depth {})", states.len(), depth);

    // ---------- rejected sources: classified by construction + confirmed on the boot state
    let cands = rejected_candidates(quick);
    let rejected: Vec<String> = {
        let mut v = vec![];
        for c in &cands {
            let mut xs = base.clone();
            if let Ok(Err(_)) = guarded(|| xs.compile(c)) {
                v.push(c.clone());
            }
        }
        v
    };
    println!("C10: {} rejected sources out of {} candidates", rejected.len(), cands.len());
    if rejected.len() < cands.len() / 3 {
        vacuous("vacuous: most rejected-source candidates build successfully");
    }

    let n_apps = AtomicU64::new(0);
    let n_identical = AtomicU64::new(0);
    let n_probed = AtomicU64::new(0);
    let n_probe_runs = AtomicU64::new(0);
    let n_not_rejected_here = AtomicU64::new(0);
    let kinds = Counters::new();
    par_run(cfg.threads, states.len(), 1, |_t, pull| {
        let base = c10_base();
        let mut local: BTreeMap<String, u64> = BTreeMap::new();
        while let Some(r) = pull() {
            for si in r {
                let hist = &states[si];
                let s0 = rebuild(&base, hist, &sources);
                let d0 = s0.verif_dump();
                let hist_txt: Vec<J> = hist.iter().map(|(i, st)| js(format!("{:?}: {}", st, sources[*i]))).collect();
                for (rix, rsrc) in rejected.iter().enumerate() {
                    // thorough tier: the deepest states get every 5th rejected source, shallower ones all
                    if !quick && hist.len() >= 3 && rix % 5 != 0 {
                        continue;
                    }
                    for rstyle in STYLES {
                        let mut x = s0.clone();
                        let r = match guarded(|| match rstyle {
                            Style::Eval => x.eval(rsrc),
                            Style::CompileRun => x.compile(rsrc),
                        }) {
                            Ok(r) => r,
                            Err(p) => {
                                rep.report_w(&format!("panic:{:?}", rstyle), rsrc.len() as u64, || jo(vec![("history", J::A(hist_txt.clone())), ("rejected", js(rsrc.clone())), ("panic", js(p))]));
                                continue;
                            }
                        };
                        n_apps.fetch_add(1, Ordering::Relaxed);
                        let e = match r {
                            Ok(()) => {
                                // builds fine in this state (e.g. a name it uses is defined here): not a rejected source
                                n_not_rejected_here.fetch_add(1, Ordering::Relaxed);
                                continue;
                            }
                            Err(e) => e,
                        };
                        bump(&mut local, &err_kind(&e).split('(').next().unwrap_or("").to_string());
                        let d1 = x.verif_dump();
                        let bk: Vec<&str> = if runs_while_read(rsrc) { vec!["sources_len", "meter", "running", "stdout"] } else { BOOKKEEPING.to_vec() };
                        if project(&d1, &bk) == project(&d0, &bk) {
                            n_identical.fetch_add(1, Ordering::Relaxed);
                            continue;
                        }
                        let mut report = |key: String, what: String| {
                            let w = (hist.len() * 1000 + rsrc.len()) as u64;
                            rep.report_w(&key, w, || {
                                jo(vec![
                                    ("kind", js("rejected-source")),
                                    ("history", J::A(hist_txt.clone())),
                                    ("rejected_source", js(rsrc.clone())),
                                    ("rejected_via", js(format!("{:?}", rstyle))),
                                    ("error", js(format!("{:?}", e))),
                                    ("difference", js(what)),
                                ])
                            });
                        };
                        // (a) the state the property names
                        let (n0, n1) = (named_state(&d0), named_state(&d1));
                        let mut bad = false;
                        for ((k, a), (_, b)) in n0.iter().zip(n1.iter()) {
                            // text inside a meta block is executed while the source is being read: what
                            // it printed before the failure is not an effect of *unread* text
                            if k == "printed" && runs_while_read(rsrc) {
                                continue;
                            }
                            if a != b {
                                report(format!("state:{}:{:?}", k, rstyle), format!("{} was `{}` before the rejected source and is `{}` after it", k, truncate(a, 200), truncate(b, 200)));
                                bad = true;
                                break;
                            }
                        }
                        if bad {
                            continue;
                        }
                        // (b) behaviour under every probe, both styles
                        n_probed.fetch_add(1, Ordering::Relaxed);
                        'probes: for q in PROBES.iter().chain(GOOD.iter()) {
                            for qs in STYLES {
                                let mut a = s0.clone();
                                let mut b = x.clone();
                                n_probe_runs.fetch_add(2, Ordering::Relaxed);
                                let (oa, ob) = match (observe(&mut a, q, qs), observe(&mut b, q, qs)) {
                                    (Ok(a), Ok(b)) => (a, b),
                                    _ => {
                                        report(format!("panic:probe:{}", q), "panic while running a probe".into());
                                        break 'probes;
                                    }
                                };
                                if oa.kind != ob.kind || oa.stack != ob.stack || oa.out != ob.out {
                                    report(
                                        format!("probe:{}:{:?}", q, qs),
                                        format!(
                                            "probe `{}` ({:?}) gives {} stack={:?} out={:?} without the rejected source but {} stack={:?} out={:?} after it",
                                            q, qs, oa.kind, oa.stack, oa.out, ob.kind, ob.stack, ob.out
                                        ),
                                    );
                                    break 'probes;
                                }
                            }
                        }
                    }
                }
            }
        }
        kinds.merge(&local);
    });

    // ---------- run-time failures are never re-executed; the two styles agree
    let mut rt_histories = 0u64;
    let mut rt_steps = 0u64;
    {
        let nf = FAILING.len();
        let ng = GOOD.len();
        // histories: every sequence of length <= L over (failing ∪ good) that contains a failing source, then every probe
        let len = if quick { 2 } else { 3 };
        let mut hists: Vec<Vec<usize>> = vec![vec![]];
        let mut all: Vec<Vec<usize>> = vec![];
        for _ in 0..len {
            let mut nx = vec![];
            for h in &hists {
                for s in 0..(ng + nf) {
                    let mut h2 = h.clone();
                    h2.push(s);
                    nx.push(h2);
                }
            }
            all.extend(nx.iter().cloned());
            hists = nx;
        }
        let all: Vec<Vec<usize>> = all.into_iter().filter(|h| h.iter().any(|s| *s >= ng)).collect();
        let cnt = AtomicU64::new(0);
        let steps = AtomicU64::new(0);
        par_run(cfg.threads, all.len(), 4, |_t, pull| {
            let base = c10_base();
            while let Some(r) = pull() {
                for hi in r {
                    let h = &all[hi];
                    let expected_markers = h.iter().filter(|s| **s >= ng).count();
                    for (qi, q) in PROBES.iter().enumerate() {
                        // for the first probes, also with a file that does not exist submitted before the probe
                        for missing_file in [false, true] {
                        if missing_file && qi >= 4 {
                            continue;
                        }
                        let mut per_style: Vec<(Vec<String>, String, Vec<String>)> = vec![];
                        for st in STYLES {
                            let mut xs = base.clone();
                            let mut kinds = vec![];
                            let mut out = String::new();
                            let mut panicked = false;
                            for s in h.iter().map(|s| sources[*s]).chain(std::iter::once("\u{2}missing-file")).chain(std::iter::once(*q)).chain(std::iter::once("1 2 +")) {
                                if s == "\u{2}missing-file" {
                                    if missing_file {
                                        let _ = guarded(|| xs.compile_file("/nonexistent/xmc-c10-no-such-file.xeh".into()));
                                    }
                                    continue;
                                }
                                steps.fetch_add(1, Ordering::Relaxed);
                                match observe(&mut xs, s, st) {
                                    Ok(o) => {
                                        kinds.push(o.kind);
                                        out.push_str(&o.out);
                                    }
                                    Err(_) => {
                                        panicked = true;
                                        break;
                                    }
                                }
                            }
                            let txt = || J::A(h.iter().map(|s| js(sources[*s])).chain(if missing_file { vec![js("(host) compile_file of a path that does not exist")] } else { vec![] }).chain(std::iter::once(js(*q))).collect());
                            if panicked {
                                rep.report_w(&format!("panic:runtime-history:{:?}", st), h.len() as u64, || jo(vec![("history", txt())]));
                                continue;
                            }
                            let markers = out.matches("<9>").count();
                            if markers != expected_markers || out.contains("<8>") {
                                rep.report_w(&format!("reexecution-after-runtime-error:{:?}", st), (h.len() * 100 + q.len()) as u64, || {
                                    jo(vec![
                                        ("kind", js("runtime-failure-history")),
                                        ("style", js(format!("{:?}", st))),
                                        ("history", txt()),
                                        ("difference", js(format!("the failing sources' marker <9> was printed {} times, expected {} (and <8>, which follows the failing word, never); output {:?}; results {:?}", markers, expected_markers, out, kinds))),
                                    ])
                                });
                            }
                            per_style.push((kinds, out, stack_of(&xs)));
                        }
                        if per_style.len() == 2 && per_style[0] != per_style[1] {
                            rep.report_w("styles-disagree-after-runtime-error", (h.len() * 100 + q.len()) as u64, || {
                                jo(vec![
                                    ("kind", js("runtime-failure-history")),
                                    ("history", J::A(h.iter().map(|s| js(sources[*s])).chain(std::iter::once(js(*q))).collect())),
                                    ("eval", js(format!("{:?}", per_style[0]))),
                                    ("compile_run", js(format!("{:?}", per_style[1]))),
                                ])
                            });
                        }
                        cnt.fetch_add(1, Ordering::Relaxed);
                        }
                    }
                }
            }
        });
        rt_histories = cnt.load(Ordering::Relaxed);
        rt_steps = steps.load(Ordering::Relaxed);
    }

    // ---------- the rejected source arrives as a FILE (eval_file / compile_file): same demand
    let mut file_cases = 0u64;
    {
        let shm = std::path::Path::new("/dev/shm");
        let root = if shm.is_dir() { shm.to_path_buf() } else { std::env::temp_dir() };
        let dir = root.join(format!("xmc-c10-{}", std::process::id()));
        let _ = std::fs::create_dir_all(&dir);
        let cnt = AtomicU64::new(0);
        par_run(cfg.threads, rejected.len(), 8, |t, pull| {
            let base = c10_base();
            let starts: Vec<(&str, Xstate)> = ["", "7 8", "5 var v : h 1 ;"]
                .iter()
                .map(|h| {
                    let mut xs = base.clone();
                    if !h.is_empty() {
                        let _ = guarded(|| xs.eval(h));
                    }
                    (*h, xs)
                })
                .collect();
            let path = dir.join(format!("r{}.xeh", t));
            let path_s: Xstr = path.to_string_lossy().to_string().into();
            while let Some(rg) = pull() {
                for ri in rg {
                    let r = &rejected[ri];
                    if std::fs::write(&path, r).is_err() {
                        machinery_error("C10: cannot write the scratch source file");
                    }
                    for (h, s0) in &starts {
                        for via in ["eval_file", "compile_file"] {
                            cnt.fetch_add(1, Ordering::Relaxed);
                            let mut xs = s0.clone();
                            watch::note(r.as_str());
                            let rr = guarded(|| if via == "eval_file" { xs.eval_file(path_s.clone()) } else { xs.compile_file(path_s.clone()) });
                            if !matches!(rr, Ok(Err(_))) {
                                continue;
                            }
                            let _ = xs.read_stdout();
                            for q in ["5", "depth", "v", "h"] {
                                let (mut a, mut b) = (s0.clone(), xs.clone());
                                let (ra, rb) = (guarded(|| a.eval(q)), guarded(|| b.eval(q)));
                                let oa = (format!("{:?}", ra.map(|r| res_kind(&r))), stack_of(&a), a.read_stdout().unwrap_or_default());
                                let ob = (format!("{:?}", rb.map(|r| res_kind(&r))), stack_of(&b), if runs_while_read(r) { a_out(&oa) } else { b.read_stdout().unwrap_or_default() });
                                if oa != ob {
                                    rep.report_w(&format!("rejected-file:{}", via), (h.len() * 1000 + r.len()) as u64, || {
                                        jo(vec![
                                            ("kind", js("rejected-source-file")),
                                            ("history", js(*h)),
                                            ("file_content", js(r.clone())),
                                            ("submitted_with", js(via)),
                                            ("probe", js(q)),
                                            ("without_the_file", js(format!("{:?}", oa))),
                                            ("after_the_rejected_file", js(format!("{:?}", ob))),
                                        ])
                                    });
                                    break;
                                }
                            }
                        }
                    }
                }
            }
            let _ = std::fs::remove_file(&path);
        });
        let _ = std::fs::remove_dir_all(&dir);
        file_cases = cnt.load(Ordering::Relaxed);
    }
    ev.add("rejected_file_cases", ji(file_cases));

    // ---------- a program suspended in the middle (compiled, then single-stepped into a call, a loop or an open
    // builder) continues exactly as it would have after a source was rejected meanwhile
    let mut suspended_cases = 0u64;
    {
        let progs = [": s1 1 2 ; s1 s1 3", "2 0 do I loop 9", "[ 1 2 3 ] 4", "[ 5 6 ] foreach I loop 7", ": s2 2 0 do [ I ] loop ; s2"];
        let rej: Vec<&String> = rejected.iter().step_by(if quick { 7 } else { 2 }).collect();
        let cnt = AtomicU64::new(0);
        par_run(cfg.threads, progs.len(), 1, |_t, pull| {
            let base = c10_base();
            while let Some(rg) = pull() {
                for pi in rg {
                    let prog = progs[pi];
                    for k in 0..40usize {
                        // the reference: k steps, then run to the end
                        let mut a = base.clone();
                        if !matches!(guarded(|| a.compile(prog)), Ok(Ok(()))) {
                            break;
                        }
                        let mut stepped = 0;
                        while stepped < k && a.is_running() {
                            if !matches!(guarded(|| a.next()), Ok(Ok(()))) {
                                break;
                            }
                            stepped += 1;
                        }
                        if stepped < k {
                            break; // the program is shorter than k steps
                        }
                        let suspended = a.clone();
                        let ra = guarded(|| a.run());
                        let want = (format!("{:?}", ra.map(|r| res_kind(&r))), stack_of(&a), a.read_stdout().unwrap_or_default());
                        for r in &rej {
                            for rstyle in STYLES {
                                cnt.fetch_add(1, Ordering::Relaxed);
                                let mut b = suspended.clone();
                                watch::note(r.as_str());
                                let rr = guarded(|| match rstyle {
                                    Style::Eval => b.eval(r),
                                    Style::CompileRun => b.compile(r),
                                });
                                if !matches!(rr, Ok(Err(_))) {
                                    continue; // not rejected in this state (or it panicked: C08's subject)
                                }
                                let _ = b.read_stdout();
                                let rb = guarded(|| b.run());
                                let got = (format!("{:?}", rb.map(|r| res_kind(&r))), stack_of(&b), b.read_stdout().unwrap_or_default());
                                if got != want {
                                    rep.report_w("suspended-program:rejected-source-has-effect", (k * 1000 + r.len()) as u64, || {
                                        jo(vec![
                                            ("kind", js("suspended-program")),
                                            ("calls", J::A(vec![js(format!("compile {}", prog)), js(format!("next() x {}", k)), js(format!("{:?} {}   (rejected)", rstyle, r)), js("run()")])),
                                            ("with_the_rejected_source", js(format!("{:?}", got))),
                                            ("without_it", js(format!("{:?}", want))),
                                        ])
                                    });
                                }
                            }
                        }
                    }
                }
            }
        });
        suspended_cases = cnt.load(Ordering::Relaxed);
    }
    ev.add("suspended_program_cases", ji(suspended_cases));

    // ---------- code that was compiled but not run yet survives a rejected source
    let mut pending_cases = 0u64;
    {
        let rej: Vec<&String> = rejected.iter().step_by(if quick { 5 } else { 1 }).collect();
        let cnt = AtomicU64::new(0);
        par_run(cfg.threads, rej.len(), 4, |_t, pull| {
            let base = c10_base();
            while let Some(rg) = pull() {
                for ri in rg {
                    let r = rej[ri];
                    for g1 in GOOD.iter().chain(FAILING.iter()) {
                        // (g2 = None: the run follows the rejected compile directly)
                        for g2 in GOOD.iter().take(if quick { 4 } else { GOOD.len() }).map(|g| Some(*g)).chain(std::iter::once(None)) {
                            cnt.fetch_add(1, Ordering::Relaxed);
                            let run = |with: bool| -> Result<(Vec<String>, Vec<String>, String), String> {
                                let mut xs = base.clone();
                                let mut kinds = vec![];
                                kinds.push(res_kind(&guarded(|| xs.compile(g1))?));
                                if with {
                                    let k = guarded(|| xs.compile(r))?;
                                    if k.is_ok() {
                                        return Err("not-rejected".into());
                                    }
                                }
                                if let Some(g2) = g2 {
                                    kinds.push(res_kind(&guarded(|| xs.compile(g2))?));
                                }
                                kinds.push(res_kind(&guarded(|| xs.run())?));
                                // ... and the line after that starts afresh, whatever became of the run
                                kinds.push(res_kind(&guarded(|| xs.compile("70 80"))?));
                                kinds.push(res_kind(&guarded(|| xs.run())?));
                                Ok((kinds, stack_of(&xs), xs.read_stdout().unwrap_or_default()))
                            };
                            match (run(true), run(false)) {
                                (Ok(mut a), Ok(b)) => {
                                    if runs_while_read(r) {
                                        // text inside a meta block runs while it is read: its output is legitimate
                                        a.2 = b.2.clone();
                                    }
                                    if a != b {
                                        let g2 = g2.unwrap_or("(nothing)");
                                        rep.report_w("pending-code:rejected-source-has-effect", (g1.len() + r.len() + g2.len()) as u64, || {
                                            jo(vec![
                                                ("kind", js("compile-without-run")),
                                                ("calls", J::A(vec![js(format!("compile {}", g1)), js(format!("compile {}   (rejected)", r)), js(format!("compile {}", g2)), js("run"), js("compile 70 80"), js("run")])),
                                                ("with_the_rejected_source", js(format!("{:?}", a))),
                                                ("without_it", js(format!("{:?}", b))),
                                            ])
                                        });
                                    }
                                }
                                (Err(e), _) if e == "not-rejected" => {}
                                (a, b) => rep.report_w("panic:pending-code", r.len() as u64, || jo(vec![("rejected", js(r.clone())), ("errors", js(format!("{:?} {:?}", a.err(), b.err())))])),
                            }
                        }
                    }
                }
            }
        });
        pending_cases = cnt.load(Ordering::Relaxed);
    }
    ev.add("compile_without_run_cases", ji(pending_cases));

    // ---------- process-level leg: the same claim through the real REPL (line = compile then run)
    let mut repl_runs = 0u64;
    {
        use crate::repl_leg::*;
        let pre: Vec<&str> = if quick { vec!["", "5 var v"] } else { vec!["", "5 var v", "7 8", ": h 1 ;"] };
        let rej: Vec<&String> = rejected.iter().step_by(if quick { 37 } else { 11 }).collect();
        let post: Vec<&str> = if quick { vec!["", "v 1 + ! v"] } else { vec!["", "v 1 + ! v", "h"] };
        let probes: Vec<&str> = if quick { vec!["depth", ": p 1 ; p", "f g w"] } else { vec!["depth", "9 var y y", ": p 1 ; p", "true if 2 then", "f g w"] };
        let mut jobs: Vec<(Vec<String>, Vec<String>, String)> = vec![];
        for a in &pre {
            for r in &rej {
                if r.contains('\n') {
                    continue; // one REPL line per source
                }
                for b in &post {
                    for q in &probes {
                        let mk = |with: bool| -> Vec<String> {
                            let mut v: Vec<String> = vec![];
                            if !a.is_empty() {
                                v.push(a.to_string());
                            }
                            if with {
                                v.push(r.to_string());
                            }
                            if !b.is_empty() {
                                v.push(b.to_string());
                            }
                            v.push(probe_line(""));
                            v.push(q.to_string());
                            v
                        };
                        jobs.push((mk(true), mk(false), r.to_string()));
                    }
                }
            }
        }
        // run-time failures: the marker of the failing line appears once
        let cnt = AtomicU64::new(0);
        par_run(cfg.threads, jobs.len(), 4, |_t, pull| {
            while let Some(rg) = pull() {
                for j in rg {
                    let (with, without, r) = &jobs[j];
                    cnt.fetch_add(2, Ordering::Relaxed);
                    match (run_repl(with), run_repl(without)) {
                        (Ok(a), Ok(b)) => {
                            if a != b {
                                rep.report_w("repl:rejected-line-has-effect", (with.len() * 100 + r.len()) as u64, || {
                                    jo(vec![
                                        ("kind", js("repl-lines")),
                                        ("lines", J::A(with.iter().map(|l| js(l.clone())).collect())),
                                        ("same_without", js(r.clone())),
                                        ("output_after_marker_with", js(truncate(&a, 300))),
                                        ("output_after_marker_without", js(truncate(&b, 300))),
                                    ])
                                });
                            }
                        }
                        (Err(e), Ok(_)) => {
                            // the run with the rejected line hangs / dies / never reaches the probe
                            rep.report_w("repl:rejected-line-has-effect", (with.len() * 100 + r.len()) as u64, || {
                                jo(vec![("kind", js("repl-lines")), ("lines", J::A(with.iter().map(|l| js(l.clone())).collect())), ("same_without", js(r.clone())), ("with_the_rejected_line", js(e.clone()))])
                            });
                        }
                        (a, b) => {
                            cleanup();
                            machinery_error(&format!("REPL leg: {:?} {:?}", a.err(), b.err()))
                        }
                    }
                }
            }
        });
        for f in FAILING.iter() {
            for (q, blank) in [("depth", None), ("4", None), ("4", Some("")), ("depth", Some("   "))] {
                let mut lines = vec![f.to_string()];
                if let Some(b) = blank {
                    lines.push(b.to_string());
                }
                lines.push("1".to_string());
                lines.push(q.to_string());
                // count the failing line's marker in the whole transcript: needs the full stdout, so put the marker probe last and count <9> via a second run without MARK cut
                let all = run_repl_full(&lines);
                cnt.fetch_add(1, Ordering::Relaxed);
                match all {
                    Ok(t) => {
                        if t.matches("<9>").count() != 1 || t.contains("<8>") {
                            rep.report_w("repl:reexecution-after-runtime-error", lines.len() as u64, || jo(vec![("kind", js("repl-lines")), ("lines", J::A(lines.iter().map(|l| js(l.clone())).collect())), ("transcript", js(truncate(&t, 400)))]));
                        }
                    }
                    Err(e) => machinery_error(&format!("REPL leg: {}", e)),
                }
            }
        }
        repl_runs = cnt.load(Ordering::Relaxed);
        cleanup();
    }
    ev.add("repl_process_runs", ji(repl_runs));

    ev.states = states.len() as u64;
    ev.transitions = bfs_transitions + n_apps.load(Ordering::Relaxed) + n_probe_runs.load(Ordering::Relaxed) + rt_steps;
    ev.traces = n_apps.load(Ordering::Relaxed) + rt_histories;
    ev.evaluations = ev.transitions;
    ev.nontrivial = n_apps.load(Ordering::Relaxed) - n_not_rejected_here.load(Ordering::Relaxed);
    ev.rule = format!(
        "states = distinct interpreter states (complete dump minus source counter and meter) reached by histories of {} good and {} run-time-failing sources to depth {} in each submission style; in every state every one of {} rejected sources (prefix x failing token x trailing text, confirmed rejected) is submitted by eval and by compile and must leave an identical dump, or else the same named state and the same behaviour under {} probe sources in both styles; non-trivial = (state, rejected source, style) triples where the source was indeed rejected; plus every history of length <= {} containing a run-time failure followed by every probe: the failure marker is printed exactly once per failing source and both styles agree",
        GOOD.len(), FAILING.len(), depth, rejected.len(), PROBES.len() + GOOD.len(), if quick { 2 } else { 3 }
    );
    ev.add("reachable_states", ji(states.len()));
    ev.add("rejected_sources", ji(rejected.len()));
    ev.add("rejected_source_applications", ji(n_apps.load(Ordering::Relaxed)));
    ev.add("state_identical_after_rejection", ji(n_identical.load(Ordering::Relaxed)));
    ev.add("state_differs_in_bookkeeping_then_probed", ji(n_probed.load(Ordering::Relaxed)));
    ev.add("probe_runs", ji(n_probe_runs.load(Ordering::Relaxed)));
    ev.add("built_fine_in_that_state_skipped", ji(n_not_rejected_here.load(Ordering::Relaxed)));
    ev.add("rejection_error_kinds", kinds.json());
    ev.add("runtime_failure_histories_x_probes", ji(rt_histories));
    ev.sample(jo(vec![("state_history", J::A(vec![js("Eval: 5 var v"), js("Eval: \"<9>\" print 1 0 /")])), ("rejected_source", js(rejected[rejected.len() / 2].clone())), ("check", js("dump identical after rejection, else named state + all probes"))]));
    ev.sample(jo(vec![("rejected_source", js(rejected[rejected.len() / 3].clone()))]));
    ev.sample(jo(vec![("runtime_failure_history", J::A(vec![js(FAILING[0]), js(GOOD[0]), js(PROBES[1])])), ("check", js("marker <9> printed exactly once; eval and compile+run agree"))]));
    ev.assumptions = vec![
        "a complete-dump match (all sections except the source counter and the instruction meter) implies identical future behaviour".into(),
        "constants overwritten in place by `const` inside a rejected source are outside the alphabet".into(),
        "the data stack left behind by a run-time failure is unspecified; only re-execution and agreement between the two submission styles are checked".into(),
    ];
    conclude(&ev, &rep)
}
