// C02 — reverse stepping exactly undoes forward stepping, and replay reproduces it.
// For every program of the corpus: compile with recording on, step forward recording the
// projected dump S_0..S_n, then explicit-state search from S_n over {rnext, next} with the
// projected dump (reverse log included) as the key; every reached state must equal the
// S_i of the position the integer model says it is at. Because the key contains the log,
// equal keys have equal futures: when the search closes (n+1 states), ALL rewind/replay
// interleavings of any length are covered.
use crate::cf::*;
use crate::common::*;
use crate::corpus;
use std::collections::{BTreeMap, BTreeSet, HashMap, VecDeque};
use std::sync::atomic::{AtomicU64, Ordering};
use std::sync::Mutex;
use xeh::prelude::*;

const MAX_STEPS: usize = 80;
// the property lists ip, data stack, frames+locals, loop indices, builder marks, variables;
// output already printed is not un-printed; the instruction meter is not listed; resolving a
// late-bound word rewrites its instruction in place (an idempotent cache) so `code` is excluded
const DROP: [&str; 4] = ["meter", "stdout", "code", "running"];

pub struct Hist {
    pub n: usize,
    pub ended_by_error: bool,
}

struct Stats {
    programs: u64,
    skipped_compile: u64,
    states: u64,
    transitions: u64,
    trivial: u64,
    opcodes: BTreeSet<String>,
    rsteps: BTreeSet<String>,
    lens: BTreeMap<String, u64>,
}

fn opcode_at_ip_of(xs: &Xstate) -> Option<String> {
    let op = format!("{:?}", xs.bytecode().get(xs.ip())?);
    Some(op.chars().take_while(|c| c.is_alphanumeric()).collect())
}

#[allow(dead_code)]
fn opcode_at_ip(d: &[(&'static str, String)]) -> Option<String> {
    let ip = dump_get(d, "ip");
    let code = dump_get(d, "code");
    let pat = format!("{}:", ip);
    let mut idx = 0;
    // entries are "i:Opcode(..) " in order; find the one that starts with "<ip>:" at an entry start
    for part in code.split(' ') {
        if part.starts_with(&pat) {
            let name: String = part[pat.len()..].chars().take_while(|c| c.is_alphanumeric()).collect();
            return Some(name);
        }
        idx += part.len() + 1;
    }
    let _ = idx;
    None
}

fn rstep_names(log: &str, out: &mut BTreeSet<String>) {
    for part in log.split(' ') {
        let name: String = part.chars().take_while(|c| c.is_alphabetic()).collect();
        if !name.is_empty() && name.chars().next().unwrap().is_uppercase() {
            out.insert(name);
        }
    }
}

/// Non-initial start states: histories evaluated (recording off) before the program under test.
/// A source that fails at run time leaves what it had on the stacks (frames, loop ranges,
/// data); the next source then runs in a context whose floors sit above that debris.
pub const PREFIXES: [&[&str]; 6] = [
    &[],
    &[": pf drop ; pf"],
    &[": pf drop ; pf", "drop"],
    &["9 3 0 do drop drop loop"],
    &["9 3 0 do drop drop loop", ": pg 1 local z drop drop ; pg", "drop"],
    &["1 2 [ 3", "7 var pv [ 1 2 ] foreach drop drop loop"],
];

pub fn make_bases() -> Vec<(String, Xstate)> {
    PREFIXES
        .iter()
        .map(|h| {
            let mut xs = boot();
            let _ = xs.set_insn_limit(Some(10_000));
            for s in h.iter() {
                let _ = guarded(|| xs.eval(s));
            }
            (h.iter().map(|s| format!("`{}`", s)).collect::<Vec<_>>().join(" then "), xs)
        })
        .collect()
}

/// returns Err((key, detail)) on a violation
fn check_program(base: &Xstate, src: &str, with_input: bool, stack_limit: Option<usize>, st: &mut Stats) -> Result<(), (String, String, String)> {
    watch::note(src);
    let mut xs = base.clone();
    if with_input {
        xs.set_binary_input(Xbitstr::from(corpus::BIN_INPUT.to_vec())).unwrap();
    }
    let _ = xs.intercept_output(true);
    xs.set_recording_enabled(true);
    let _ = xs.set_insn_limit(Some(10_000));
    if let Some(l) = stack_limit {
        // free places above what the start state already holds
        let d = xs.data_depth();
        let _ = xs.set_stack_limit(Some(d + l));
    }
    match guarded(|| xs.compile(src)) {
        Ok(Ok(())) => {}
        Ok(Err(_)) => {
            st.skipped_compile += 1;
            return Ok(());
        }
        Err(p) => return Err(("panic:compile".into(), String::new(), p)),
    }
    st.programs += 1;
    // ---- forward pass
    let mut trace: Vec<String> = vec![];
    let d0 = xs.verif_dump_light();
    trace.push(project(&d0, &DROP));
    let log_empty_at_start = dump_get(&d0, "reverse_log").starts_with("0 ");
    if !log_empty_at_start {
        // recording was switched on right before the compile: what the compiler executed (meta blocks)
        // is not part of the program's history and must not stay in the log
        return Err(("compile-leaves-reverse-log-entries".into(), String::new(), format!("after compile the reverse log holds: {}", truncate(dump_get(&d0, "reverse_log"), 300))));
    }
    let mut ended_by_error = false;
    let mut after_failure: Option<Xstate> = None;
    let mut last_dump = d0;
    while xs.is_running() && trace.len() <= MAX_STEPS {
        if let Some(op) = opcode_at_ip_of(&xs) {
            if !st.opcodes.contains(&op) {
                st.opcodes.insert(op);
            }
        }
        let before = xs.clone();
        match guarded(|| xs.next()) {
            Ok(Ok(())) => {
                last_dump = xs.verif_dump_light();
                trace.push(project(&last_dump, &DROP));
            }
            Ok(Err(_)) => {
                // a failing step is not part of the stepped history
                after_failure = Some(std::mem::replace(&mut xs, before));
                ended_by_error = true;
                break;
            }
            Err(p) => return Err(("panic:next".into(), String::new(), p)),
        }
    }
    rstep_names(dump_get(&last_dump, "reverse_log"), &mut st.rsteps);
    let n = trace.len() - 1;
    bump(&mut st.lens, &format!("{}", (n / 10) * 10));
    if n == 0 {
        st.trivial += 1;
    }
    let stopped_early = xs.is_running() && !ended_by_error;
    // ---- explicit-state search from S_n
    let mut seen: HashMap<u128, usize> = HashMap::new();
    let mut queue: VecDeque<(Xstate, usize, String)> = VecDeque::new();
    seen.insert(hash128(&trace[n]), n);
    let replay_to_end = xs.clone();
    queue.push_back((xs, n, String::new()));
    while let Some((xs, pos, path)) = queue.pop_front() {
        for back in [true, false] {
            if !back && pos == n && (ended_by_error || stopped_early) {
                continue; // the step after S_n is outside the recorded history
            }
            if back && pos == 0 && !log_empty_at_start {
                // meta blocks run at compile time leave their own entries in the log; stepping back
                // beyond the start of the program is outside "every k up to the start"
                continue;
            }
            let mut y = xs.clone();
            let r = guarded(|| if back { y.rnext() } else { y.next() });
            st.transitions += 1;
            let mv = if back { "B" } else { "F" };
            let path2 = format!("{}{}", path, mv);
            let r = match r {
                Err(p) => return Err((format!("panic:{}", if back { "rnext" } else { "next" }), path2, p)),
                Ok(r) => r,
            };
            let target = if back { pos.saturating_sub(1) } else { (pos + 1).min(n) };
            if let Err(e) = r {
                return Err((
                    format!("step-failed:{}", if back { "rnext" } else { "next-after-rewind" }),
                    path2,
                    format!("at position {} of {}: {:?}", pos, n, e),
                ));
            }
            let d = y.verif_dump_light();
            let pd = project(&d, &DROP);
            if pd != trace[target] {
                // name the first differing section
                let mut sect = String::from("?");
                for (a, b) in pd.lines().zip(trace[target].lines()) {
                    if a != b {
                        sect = a.split('=').next().unwrap_or("?").to_string();
                        let detail = format!("after {} from position {} (expected state of position {}): got `{}` expected `{}`", mv, pos, target, truncate(a, 300), truncate(b, 300));
                        return Err((format!("state-differs:{}:{}", if back { "rnext" } else { "replay" }, sect), path2, detail));
                    }
                }
                return Err((format!("state-differs:{}:{}", if back { "rnext" } else { "replay" }, sect), path2, "dump length differs".into()));
            }
            let h = hash128(&pd);
            if !seen.contains_key(&h) {
                seen.insert(h, target);
                queue.push_back((y, target, path2));
            }
        }
    }
    // a source that is rejected while it is compiled leaves the machine and the recorded history as they were
    // (checked at the end of the forward run and in the middle of the history)
    for (label, steps_back) in [("end", 0usize), ("middle", n / 2)] {
        let mut y = replay_to_end.clone();
        let mut ok = true;
        for _ in 0..steps_back {
            if !matches!(guarded(|| y.rnext()), Ok(Ok(()))) {
                ok = false;
                break;
            }
        }
        if !ok || (steps_back == 0 && label == "middle") {
            continue;
        }
        // the list of source texts is bookkeeping for error messages (a rejected text stays listed)
        const DROP_R: [&str; 5] = ["meter", "stdout", "code", "running", "sources_len"];
        let before = project(&y.verif_dump_light(), &DROP_R);
        st.transitions += 1;
        match guarded(|| y.compile("1 no-such-word-c02 2")) {
            Ok(Err(_)) => {
                let after = project(&y.verif_dump_light(), &DROP_R);
                if after != before {
                    let mut sect = String::from("?");
                    let mut detail = String::from("dump length differs");
                    for (a, b) in after.lines().zip(before.lines()) {
                        if a != b {
                            sect = a.split('=').next().unwrap_or("?").to_string();
                            detail = format!("after the rejected compile: `{}`, before: `{}`", truncate(a, 300), truncate(b, 300));
                            break;
                        }
                    }
                    return Err((format!("rejected-source-changes-history:{}", sect), format!("{}{}", "B".repeat(steps_back), "R"), format!("`compile(\"1 no-such-word-c02 2\")` at the {} of the history ({} steps back): {}", label, steps_back, detail)));
                }
                // ... and stepping back still works from there
                if n - steps_back > 0 {
                    let r = guarded(|| y.rnext());
                    let target = n - steps_back - 1;
                    let strip = |t: &str| t.lines().filter(|l| !l.starts_with("sources_len=")).collect::<Vec<_>>().join("\n");
                    let pd = strip(&project(&y.verif_dump_light(), &DROP));
                    if !matches!(r, Ok(Ok(()))) || pd != strip(&trace[target]) {
                        return Err(("rejected-source-changes-history:rnext-after".into(), format!("{}{}", "B".repeat(steps_back), "RB"), format!("rnext after a rejected compile ({} steps back) gives {:?} and a state that is not the one of position {}", steps_back, r.map(|r| r.map_err(|e| err_kind(&e))), target)));
                    }
                }
            }
            Ok(Ok(())) => {}
            Err(p) => return Err(("panic:compile-rejected".into(), String::new(), p)),
        }
    }
    // switching recording on while it is on changes nothing (in particular it keeps the history)
    if n >= 1 {
        let mut y = replay_to_end.clone();
        let before = project(&y.verif_dump_light(), &DROP);
        y.set_recording_enabled(true);
        let after = project(&y.verif_dump_light(), &DROP);
        let r = guarded(|| y.rnext());
        let pd = project(&y.verif_dump_light(), &DROP);
        st.transitions += 2;
        if after != before || !matches!(r, Ok(Ok(()))) || pd != trace[n - 1] {
            return Err(("recording-enabled-again-changes-history".into(), "EB".into(), format!("set_recording_enabled(true) at the end of a recorded history of {} steps, then rnext: {:?}; the state is{} the one of position {}", n, r.map(|r| r.map_err(|e| err_kind(&e))), if pd == trace[n - 1] { "" } else { " not" }, n - 1)));
        }
    }
    // the step that failed: whatever it did before failing is undone by stepping back; the rewind passes
    // through recorded states only, in order, and reaches the start
    if let Some(mut y) = after_failure {
        let mut pos = n + 1;
        let mut path = String::from("(failed step)");
        loop {
            let r = guarded(|| y.rnext());
            st.transitions += 1;
            path.push('B');
            match r {
                Err(p) => return Err(("panic:rnext-after-failed-step".into(), path, p)),
                Ok(Err(_)) => break,
                Ok(Ok(())) => {}
            }
            let pd = project(&y.verif_dump_light(), &DROP);
            if path.ends_with(")B") && n >= 1 {
                // right after the first step back: a source rejected by the compiler leaves the suspended
                // program where it is (the failure was stepped back over: nothing is to be abandoned)
                let mut z = y.clone();
                const DROP_R: [&str; 5] = ["meter", "stdout", "code", "running", "sources_len"];
                let before = project(&z.verif_dump_light(), &DROP_R);
                if let Ok(Err(_)) = guarded(|| z.compile("1 no-such-word-c02 2")) {
                    let after = project(&z.verif_dump_light(), &DROP_R);
                    if after != before {
                        let d = after.lines().zip(before.lines()).find(|(a, b)| a != b).map(|(a, b)| format!("after: `{}`, before: `{}`", truncate(a, 200), truncate(b, 200))).unwrap_or_default();
                        return Err(("rejected-source-changes-history:after-failed-step".into(), format!("{}R", path), format!("a rejected compile after stepping back over the failed step: {}", d)));
                    }
                }
            }
            match (0..pos.min(n + 1)).rev().find(|i| trace[*i] == pd) {
                Some(i) => pos = i,
                None => {
                    return Err(("state-differs:rnext-after-failed-step".into(), path, format!("stepping back after the failed step (history of {} steps) reached a state that is none of the recorded states before position {}", n, pos)));
                }
            }
            if pos == 0 {
                break;
            }
        }
        if pos != 0 && log_empty_at_start {
            return Err(("state-differs:rnext-after-failed-step".into(), path, format!("stepping back after the failed step stopped at position {} of {}, not at the start", pos, n)));
        }
    }
    st.states += seen.len() as u64;
    if seen.len() != n + 1 {
        return Err(("search-did-not-close".into(), String::new(), format!("{} states for a history of {} steps", seen.len(), n)));
    }
    Ok(())
}

pub fn run(cfg: &Cfg) -> i32 {
    let rep = Reporter::new("C02");
    let mut ev = Evidence::new("C02", cfg);
    let quick = cfg.quick();
    let total = Mutex::new(Stats { programs: 0, skipped_compile: 0, states: 0, transitions: 0, trivial: 0, opcodes: BTreeSet::new(), rsteps: BTreeSet::new(), lens: BTreeMap::new() });
    let nprog = AtomicU64::new(0);

    // corpus = (name, grammar, start env, max nodes, binary input?)  + templates
    let gsets: Vec<(&str, Grammar, usize)> = vec![
        ("control-flow-grammar", corpus::grammar_full(), if quick { 3 } else { 4 }),
        ("repertoire-grammar", corpus::grammar_repertoire(), if quick { 3 } else { 4 }),
    ];
    let mut corp_sizes = vec![];
    let merge = |st: Stats| {
        let mut t = total.lock().unwrap();
        t.programs += st.programs;
        t.skipped_compile += st.skipped_compile;
        t.states += st.states;
        t.transitions += st.transitions;
        t.trivial += st.trivial;
        t.opcodes.extend(st.opcodes);
        t.rsteps.extend(st.rsteps);
        for (k, v) in st.lens {
            *t.lens.entry(k).or_insert(0) += v;
        }
    };
    let report = |pre: &str, src: &str, key: String, path: String, detail: String, input: bool| {
        let w = (pre.len() as u64) * 10_000 + (src.len() as u64) * 100 + path.len() as u64;
        rep.report_w(&key, w, || {
            jo(vec![
                ("kind", js("reverse-step")),
                ("sources_evaluated_before", js(if pre.is_empty() { "none".to_string() } else { pre.to_string() })),
                ("source", js(src)),
                ("binary_input", js(if input { format!("{:x?}", corpus::BIN_INPUT) } else { "none".into() })),
                ("moves_from_end_of_forward_run", js(path.clone())),
                ("problem", js(detail.clone())),
            ])
        });
    };
    for (name, gr, maxn) in &gsets {
        let mut tasks_all: Vec<Task> = vec![];
        for s in 0..=*maxn {
            tasks_all.extend(tasks(gr, s, 1, &G::top()));
        }
        let before = nprog.load(Ordering::Relaxed);
        par_run(cfg.threads, tasks_all.len(), 1, |_t, pull| {
            let bases = make_bases();
            let mut st = Stats { programs: 0, skipped_compile: 0, states: 0, transitions: 0, trivial: 0, opcodes: BTreeSet::new(), rsteps: BTreeSet::new(), lens: BTreeMap::new() };
            while let Some(r) = pull() {
                for ti in r {
                    run_task(gr, &tasks_all[ti], &mut |prog, _| {
                        let src = source(prog);
                        // the fresh interpreter for every program; the debris-laden start states for
                        // the programs one node below the bound
                        for (bi, (pre, base)) in bases.iter().enumerate() {
                            if bi > 0 && (sz(prog) >= *maxn || bi % 2 == 1) {
                                continue;
                            }
                            nprog.fetch_add(1, Ordering::Relaxed);
                            if let Err((key, path, detail)) = check_program(base, &src, false, None, &mut st) {
                                report(pre, &src, key, path, detail, false);
                            }
                        }
                    });
                }
            }
            merge(st);
        });
        corp_sizes.push(jo(vec![("corpus", js(*name)), ("max_nodes", ji(*maxn)), ("programs", ji(nprog.load(Ordering::Relaxed) - before))]));
    }
    // templates, each with and without the binary input
    let tpl = corpus::templates();
    {
        let bases = make_bases();
        let mut st = Stats { programs: 0, skipped_compile: 0, states: 0, transitions: 0, trivial: 0, opcodes: BTreeSet::new(), rsteps: BTreeSet::new(), lens: BTreeMap::new() };
        for (pre, base) in &bases {
            for src in &tpl {
                nprog.fetch_add(1, Ordering::Relaxed);
                for lim in [None, Some(1usize), Some(3)] {
                    if lim.is_some() {
                        nprog.fetch_add(1, Ordering::Relaxed);
                    }
                    if let Err((key, path, detail)) = check_program(base, src, true, lim, &mut st) {
                        let pre2 = match lim {
                            None => pre.clone(),
                            Some(l) => format!("{}{}set_stack_limit(depth + {})", pre, if pre.is_empty() { "" } else { " then " }, l),
                        };
                        report(&pre2, src, key, path, detail, true);
                    }
                }
            }
        }
        merge(st);
        corp_sizes.push(jo(vec![("corpus", js("templates")), ("programs", ji(tpl.len())), ("start_states", ji(bases.len()))]));
    }
    let t = total.into_inner().unwrap();
    // vacuity guards: the instruction repertoire and every inverse-operation kind must be exercised
    let need_ops = ["Call", "NativeCall", "Ret", "JumpIf", "JumpIfNot", "Jump", "Do", "Break", "Loop", "CaseOf", "Load", "LoadNil", "LoadI64", "LoadStr", "LoadCell", "Store", "InitLocal", "LoadLocal", "Resolve"];
    for o in need_ops {
        if o == "JumpIf" {
            continue; // no source construct emits JumpIf
        }
        if !t.opcodes.contains(o) {
            vacuous(&format!("vacuous: opcode {} never stepped", o));
        }
    }
    for r in ["SetIp", "PushData", "PopData", "SwapData", "RotData", "OverData", "PopReturn", "PushReturn", "PopLoop", "PushLoop", "LoopNextBack", "PopSpecial", "PushSpecial", "SwapRef"] {
        if !t.rsteps.contains(r) {
            vacuous(&format!("vacuous: reverse step kind {} never logged", r));
        }
    }
    ev.evaluations = nprog.load(Ordering::Relaxed);
    ev.states = t.states;
    ev.transitions = t.transitions;
    ev.traces = t.programs;
    ev.nontrivial = t.programs - t.trivial;
    ev.rule = format!(
        "every program of the control-flow grammar and of the repertoire grammar (stack shufflers, builders, foreach, locals, variables) up to {} nodes, plus {} hand-written repertoire programs run with a 6-byte binary input; every template from each of the {} start states (fresh, and after histories of sources that failed inside a call / a counted loop / a builder / foreach and left their frames, loop ranges and data behind), the grammar programs below the node bound also from two of the debris states; forward history capped at {} steps; per program an explicit-state search over {{rnext,next}} from the end of the forward run with the projected dump (reverse log included) as key, run to closure (n+1 states, 2n+2 transitions). non-trivial = compiled programs whose history has at least one step (all distinct sources)",
        gsets[0].2, tpl.len(), PREFIXES.len(), MAX_STEPS
    );
    ev.add("start_state_histories", J::A(PREFIXES.iter().map(|h| J::A(h.iter().map(|s| js(*s)).collect())).collect()));
    ev.add("corpora", J::A(corp_sizes));
    ev.add("programs_stepped", ji(t.programs));
    ev.add("rejected_by_compiler_skipped", ji(t.skipped_compile));
    ev.add("opcodes_stepped", J::A(t.opcodes.iter().map(|s| js(s.clone())).collect()));
    ev.add("reverse_step_kinds_logged", J::A(t.rsteps.iter().map(|s| js(s.clone())).collect()));
    ev.add("history_length_histogram_by_10", jmap(&t.lens));
    ev.add("dump_sections_excluded", J::A(DROP.iter().map(|s| js(*s)).collect()));
    ev.sample(jo(vec![("program", js(tpl[3].clone())), ("search", js("from S_n: rnext/next to closure, every state compared with the forward trace"))]));
    ev.sample(jo(vec![("program", js(tpl[9].clone()))]));
    ev.assumptions = vec![
        "a step that fails is not part of the stepped history (the history ends before it)".into(),
        "printed output, the instruction meter and the in-place resolution of late-bound words are not machine state in the sense of the property".into(),
    ];
    conclude(&ev, &rep)
}
