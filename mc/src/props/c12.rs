// C12 — maps, vectors and strings obey collection laws under the language's equality.
//
// Part A (explicit-state): breadth-first search over sequences of `insert k v` / `remove k`
//   applied to `{ }`; the state key is the canonical association list (key class -> value);
//   every transition is executed on the real interpreter on a `dup`-ed handle and after every step
//   the invariant is evaluated: `foreach` contents, `get k` for EVERY key of the alphabet,
//   `equal?` (both argument orders) with a literal rebuilt from the content, `equal?` false with a
//   literal of a different content, and the old handle unchanged.
//   The search runs (1) once per single-type key family (nil, flags, ints, reals, strings, bit-strings,
//   vectors, maps; tagged variants with their base type) where the open finding
//   `map-key-collision:cross-type` cannot interfere, to closure and strictly; (2) on the mixed-type
//   alphabet of DESIGN.md, where a divergence that involves two keys differing in type which the
//   implementation's key order calls Equal is filed under that open finding and the search goes on from
//   the implementation's observed content (the model is re-synchronised); every other divergence
//   keeps its own key.
// Part B (exhaustive product): every map literal of <= L pairs over (key, value).
// Part C (exhaustive product): vector / string words against a `Vec` model for every vector of
//   length 0..N over a 4-element alphabet and EVERY index of the index alphabet (incl. extremes).
// Part D: `sort` on homogeneous lists of ints, non-NaN reals, strings.
//
// Keys of violations (narrow, stable):
//   map-key-collision:cross-type | map-key-collision:same-type   two keys that are not `equal?`
//        are treated as one key by the map (today: `Ord for Cell` says Equal for incomparable
//        values). The colliding type pair is in the replay record and in the evidence table
//        `collisions_by_type_pair`; the pair is deliberately NOT part of the key (33 pairs collide
//        today through one defect).
//   map-mismatch:<observer>        get / foreach / equal? / literal disagree with the model, no collision
//   map-old-handle-changed:<op>    an operation changed a map that is still referenced
//   map-op-error:<op>              insert/remove/literal failed
//   equal?-mismatch                `equal?` disagrees with typed, tag-blind equality on the key alphabet
//   index-truncation:<word>        an index outside the isize range was silently truncated and "succeeded"
//   seq-mismatch:<word>:<what>     vector/string word disagrees with the sequence model
//   seq-old-handle-changed:<word>
//   sort-mismatch:<type>
//   panic:<word>
use crate::common::*;
use std::collections::{BTreeMap, HashSet};
use std::sync::atomic::{AtomicU64, Ordering};
use std::sync::Mutex;
use xeh::prelude::*;

const INSN_LIMIT: usize = 20_000;

// ------------------------------------------------------------------ alphabets
#[derive(Clone)]
pub struct KeyDef {
    pub src: String,
    pub ty: &'static str,
    pub class: u8,
    pub tagged: bool,
}

fn kd(src: &str, ty: &'static str, class: u8, tagged: bool) -> KeyDef {
    KeyDef { src: src.to_string(), ty, class, tagged }
}

/// key alphabet of DESIGN.md C12; `class` = index of the equality class under typed, tag-blind equality
pub fn key_alphabet(seed: u64) -> Vec<KeyDef> {
    let mut v = vec![
        kd("nil", "nil", 0, false),
        kd("true", "flag", 1, false),
        kd("false", "flag", 2, false),
        kd("0", "int", 3, false),
        kd("1", "int", 4, false),
        kd("-1", "int", 5, false),
        kd("1.0", "real", 6, false),
        kd("2.5", "real", 7, false),
        kd("\"a\"", "str", 8, false),
        kd("\"1\"", "str", 9, false),
        kd("\"\"", "str", 10, false),
        kd("|01|", "bitstr", 11, false),
        kd("|x|", "bitstr", 12, false),
        kd("[ ]", "vec", 13, false),
        kd("[ 1 ]", "vec", 14, false),
        kd("{ }", "map", 15, false),
        kd("1 ^{ \"t\" \"k\" ^}", "int", 4, true),
        kd("\"a\" ^{ \"t\" \"k\" ^}", "str", 8, true),
    ];
    if seed != 0 {
        // the seed only adds one more member to the alphabet
        let n = 2 + (mix(seed, 12) % 1000) as i64;
        v.push(kd(&format!("{}", n), "int", 16, false));
    }
    v
}

/// single-type key families: inside one family no two keys differ in type (vectors and maps hold ints only),
/// so the open cross-type finding cannot interfere and the exploration must be violation-free.
/// Tagged variants are grouped with their base type (a tagged key IS the bare key).
pub fn key_families() -> Vec<(&'static str, Vec<KeyDef>)> {
    let tag = " ^{ \"t\" \"k\" ^}";
    let fam = |ty: &'static str, srcs: &[&str], tagged_of: usize, same_as: &[(usize, usize)]| {
        let mut v: Vec<KeyDef> = srcs.iter().enumerate().map(|(i, s)| kd(s, ty, i as u8, false)).collect();
        for (i, j) in same_as {
            v[*i].class = v[*j].class;
        }
        let t = kd(&format!("{}{}", srcs[tagged_of], tag), ty, v[tagged_of].class, true);
        v.push(t);
        v
    };
    vec![
        ("nil", fam("nil", &["nil"], 0, &[])),
        ("flag", fam("flag", &["true", "false"], 0, &[])),
        ("int", fam("int", &["0", "1", "-1", "1180591620717411303424", "-170141183460469231731687303715884105728"], 1, &[])),
        // -0.0 and 0.0 are one key: the language's equality says they are equal
        ("real", fam("real", &["1.0", "2.5", "0.0", "-0.0", "1.0e300", "-1.5"], 1, &[(3, 2)])),
        ("str", fam("str", &["\"a\"", "\"1\"", "\"\"", "\"ab\"", "\"A\""], 0, &[])),
        // the last four are one key: the same four bits as a literal, as byte-aligned slices of buffers that
        // differ after the end of the value, and as an unaligned slice
        ("bitstr", fam("bitstr", &["|01|", "|x|", "|.|", "|0100|", "|x.|", "|xxxx|", "|f0| open-bitstr 4 bits", "|ff| open-bitstr 4 bits", "|0f| open-bitstr 4 bits drop 4 bits"], 1, &[(6, 5), (7, 5), (8, 5)])),
        ("vec", fam("vec", &["[ ]", "[ 1 ]", "[ 2 ]", "[ 1 2 ]", "[ 1 1 ]"], 1, &[])),
        ("map", fam("map", &["{ }", "{ 10 1 }", "{ 11 1 }", "{ 10 2 }", "{ 10 1 10 2 }"], 0, &[])),
    ]
}

const VALS: &[&str] = &["10", "\"v\""];

pub struct Alpha {
    pub keys: Vec<Cell>,
    pub vals: Vec<Cell>,
    /// canonical (first) key index of every class
    pub canon: BTreeMap<u8, usize>,
}

fn mk_base() -> Xstate {
    let mut xs = boot();
    xs.set_insn_limit(Some(INSN_LIMIT)).unwrap();
    xs
}

/// weight of a case with a deterministic tie-break, so that the recorded replay does not depend on thread timing
fn wt(w: u64, program: &str) -> u64 {
    w * 65_536 + (hash128(program) as u64 & 0xffff)
}

fn ev(xs: &mut Xstate, src: &str) -> Result<Xresult, String> {
    guarded(|| xs.eval(src))
}

/// data stack bottom first; the stack is left empty
fn take_stack(xs: &mut Xstate) -> Vec<Cell> {
    let n = xs.data_depth();
    let v: Vec<Cell> = (0..n).rev().map(|i| xs.get_data(i).unwrap().clone()).collect();
    for _ in 0..n {
        let _ = xs.pop_data();
    }
    v
}

fn eval_one(base: &Xstate, src: &str) -> Option<Cell> {
    let mut xs = base.clone();
    match ev(&mut xs, src) {
        Ok(Ok(())) => {
            let mut st = take_stack(&mut xs);
            if st.len() == 1 {
                st.pop()
            } else {
                None
            }
        }
        _ => None,
    }
}

impl Alpha {
    pub fn new(base: &Xstate, kdefs: &[KeyDef]) -> Alpha {
        let mut keys = vec![];
        let mut canon = BTreeMap::new();
        for (i, k) in kdefs.iter().enumerate() {
            let c = eval_one(base, &k.src).unwrap_or_else(|| machinery_error(&format!("C12 alphabet: key literal `{}` does not evaluate to one value", k.src)));
            if c.value().type_name().as_str() != k.ty || c.tags().is_some() != k.tagged {
                machinery_error(&format!("C12 alphabet: key literal `{}` evaluates to {}", k.src, render(&c)));
            }
            keys.push(c);
            canon.entry(k.class).or_insert(i);
        }
        let vals = VALS.iter().map(|s| eval_one(base, s).unwrap_or_else(|| machinery_error("C12 alphabet: value literal"))).collect();
        Alpha { keys, vals, canon }
    }
}

// ------------------------------------------------------------------ map model
#[derive(Clone, Copy, PartialEq, Eq, Debug)]
pub enum Op {
    Ins(u8, u8),
    Rem(u8),
}

pub type Model = BTreeMap<u8, u8>; // key class -> value index

fn op_src(op: Op, kdefs: &[KeyDef]) -> String {
    match op {
        Op::Ins(k, v) => format!("{} {} insert", VALS[v as usize], kdefs[k as usize].src),
        Op::Rem(k) => format!("{} remove", kdefs[k as usize].src),
    }
}
fn op_name(op: Op) -> &'static str {
    match op {
        Op::Ins(..) => "insert",
        Op::Rem(..) => "remove",
    }
}
fn op_key(op: Op) -> usize {
    match op {
        Op::Ins(k, _) => k as usize,
        Op::Rem(k) => k as usize,
    }
}
fn apply(m: &mut Model, op: Op, kdefs: &[KeyDef]) {
    match op {
        Op::Ins(k, v) => {
            m.insert(kdefs[k as usize].class, v);
        }
        Op::Rem(k) => {
            m.remove(&kdefs[k as usize].class);
        }
    }
}
fn model_key(m: &Model, tainted: bool) -> u64 {
    let mut k = 0u64;
    for (c, v) in m {
        k |= ((*v as u64) + 1) << (2 * (*c as u64));
    }
    k | ((tainted as u64) << 63)
}
fn path_src(path: &[Op], kdefs: &[KeyDef]) -> String {
    let mut s = String::from("{ }");
    for op in path {
        s.push(' ');
        s.push_str(&op_src(*op, kdefs));
    }
    s
}
fn model_literal(m: &Model, al: &Alpha, kdefs: &[KeyDef]) -> String {
    let mut s = String::from("{ ");
    for (c, v) in m {
        s.push_str(VALS[*v as usize]);
        s.push(' ');
        s.push_str(&kdefs[al.canon[c]].src);
        s.push(' ');
    }
    s.push('}');
    s
}
fn model_json(m: &Model, al: &Alpha, kdefs: &[KeyDef]) -> J {
    J::A(m.iter().map(|(c, v)| J::A(vec![js(kdefs[al.canon[c]].src.clone()), js(VALS[*v as usize])])).collect())
}
fn pair_name(kdefs: &[KeyDef], a: usize, b: usize) -> String {
    let (x, y) = (kdefs[a].ty, kdefs[b].ty);
    if x <= y { format!("{}-{}", x, y) } else { format!("{}-{}", y, x) }
}

/// do the two values differ in TYPE at the first place where they differ? (vectors and maps are walked)
fn deep_cross_type(a: &Cell, b: &Cell) -> bool {
    match (a.value(), b.value()) {
        (Cell::Vector(x), Cell::Vector(y)) => {
            for (p, q) in x.iter().zip(y.iter()) {
                if p != q {
                    return deep_cross_type(p, q);
                }
            }
            false
        }
        (Cell::Map(x), Cell::Map(y)) => {
            for ((k1, v1), (k2, v2)) in x.iter().zip(y.iter()) {
                if k1 != k2 {
                    return deep_cross_type(k1, k2);
                }
                if v1 != v2 {
                    return deep_cross_type(v1, v2);
                }
            }
            false
        }
        (x, y) => x.type_name() != y.type_name(),
    }
}

/// the open finding `map-key-collision:cross-type`, as a predicate over two alphabet keys: they are different
/// keys, they differ in type, and the implementation's key order calls them Equal.
/// Used ONLY to classify a divergence that the model has already established, never to create one.
fn cross_collide(al: &Alpha, kdefs: &[KeyDef], a: usize, b: usize) -> bool {
    kdefs[a].class != kdefs[b].class && deep_cross_type(&al.keys[a], &al.keys[b]) && guarded(|| al.keys[a].cmp(&al.keys[b]) == std::cmp::Ordering::Equal).unwrap_or(false)
}

struct Obs<'a> {
    base: &'a Xstate,
    sx: Xstate,
    evals: u64,
}

impl<'a> Obs<'a> {
    fn new(base: &'a Xstate) -> Obs<'a> {
        Obs { base, sx: base.clone(), evals: 0 }
    }
    fn reset(&mut self) {
        self.sx = self.base.clone();
    }
    /// push `args`, evaluate `src`; returns the whole stack or the failure text
    fn run(&mut self, args: &[&Cell], src: &str, then_push: &[&Cell], src2: &str) -> Result<Vec<Cell>, String> {
        // the instruction meter is cumulative: reset it so that no verdict depends on what ran before
        self.sx.set_insn_limit(Some(INSN_LIMIT)).unwrap();
        for a in args {
            self.sx.push_data((*a).clone()).unwrap();
        }
        self.evals += 1;
        let mut r = ev(&mut self.sx, src);
        if let Ok(Ok(())) = r {
            if !src2.is_empty() || !then_push.is_empty() {
                for a in then_push {
                    self.sx.push_data((*a).clone()).unwrap();
                }
                self.evals += 1;
                r = ev(&mut self.sx, src2);
            }
        }
        match r {
            Ok(Ok(())) => Ok(take_stack(&mut self.sx)),
            Ok(Err(e)) => {
                self.sx = self.base.clone();
                Err(format!("error {}", err_kind(&e)))
            }
            Err(p) => {
                self.sx = self.base.clone();
                Err(format!("panic: {}", p))
            }
        }
    }
}

fn is_true(c: &Cell) -> bool {
    matches!(c, Cell::Flag(true))
}
fn is_false(c: &Cell) -> bool {
    matches!(c, Cell::Flag(false))
}

/// one finding of the map invariant: key, observer, text, colliding pair (for the collision key)
struct Finding {
    key: String,
    observer: &'static str,
    detail: String,
    pair: Option<String>,
    probe: Option<usize>,
}

/// what one judged map looks like
struct Verdict {
    findings: Vec<Finding>,
    /// the state to continue from (the implementation's observed content) and its taint; None = do not expand
    next: Option<(Model, bool)>,
    /// the implementation's content differs from the model's because of a cross-type collision: model re-synchronised
    resynced: bool,
    /// only `get` probes of other-typed keys diverge, the content agrees
    probe_only: bool,
    /// the observed content cannot be written as one value per key (the same key twice): not expanded
    unrepresentable: bool,
    equal_skipped: bool,
}

const CROSS_KEY: &str = "map-key-collision:cross-type";

/// The invariant of parts A/B. `expected` = what the association-list model says the map holds now.
/// `cross_now` = (a, b): the step that produced this map involved two keys that collide across types
/// (operation key against an entry, or two keys of a literal); `tainted` = an earlier step on this path did.
/// A divergence is filed under the open finding only if such a collision is involved; every other
/// divergence gets its own key. Whenever the observed content can be written as a model, the search
/// continues from it.
fn judge(ob: &mut Obs, al: &Alpha, kdefs: &[KeyDef], m: &Cell, expected: &Model, expected_alt: &BTreeMap<u8, Vec<u8>>, cross_now: Option<(usize, usize)>, tainted: bool) -> Verdict {
    let mut v = judge_inner(ob, al, kdefs, m, expected, expected_alt, cross_now, tainted);
    // name the finding: two different keys of ONE type that the key order calls Equal (the defect repaired in
    // b687b75) keep the key `map-key-collision:same-type`
    for f in v.findings.iter_mut() {
        if f.key == "map-mismatch:get" || f.key == "map-mismatch:foreach" {
            let mut inv: Vec<usize> = f.probe.into_iter().collect();
            inv.extend(expected.keys().map(|c| al.canon[c]));
            let mut hit = None;
            for (i, a) in inv.iter().enumerate() {
                for b in &inv[i + 1..] {
                    if kdefs[*a].class != kdefs[*b].class && !deep_cross_type(&al.keys[*a], &al.keys[*b]) && guarded(|| al.keys[*a].cmp(&al.keys[*b]) == std::cmp::Ordering::Equal).unwrap_or(false) {
                        hit = hit.or(Some((*a, *b)));
                    }
                }
            }
            if let Some((a, b)) = hit {
                f.key = "map-key-collision:same-type".to_string();
                f.pair = Some(format!("{} (`{}` and `{}`)", pair_name(kdefs, a, b), kdefs[a].src, kdefs[b].src));
            }
        }
    }
    v
}

fn judge_inner(ob: &mut Obs, al: &Alpha, kdefs: &[KeyDef], m: &Cell, expected: &Model, expected_alt: &BTreeMap<u8, Vec<u8>>, cross_now: Option<(usize, usize)>, tainted: bool) -> Verdict {
    ob.reset();
    let mut v = Verdict { findings: vec![], next: None, resynced: false, probe_only: false, unrepresentable: false, equal_skipped: false };
    let own = |observer: &'static str, detail: String| Finding { key: if detail.contains("panic:") { format!("panic:map-{}", observer) } else { format!("map-mismatch:{}", observer) }, observer, detail, pair: None, probe: None };
    // ---- content, as `foreach` shows it
    let st = match ob.run(&[m], "foreach I loop", &[], "") {
        Ok(st) => st,
        Err(e) => {
            v.findings.push(own("foreach", format!("`foreach I loop`: {}", e)));
            return v;
        }
    };
    // (an empty map yields nothing at all: in particular not the map itself)
    let shown = || format!("{:?}", st.iter().map(render).collect::<Vec<_>>());
    if st.len() % 2 != 0 {
        v.findings.push(own("foreach", format!("`foreach I loop` leaves {} (not pairs)", shown())));
        return v;
    }
    let mut content = Model::new();
    let mut duplicate = false;
    for kv in st.chunks(2) {
        let ki = (0..kdefs.len()).find(|i| al.keys[*i] == kv[0] && al.keys[*i].value().type_name() == kv[0].value().type_name());
        let vi = (0..al.vals.len()).find(|i| render(&al.vals[*i]) == render(&kv[1]));
        match (ki, vi) {
            (Some(ki), Some(vi)) => {
                if content.insert(kdefs[ki].class, vi as u8).is_some() {
                    duplicate = true;
                }
            }
            _ => {
                v.findings.push(own("foreach", format!("`foreach I loop` leaves {}: a key or value that was never inserted", shown())));
                return v;
            }
        }
    }
    let collision_finding = |pair: Option<(usize, usize)>, observer: &'static str, detail: String| Finding {
        key: CROSS_KEY.to_string(),
        observer,
        detail,
        pair: Some(match pair {
            Some((a, b)) => format!("{} (`{}` and `{}`)", pair_name(kdefs, a, b), kdefs[a].src, kdefs[b].src),
            None => "an earlier cross-type collision on this path left the tree out of order".to_string(),
        }),
        probe: None,
    };
    // the content must be the model's; for a key written twice in one literal any written value is allowed
    let content_ok = !duplicate
        && content.len() == expected.len()
        && content.iter().all(|(c, val)| expected.get(c) == Some(val) || expected_alt.get(c).map(|a| a.contains(val)).unwrap_or(false))
        && expected.keys().all(|c| content.contains_key(c));
    let mut tainted_now = tainted;
    if !content_ok {
        let detail = format!("`foreach I loop` leaves {}, the model holds {:?}", shown(), expected.iter().map(|(c, val)| format!("{}=>{}", kdefs[al.canon[c]].src, VALS[*val as usize])).collect::<Vec<_>>());
        if cross_now.is_some() || tainted {
            v.findings.push(collision_finding(cross_now, "foreach", detail));
            v.resynced = true;
            tainted_now = true;
            if duplicate {
                v.unrepresentable = true;
                return v;
            }
        } else {
            v.findings.push(own("foreach", detail));
            return v;
        }
    }
    if content.len() <= 1 {
        // a tree of at most one node cannot be out of order
        tainted_now = false;
    }
    // ---- get k for EVERY key of the alphabet, against the observed content
    let mut own_failure = false;
    for (ki, k) in kdefs.iter().enumerate() {
        let src = format!("{} get", k.src);
        let want = content.get(&k.class).map(|x| &al.vals[*x as usize]);
        let got = ob.run(&[m], &src, &[], "");
        let ok = match &got {
            Ok(s) => s.len() == 1 && match want {
                Some(w) => render(&s[0]) == render(w),
                None => matches!(s[0], Cell::Nil),
            },
            Err(_) => false,
        };
        if ok {
            continue;
        }
        let detail = match &got {
            Ok(s) => format!("`{}` gives {:?}, the map holds {}", src, s.iter().map(render).collect::<Vec<_>>(), want.map(render).unwrap_or("nothing under that key (nil expected)".into())),
            Err(e) => format!("`{}`: {}", src, e),
        };
        let is_panic = matches!(&got, Err(e) if e.starts_with("panic"));
        let partner = content.keys().map(|c| al.canon[c]).find(|e| cross_collide(al, kdefs, *e, ki));
        if !is_panic && (partner.is_some() || tainted_now) {
            if !v.findings.iter().any(|f| f.key == CROSS_KEY) {
                v.findings.push(collision_finding(partner.map(|e| (e, ki)), "get", detail));
            }
            if !v.resynced {
                v.probe_only = true;
            }
        } else {
            if !v.findings.iter().any(|f| f.observer == "get" && f.key != CROSS_KEY) {
                let mut f = own("get", detail);
                f.probe = Some(ki);
                v.findings.push(f);
            }
            own_failure = true;
        }
    }
    if own_failure {
        return v;
    }
    // ---- equal? with a literal rebuilt from the content, both argument orders, and a different literal.
    // A tree that a collision has put out of order, or whose keys collide among themselves, makes the
    // literal (and map equality) meaningless: skipped and counted.
    let keys_now: Vec<usize> = content.keys().map(|c| al.canon[c]).collect();
    let internal_collision = keys_now.iter().enumerate().any(|(i, a)| keys_now[i + 1..].iter().any(|b| cross_collide(al, kdefs, *a, *b)));
    if tainted_now || internal_collision {
        v.equal_skipped = true;
    } else {
        let lit = model_literal(&content, al, kdefs);
        let r1 = ob.run(&[m], &format!("{} equal?", lit), &[], "");
        let r2 = ob.run(&[], &lit, &[m], "equal?");
        for (which, r) in [("map literal equal?", r1), ("literal map equal?", r2)] {
            match r {
                Ok(s) if s.len() == 1 && is_true(&s[0]) => {}
                Ok(s) => {
                    v.findings.push(own("equal?", format!("{} with `{}` gives {:?}, expected true", which, lit, s.iter().map(render).collect::<Vec<_>>())));
                    return v;
                }
                Err(e) => {
                    v.findings.push(own("equal?", format!("{} with `{}`: {}", which, lit, e)));
                    return v;
                }
            }
        }
        let mut other = content.clone();
        if let Some((c, val)) = content.iter().next() {
            other.insert(*c, 1 - *val);
        } else {
            other.insert(kdefs[0].class, 0);
        }
        let lit2 = model_literal(&other, al, kdefs);
        match ob.run(&[m], &format!("{} equal?", lit2), &[], "") {
            Ok(s) if s.len() == 1 && is_false(&s[0]) => {}
            Ok(s) => {
                v.findings.push(own("equal?", format!("equal? with the different map `{}` gives {:?}, expected false", lit2, s.iter().map(render).collect::<Vec<_>>())));
                return v;
            }
            Err(e) => {
                v.findings.push(own("equal?", format!("equal? with `{}`: {}", lit2, e)));
                return v;
            }
        }
    }
    v.next = Some((content, tainted_now));
    v
}

#[derive(Default, Clone)]
pub struct MapReport {
    pub label: String,
    pub keys: usize,
    pub classes: usize,
    pub depth: usize,
    pub states: u64,
    pub tainted_states: u64,
    pub mixed_states: u64,
    pub transitions: u64,
    pub evals: u64,
    pub resynced: u64,
    pub probe_only: u64,
    pub unrepresentable: u64,
    pub equal_skipped: u64,
    pub pruned_own: u64,
    pub literals: u64,
    pub literals_mixed: u64,
    pub literals_dup: u64,
    pub collisions: BTreeMap<String, u64>,
    pub ops: BTreeMap<String, u64>,
    pub per_depth: Vec<J>,
    pub wall_s: f64,
}

impl MapReport {
    fn merge(&mut self, o: &MapReport) {
        self.transitions += o.transitions;
        self.evals += o.evals;
        self.resynced += o.resynced;
        self.probe_only += o.probe_only;
        self.unrepresentable += o.unrepresentable;
        self.equal_skipped += o.equal_skipped;
        self.pruned_own += o.pruned_own;
        self.literals_mixed += o.literals_mixed;
        self.literals_dup += o.literals_dup;
        for (k, v) in &o.collisions {
            *self.collisions.entry(k.clone()).or_insert(0) += v;
        }
        for (k, v) in &o.ops {
            *self.ops.entry(k.clone()).or_insert(0) += v;
        }
    }
    fn note(&mut self, v: &Verdict) {
        if v.resynced {
            self.resynced += 1;
        }
        if v.probe_only {
            self.probe_only += 1;
        }
        if v.unrepresentable {
            self.unrepresentable += 1;
        }
        if v.equal_skipped {
            self.equal_skipped += 1;
        }
        for f in &v.findings {
            if f.key == CROSS_KEY {
                if let Some(p) = &f.pair {
                    bump(&mut self.collisions, p.split(' ').next().unwrap_or("?"));
                }
            }
        }
        if v.findings.iter().any(|f| f.key != CROSS_KEY) {
            self.pruned_own += 1;
        }
    }
    fn common_json(&self) -> Vec<(&'static str, J)> {
        vec![
            ("re_synchronised_after_a_cross_type_collision", ji(self.resynced)),
            ("only_probes_of_other_typed_keys_diverge", ji(self.probe_only)),
            ("content_not_representable_not_expanded", ji(self.unrepresentable)),
            ("other_violation_not_expanded", ji(self.pruned_own)),
            ("equal_checks_skipped_tree_out_of_order", ji(self.equal_skipped)),
            ("collisions_by_type_pair", jmap(&self.collisions)),
            ("wall_s", J::F(self.wall_s)),
        ]
    }
    pub fn json_bfs(&self) -> J {
        let mut v = vec![
            ("keys", ji(self.keys)),
            ("equality_classes", ji(self.classes)),
            ("max_sequence_length", ji(self.depth)),
            ("canonical_states", ji(self.states)),
            ("states_with_keys_of_two_or_more_types", ji(self.mixed_states)),
            ("states_reached_through_a_cross_type_collision", ji(self.tainted_states)),
            ("transitions", ji(self.transitions)),
            ("per_operation", jmap(&self.ops)),
            ("per_depth", J::A(self.per_depth.clone())),
        ];
        v.extend(self.common_json());
        jo(v)
    }
    pub fn json_lit(&self) -> J {
        let mut v = vec![
            ("max_pairs", ji(self.depth)),
            ("literals", ji(self.literals)),
            ("literals_with_keys_of_two_or_more_types", ji(self.literals_mixed)),
            ("literals_writing_one_key_twice_with_different_values", ji(self.literals_dup)),
        ];
        v.extend(self.common_json());
        jo(v)
    }
}

fn finding_json(kind: &str, program: &str, f: &Finding, model: J, observed: &Cell) -> J {
    jo(vec![
        ("kind", js(kind)),
        ("program", js(program)),
        ("model", model),
        ("observed_map", js(render(observed))),
        ("observer", js(f.observer)),
        ("difference", js(f.detail.clone())),
        ("colliding_type_pair", f.pair.clone().map(js).unwrap_or(J::Null)),
    ])
}

// ------------------------------------------------------------------ part A: BFS
struct Node {
    path: Vec<Op>,
    model: Model,
    tainted: bool,
}

/// `depth` is always explored completely; up to `extra` further levels are explored as long as the frontier
/// stays within `budget` states (a count, not a clock: the bound reached is deterministic and is reported)
fn explore_maps(cfg: &Cfg, rep: &Reporter, label: &str, kdefs: &[KeyDef], depth: usize, extra: usize, budget: usize) -> MapReport {
    let t_all = std::time::Instant::now();
    let nk = kdefs.len();
    let mut ops: Vec<Op> = vec![];
    for k in 0..nk {
        for v in 0..VALS.len() {
            ops.push(Op::Ins(k as u8, v as u8));
        }
    }
    for k in 0..nk {
        ops.push(Op::Rem(k as u8));
    }
    let classes: HashSet<u8> = kdefs.iter().map(|k| k.class).collect();
    let mut report = MapReport { label: label.to_string(), keys: nk, classes: classes.len(), depth, states: 1, ..Default::default() };
    let mut visited: HashSet<u64> = HashSet::new();
    visited.insert(0);
    let mut frontier: Vec<Node> = vec![Node { path: vec![], model: Model::new(), tainted: false }];
    let stats = Mutex::new(MapReport::default());
    let no_alt: BTreeMap<u8, Vec<u8>> = BTreeMap::new();
    // root state
    {
        let base = mk_base();
        let al = Alpha::new(&base, kdefs);
        let mut ob = Obs::new(&base);
        let m = eval_one(&base, "{ }").unwrap_or_else(|| machinery_error("C12: `{ }` does not evaluate"));
        let v = judge(&mut ob, &al, kdefs, &m, &Model::new(), &no_alt, None, false);
        for f in &v.findings {
            rep.report_w(&f.key, 0, || finding_json("map-bfs", "{ }", f, J::A(vec![]), &m));
        }
    }
    for d in 0..depth + extra {
        if d >= depth && frontier.len() > budget {
            break;
        }
        report.depth = d + 1;
        let t0 = std::time::Instant::now();
        let fr = &frontier;
        let results: Vec<Vec<(usize, Vec<(Model, bool, Op)>)>> = par_run(cfg.threads, fr.len(), 4, |_t, pull| {
            let base = mk_base();
            let al = Alpha::new(&base, kdefs);
            let mut ob = Obs::new(&base);
            let mut out = vec![];
            let mut st = MapReport::default();
            while let Some(r) = pull() {
                for si in r {
                    let node = &fr[si];
                    let psrc = path_src(&node.path, kdefs);
                    let m = match eval_one(&base, &psrc) {
                        Some(m) => m,
                        None => machinery_error(&format!("C12: a path that passed its checks no longer replays: {}", psrc)),
                    };
                    st.evals += 1;
                    let m_before = render(&m);
                    let mut succ = vec![];
                    for &op in &ops {
                        st.transitions += 1;
                        bump(&mut st.ops, op_name(op));
                        let osrc = format!("dup {}", op_src(op, kdefs));
                        let mut expected = node.model.clone();
                        apply(&mut expected, op, kdefs);
                        let program = format!("{} {}", psrc, osrc);
                        let weight = wt((node.path.len() as u64 + 1) * 1000 + (psrc.len() + osrc.len()) as u64, &program);
                        // does the operation key collide, across types, with a key that is in the map?
                        let cross_now = node.model.keys().map(|c| al.canon[c]).find(|e| cross_collide(&al, kdefs, *e, op_key(op))).map(|e| (e, op_key(op)));
                        let mut xs = base.clone();
                        xs.push_data(m.clone()).unwrap();
                        st.evals += 1;
                        let r = ev(&mut xs, &osrc);
                        let stack = take_stack(&mut xs);
                        let hard: Option<(String, J)> = match r {
                            Err(p) => Some((format!("panic:map-{}", op_name(op)), jo(vec![("kind", js("map-bfs")), ("program", js(program.clone())), ("panic", js(p))]))),
                            Ok(Err(e)) => Some((format!("map-op-error:{}", op_name(op)), jo(vec![("kind", js("map-bfs")), ("program", js(program.clone())), ("error", js(err_kind(&e))), ("expected", js("Ok"))]))),
                            Ok(Ok(())) if stack.len() != 2 => Some((format!("map-op-error:{}", op_name(op)), jo(vec![("kind", js("map-bfs")), ("program", js(program.clone())), ("stack", J::A(stack.iter().map(|c| js(render(c))).collect())), ("expected", js("old map, new map"))]))),
                            Ok(Ok(())) if render(&stack[0]) != m_before || render(&m) != m_before => Some((
                                format!("map-old-handle-changed:{}", op_name(op)),
                                jo(vec![("kind", js("map-bfs")), ("program", js(program.clone())), ("old_handle_before", js(m_before.clone())), ("old_handle_after", js(render(&stack[0])))]),
                            )),
                            Ok(Ok(())) => None,
                        };
                        if let Some((key, case)) = hard {
                            st.pruned_own += 1;
                            rep.report_w(&key, weight, || case);
                            continue;
                        }
                        let e0 = ob.evals;
                        let v = judge(&mut ob, &al, kdefs, &stack[1], &expected, &no_alt, cross_now, node.tainted);
                        st.evals += ob.evals - e0;
                        st.note(&v);
                        if v.findings.iter().any(|f| f.key != CROSS_KEY) {
                            // a violation outside the open finding is re-executed from its program text before it is recorded
                            let mut x = base.clone();
                            let r2 = ev(&mut x, &program);
                            let s2 = take_stack(&mut x);
                            let again = if matches!(r2, Ok(Ok(()))) && s2.len() == 2 { Some(judge(&mut ob, &al, kdefs, &s2[1], &expected, &no_alt, cross_now, node.tainted)) } else { None };
                            let same_keys = again.map(|a| a.findings.iter().map(|f| f.key.clone()).collect::<Vec<_>>() == v.findings.iter().map(|f| f.key.clone()).collect::<Vec<_>>()).unwrap_or(false);
                            if !same_keys {
                                machinery_error(&format!("C12: violation of `{}` does not reproduce on re-execution", program));
                            }
                        }
                        for f in &v.findings {
                            rep.report_w(&f.key, weight, || finding_json("map-bfs", &program, f, model_json(&expected, &al, kdefs), &stack[1]));
                        }
                        if let Some((content, tainted)) = v.next {
                            succ.push((content, tainted, op));
                        }
                    }
                    out.push((si, succ));
                }
            }
            stats.lock().unwrap().merge(&st);
            out
        });
        // deterministic merge: frontier order, then operation order
        let mut all: Vec<(usize, Vec<(Model, bool, Op)>)> = results.into_iter().flatten().collect();
        all.sort_by_key(|x| x.0);
        let mut next = vec![];
        for (si, succ) in all {
            for (model, tainted, op) in succ {
                if visited.insert(model_key(&model, tainted)) {
                    let mut p = frontier[si].path.clone();
                    p.push(op);
                    let tys: HashSet<&str> = model.keys().map(|c| kdefs.iter().find(|k| k.class == *c).unwrap().ty).collect();
                    if tys.len() >= 2 {
                        report.mixed_states += 1;
                    }
                    if tainted {
                        report.tainted_states += 1;
                    }
                    next.push(Node { path: p, model, tainted });
                }
            }
        }
        report.per_depth.push(jo(vec![("depth", ji(d + 1)), ("expanded_states", ji(frontier.len())), ("new_states", ji(next.len())), ("wall_s", J::F(t0.elapsed().as_secs_f64()))]));
        report.states += next.len() as u64;
        frontier = next;
        if frontier.is_empty() {
            break;
        }
    }
    let g = stats.into_inner().unwrap();
    report.merge(&g);
    if report.ops.get("insert").copied().unwrap_or(0) == 0 || report.ops.get("remove").copied().unwrap_or(0) == 0 {
        vacuous("vacuous: C12 map BFS executed no insert or no remove");
    }
    report.wall_s = t_all.elapsed().as_secs_f64();
    report
}

// ------------------------------------------------------------------ part B: literals
fn explore_literals(cfg: &Cfg, rep: &Reporter, label: &str, kdefs: &[KeyDef], max_pairs: usize) -> MapReport {
    let t_all = std::time::Instant::now();
    let np = kdefs.len() * VALS.len();
    let mut offsets = vec![0usize];
    for n in 0..=max_pairs {
        offsets.push(offsets[n] + np.pow(n as u32));
    }
    let total = *offsets.last().unwrap();
    let stats = Mutex::new(MapReport::default());
    par_run(cfg.threads, total, 256, |_t, pull| {
        let base = mk_base();
        let al = Alpha::new(&base, kdefs);
        let mut ob = Obs::new(&base);
        let mut st = MapReport::default();
        while let Some(r) = pull() {
            for idx in r {
                let n = (0..=max_pairs).find(|n| idx < offsets[n + 1]).unwrap();
                let mut rest = idx - offsets[n];
                let mut pairs = vec![];
                for _ in 0..n {
                    let p = rest % np;
                    rest /= np;
                    pairs.push((p / VALS.len(), p % VALS.len()));
                }
                let mut src = String::from("{ ");
                for (k, v) in &pairs {
                    src.push_str(VALS[*v]);
                    src.push(' ');
                    src.push_str(&kdefs[*k].src);
                    src.push(' ');
                }
                src.push('}');
                let weight = wt((n as u64) * 1000 + src.len() as u64, &src);
                // the model: pairs inserted left to right; a key written twice keeps the last value written for it
                let mut expected = Model::new();
                let mut alt: BTreeMap<u8, Vec<u8>> = BTreeMap::new();
                for (k, v) in &pairs {
                    expected.insert(kdefs[*k].class, *v as u8);
                    // a literal is the sequence of its pairs inserted left to right: the last value written for a key stays
                    alt.insert(kdefs[*k].class, vec![*v as u8]);
                }
                if pairs.iter().enumerate().any(|(i, a)| pairs[..i].iter().any(|b| kdefs[b.0].class == kdefs[a.0].class && b.1 != a.1)) {
                    st.literals_dup += 1;
                }
                let tys: HashSet<&str> = pairs.iter().map(|p| kdefs[p.0].ty).collect();
                if tys.len() >= 2 {
                    st.literals_mixed += 1;
                }
                // two keys of the literal that collide across types
                let mut cross_now = None;
                'outer: for (i, a) in pairs.iter().enumerate() {
                    for b in &pairs[i + 1..] {
                        if cross_collide(&al, kdefs, a.0, b.0) {
                            cross_now = Some((a.0, b.0));
                            break 'outer;
                        }
                    }
                }
                let mut xs = base.clone();
                st.evals += 1;
                let r = ev(&mut xs, &src);
                let stack = take_stack(&mut xs);
                let hard: Option<(String, J)> = match r {
                    Err(p) => Some(("panic:map-literal".into(), jo(vec![("kind", js("map-literal")), ("program", js(src.clone())), ("panic", js(p))]))),
                    Ok(Err(e)) => Some(("map-op-error:literal".into(), jo(vec![("kind", js("map-literal")), ("program", js(src.clone())), ("error", js(err_kind(&e)))]))),
                    Ok(Ok(())) if stack.len() != 1 => Some(("map-op-error:literal".into(), jo(vec![("kind", js("map-literal")), ("program", js(src.clone())), ("stack_depth", ji(stack.len()))]))),
                    Ok(Ok(())) => None,
                };
                if let Some((key, case)) = hard {
                    st.pruned_own += 1;
                    rep.report_w(&key, weight, || case);
                    continue;
                }
                // the same literal written in another position denotes the same map: inside a meta
                // block, inside a definition, as a vector element — each over values that an earlier
                // source left on the stack, which must stay as they were
                for (pname, pre, suf) in [("meta-block", "#( ", " #)"), ("definition", ": lit12 ", " ; lit12"), ("vector-element", "[ ", " ] 0 get"), ("meta-block-in-definition", ": lit12 #( ", " #) ; lit12")] {
                    if pname.starts_with("meta") && src.contains("open-bitstr") {
                        continue; // a meta block works with constants only: no parsing words in it
                    }
                    let mut ys = base.clone();
                    let _ = ev(&mut ys, "100 200");
                    let psrc = format!("{}{}{}", pre, src, suf);
                    st.evals += 1;
                    let r = ev(&mut ys, &psrc);
                    let got = take_stack(&mut ys);
                    let ok = matches!(r, Ok(Ok(()))) && got.len() == 3 && render(&got[0]) == "i:100" && render(&got[1]) == "i:200" && render(&got[2]) == render(&stack[0]);
                    if !ok {
                        rep.report_w(&format!("map-literal-position:{}", pname), weight, || {
                            jo(vec![
                                ("kind", js("map-literal-position")),
                                ("sources_in_order", J::A(vec![js("100 200"), js(psrc.clone())])),
                                ("expected_stack", js(format!("[i:100, i:200, {}]", render(&stack[0])))),
                                ("observed", js(format!("{:?} stack {:?}", r.as_ref().map(|r| res_kind(r)), got.iter().map(render).collect::<Vec<_>>()))),
                            ])
                        });
                    }
                }
                let e0 = ob.evals;
                // a literal with colliding keys is a path with a collision on it: the tree may be out of order
                let v = judge(&mut ob, &al, kdefs, &stack[0], &expected, &alt, cross_now, cross_now.is_some());
                st.evals += ob.evals - e0;
                st.note(&v);
                if v.findings.iter().any(|f| f.key != CROSS_KEY) {
                    let again = eval_one(&base, &src).map(|m2| judge(&mut ob, &al, kdefs, &m2, &expected, &alt, cross_now, cross_now.is_some()));
                    let same_keys = again.map(|a| a.findings.iter().map(|f| f.key.clone()).collect::<Vec<_>>() == v.findings.iter().map(|f| f.key.clone()).collect::<Vec<_>>()).unwrap_or(false);
                    if !same_keys {
                        machinery_error(&format!("C12: violation of `{}` does not reproduce on re-execution", src));
                    }
                }
                for f in &v.findings {
                    rep.report_w(&f.key, weight, || finding_json("map-literal", &src, f, model_json(&expected, &al, kdefs), &stack[0]));
                }
            }
        }
        stats.lock().unwrap().merge(&st);
    });
    let mut report = MapReport { label: label.to_string(), keys: kdefs.len(), depth: max_pairs, ..Default::default() };
    let g = stats.into_inner().unwrap();
    report.merge(&g);
    report.literals = total as u64;
    report.wall_s = t_all.elapsed().as_secs_f64();
    report
}

// ------------------------------------------------------------------ equal? on the key alphabet
fn check_equality(rep: &Reporter, ev_: &mut Evidence, kdefs: &[KeyDef]) {
    let base = mk_base();
    let al = Alpha::new(&base, kdefs);
    let mut ob = Obs::new(&base);
    let mut n = 0u64;
    for i in 0..kdefs.len() {
        for j in 0..kdefs.len() {
            n += 1;
            let want = kdefs[i].class == kdefs[j].class;
            let src = format!("{} {} equal?", kdefs[i].src, kdefs[j].src);
            let r = ob.run(&[&al.keys[i], &al.keys[j]], "equal?", &[], "");
            let ok = matches!(&r, Ok(s) if s.len() == 1 && ((want && is_true(&s[0])) || (!want && is_false(&s[0]))));
            if !ok {
                rep.report_w("equal?-mismatch", wt(src.len() as u64, &src), || {
                    jo(vec![("kind", js("equal")), ("program", js(src.clone())), ("expected", J::B(want)), ("observed", js(format!("{:?}", r.map(|s| s.iter().map(render).collect::<Vec<_>>()))))])
                });
            }
        }
    }
    ev_.evaluations += n;
    ev_.traces += n;
    ev_.add(&format!("equal_pairs_checked_{}", kdefs.iter().map(|k| k.ty).collect::<std::collections::BTreeSet<_>>().into_iter().collect::<Vec<_>>().join("+")), ji(n));
}

// ------------------------------------------------------------------ part C: sequences
fn index_alphabet(len: usize, seed: u64) -> Vec<i128> {
    let l = len as i128;
    let mut v = vec![
        0,
        1,
        2,
        l - 1,
        l,
        l + 1,
        -1,
        -l,
        -l - 1,
        isize::MIN as i128,
        isize::MAX as i128,
        1i128 << 64,
        -(1i128 << 64),
        i128::MIN,
        i128::MAX,
    ];
    if seed != 0 {
        v.push((1i128 << 64) + (mix(seed, 7) % 4) as i128);
    }
    let mut out = vec![];
    for x in v {
        if !out.contains(&x) {
            out.push(x);
        }
    }
    out
}

fn is_extreme(i: i128) -> bool {
    i >= (1i128 << 62) || i <= -(1i128 << 62)
}
fn outside_isize(i: i128) -> bool {
    i > isize::MAX as i128 || i < isize::MIN as i128
}
fn idx_class(i: i128, len: usize) -> &'static str {
    let l = len as i128;
    if is_extreme(i) {
        if outside_isize(i) { "beyond-isize" } else { "isize-extreme" }
    } else if i >= 0 {
        if i < l { "in-range" } else { "past-end" }
    } else if -i <= l {
        "negative-in-range"
    } else {
        "negative-past-start"
    }
}

/// `nth`: relative for negatives
fn model_nth(len: usize, i: i128) -> Option<usize> {
    let l = len as i128;
    if i >= 0 {
        if i < l { Some(i as usize) } else { None }
    } else if -(i + 1) < l {
        // i in [-len, -1]
        Some((l + i) as usize)
    } else {
        None
    }
}
/// `get`: non-negative indices only
fn model_get(len: usize, i: i128) -> Option<usize> {
    if i >= 0 && i < len as i128 { Some(i as usize) } else { None }
}
/// `slice` bound: the clamping pinned by test_str_slice / test_vec_slice, extended to all integers
fn model_slice_bound(len: usize, i: i128) -> usize {
    let l = len as i128;
    if i < 0 {
        if i <= -l { 0 } else { (l + i) as usize }
    } else if i >= l {
        len
    } else {
        i as usize
    }
}
fn model_slice(len: usize, a: i128, b: i128) -> std::ops::Range<usize> {
    let s = model_slice_bound(len, a);
    let e = model_slice_bound(len, b);
    if e > s { s..e } else { s..s }
}

fn vec_cell(items: &[Cell]) -> Cell {
    let mut v = Xvec::new();
    for x in items {
        v.push_back_mut(x.clone());
    }
    Cell::Vector(v)
}

fn same(a: &Cell, b: &Cell) -> bool {
    a == b && render(a) == render(b)
}

struct SeqStats {
    cases: u64,
    evals: u64,
    nontrivial: u64,
    table: BTreeMap<String, u64>,
}

struct SeqCase<'a> {
    word: &'a str,
    program: String,
    weight: u64,
}

thread_local! {
    /// the recipe of the last `run_seq` of this worker, so that a violation can be re-executed before it is recorded
    static LAST_RUN: std::cell::RefCell<Option<(String, Vec<i128>, String)>> = std::cell::RefCell::new(None);
    static WORKER_BASE: std::cell::RefCell<Option<Xstate>> = std::cell::RefCell::new(None);
}

fn seq_report(rep: &Reporter, key: String, c: &SeqCase, expected: String, observed: String) {
    // a violation is re-executed before it is recorded: it must fail identically
    let last = LAST_RUN.with(|l| l.borrow().clone());
    if let Some((pre, ints, word)) = last {
        let again = WORKER_BASE.with(|b| {
            b.borrow().as_ref().map(|base| {
                let mut st = SeqStats { cases: 0, evals: 0, nontrivial: 0, table: BTreeMap::new() };
                show_stack(&run_seq(base, &pre, &ints, &word, &mut st))
            })
        });
        if let Some(a) = again {
            if a != observed {
                machinery_error(&format!("C12: violation of `{}` does not reproduce on re-execution ({} vs {})", c.program, observed, a));
            }
        }
    }
    let case = jo(vec![
        ("kind", js("sequence")),
        ("word", js(c.word)),
        ("program", js(c.program.clone())),
        ("note", js("integers in the program are injected with push_data as Cell::Int")),
        ("expected", js(expected)),
        ("observed", js(observed)),
    ]);
    rep.report_w(&key, wt(c.weight, &c.program), || case);
}

fn show_stack(r: &Result<(Xresult, Vec<Cell>), String>) -> String {
    match r {
        Err(p) => format!("panic: {}", p),
        Ok((Ok(()), st)) => format!("Ok {:?}", st.iter().map(render).collect::<Vec<_>>()),
        Ok((Err(e), _)) => format!("Err {}", err_kind(e)),
    }
}

/// run: eval(pre); push ints; eval(word)
fn run_seq(base: &Xstate, pre: &str, ints: &[i128], word: &str, st: &mut SeqStats) -> Result<(Xresult, Vec<Cell>), String> {
    LAST_RUN.with(|l| *l.borrow_mut() = Some((pre.to_string(), ints.to_vec(), word.to_string())));
    let mut xs = base.clone();
    st.evals += 1;
    match ev(&mut xs, pre)? {
        Ok(()) => {}
        Err(e) => return Ok((Err(e), vec![])),
    }
    for i in ints {
        xs.push_data(Cell::Int(*i)).unwrap();
    }
    st.evals += 1;
    let r = ev(&mut xs, word)?;
    let stack = take_stack(&mut xs);
    Ok((r, stack))
}

/// source recipes that build the same vector in different ways
fn vec_recipes(elems: &[&str]) -> Vec<String> {
    let n = elems.len();
    let lit = |it: &mut dyn Iterator<Item = &&str>| {
        let mut s = String::from("[ ");
        for e in it {
            s.push_str(e);
            s.push(' ');
        }
        s.push(']');
        s
    };
    let mut out = vec![lit(&mut elems.iter())];
    // push chain
    let mut s = String::from("[ ]");
    for e in elems {
        s = format!("{} {} swap push", s, e);
    }
    out.push(s);
    // collect
    let mut s = String::new();
    for e in elems {
        s.push_str(e);
        s.push(' ');
    }
    out.push(format!("{}{} collect", s, n));
    // reverse of the reversed literal
    out.push(format!("{} reverse", lit(&mut elems.iter().rev())));
    // slice out of a longer vector
    let mut longer = vec!["nil"];
    longer.extend(elems.iter().copied());
    longer.push("nil");
    out.push(format!("{} 1 {} slice", lit(&mut longer.iter()), n + 1));
    out
}

fn explore_sequences(cfg: &Cfg, rep: &Reporter, ev_: &mut Evidence, max_len: usize) {
    const ELEMS: &[&str] = &["1", "\"a\"", "2.5", "[ 7 ]"];
    const CHARS: &[char] = &['A', 'b', 'é', '1'];
    const JELEMS: &[&str] = &["\"a\"", "\"\"", "15", "[ \"d\" \"e\" ]"];
    const JTEXT: &[&str] = &["a", "", "15", "de"]; // concat rendering of JELEMS
    const JPARTS: &[&[&str]] = &[&["a"], &[""], &["15"], &["d", "e"]]; // flattened parts for join
    const SEPS: &[&str] = &["", "+", ", "];
    let na = ELEMS.len();
    let mut offsets = vec![0usize];
    for n in 0..=max_len {
        offsets.push(offsets[n] + na.pow(n as u32));
    }
    let total = *offsets.last().unwrap();
    let agg = Mutex::new(SeqStats { cases: 0, evals: 0, nontrivial: 0, table: BTreeMap::new() });
    let samples = Mutex::new(Vec::<J>::new());
    par_run(cfg.threads, total, 2, |_t, pull| {
        let base = mk_base();
        WORKER_BASE.with(|b| *b.borrow_mut() = Some(base.clone()));
        let ecells: Vec<Cell> = ELEMS.iter().map(|s| eval_one(&base, s).unwrap_or_else(|| machinery_error("C12: element literal"))).collect();
        let sentinel = eval_one(&base, "\"<bottom>\"").unwrap();
        let mut st = SeqStats { cases: 0, evals: 0, nontrivial: 0, table: BTreeMap::new() };
        while let Some(r) = pull() {
            for idx in r {
                let n = (0..=max_len).find(|n| idx < offsets[n + 1]).unwrap();
                let mut rest = idx - offsets[n];
                let mut digits = vec![];
                for _ in 0..n {
                    digits.push(rest % na);
                    rest /= na;
                }
                let esrc: Vec<&str> = digits.iter().map(|d| ELEMS[*d]).collect();
                let model: Vec<Cell> = digits.iter().map(|d| ecells[*d].clone()).collect();
                let mcell = vec_cell(&model);
                let recipes = vec_recipes(&esrc);
                let wbase = (n as u64) * 100_000;

                // ---- every recipe builds the same vector
                let mut recipe_ok: Vec<bool> = vec![];
                for (ri, rsrc) in recipes.iter().enumerate() {
                    st.cases += 1;
                    bump(&mut st.table, "build-recipe");
                    let c = SeqCase { word: "build", program: rsrc.clone(), weight: wbase + rsrc.len() as u64 };
                    let r = run_seq(&base, rsrc, &[], "", &mut st);
                    let ok = matches!(&r, Ok((Ok(()), s)) if s.len() == 1 && same(&s[0], &mcell));
                    recipe_ok.push(ok);
                    if !ok {
                        let key = if r.is_err() { format!("panic:build-recipe-{}", ri) } else { format!("seq-mismatch:build:recipe-{}", ri) };
                        seq_report(rep, key, &c, format!("Ok [{}]", render(&mcell)), show_stack(&r));
                    }
                }
                // a recipe that does not build the vector is reported above (one defect = one key); the word checks then
                // use the plain literal, and are skipped for this vector if even the literal fails
                let chosen = if n <= 1 { 0 } else { idx % recipes.len() };
                let chosen = if recipe_ok[chosen] { chosen } else { 0 };
                if !recipe_ok[chosen] {
                    bump(&mut st.table, "skipped:vector-literal-does-not-build");
                    continue;
                }
                let vsrc = &recipes[chosen];

                // ---- length, reverse, unbox (old handle kept with dup)
                for word in ["length", "reverse", "unbox"] {
                    st.cases += 1;
                    bump(&mut st.table, word);
                    let pre = format!("{} dup", vsrc);
                    let c = SeqCase { word, program: format!("{} {}", pre, word), weight: wbase + pre.len() as u64 };
                    let r = run_seq(&base, &pre, &[], word, &mut st);
                    let mut want = vec![mcell.clone()];
                    match word {
                        "length" => want.push(Cell::Int(n as i128)),
                        "reverse" => {
                            let mut m = model.clone();
                            m.reverse();
                            want.push(vec_cell(&m));
                        }
                        _ => want.extend(model.iter().cloned()),
                    }
                    check_exact(rep, &c, &r, &want, &mut st);
                }
                // ---- push
                for (ei, e) in ELEMS.iter().enumerate() {
                    st.cases += 1;
                    bump(&mut st.table, "push");
                    let pre = format!("{} dup {} swap", vsrc, e);
                    let c = SeqCase { word: "push", program: format!("{} push", pre), weight: wbase + pre.len() as u64 };
                    let r = run_seq(&base, &pre, &[], "push", &mut st);
                    let mut m = model.clone();
                    m.push(ecells[ei].clone());
                    check_exact(rep, &c, &r, &[mcell.clone(), vec_cell(&m)], &mut st);
                }
                // ---- nth / get for EVERY index of the alphabet
                let ia = index_alphabet(n, cfg.seed);
                for word in ["nth", "get"] {
                    for &i in &ia {
                        st.cases += 1;
                        let cls = idx_class(i, n);
                        bump(&mut st.table, &format!("{}:{}", word, cls));
                        if cls != "in-range" {
                            st.nontrivial += 1;
                        }
                        let pre = format!("{} dup", vsrc);
                        let c = SeqCase { word, program: format!("{} {} {}", pre, i, word), weight: wbase + pre.len() as u64 + if is_extreme(i) { 50 } else { 0 } };
                        let r = run_seq(&base, &pre, &[i], word, &mut st);
                        let mi = if word == "nth" { model_nth(n, i) } else { model_get(n, i) };
                        match (&r, mi) {
                            (Err(_), _) => seq_report(rep, format!("panic:{}", word), &c, "no panic".into(), show_stack(&r)),
                            (Ok((Ok(()), s)), Some(p)) => {
                                if !(s.len() == 2 && same(&s[1], &model[p])) {
                                    seq_report(rep, format!("seq-mismatch:{}:wrong-element", word), &c, format!("element {} = {}", p, render(&model[p])), show_stack(&r));
                                } else if !same(&s[0], &mcell) {
                                    seq_report(rep, format!("seq-old-handle-changed:{}", word), &c, render(&mcell), show_stack(&r));
                                }
                            }
                            (Ok((Err(_), _)), Some(p)) => seq_report(rep, format!("seq-mismatch:{}:valid-index-rejected", word), &c, format!("element {} = {}", p, render(&model[p])), show_stack(&r)),
                            (Ok((Ok(()), _)), None) => {
                                let key = if outside_isize(i) { format!("index-truncation:{}", word) } else { format!("seq-mismatch:{}:invalid-index-accepted", word) };
                                seq_report(rep, key, &c, "an out-of-range or type error".into(), show_stack(&r));
                            }
                            (Ok((Err(e), _)), None) => {
                                if is_limit_error(e, "insn limit") {
                                    seq_report(rep, format!("seq-mismatch:{}:runaway", word), &c, "an out-of-range or type error".into(), show_stack(&r));
                                }
                            }
                        }
                    }
                }
                // ---- slice for EVERY pair of indices
                for &a in &ia {
                    for &b in &ia {
                        st.cases += 1;
                        let extreme = is_extreme(a) || is_extreme(b);
                        bump(&mut st.table, if extreme { "slice:with-extreme-index" } else { "slice:small-indices" });
                        if idx_class(a, n) != "in-range" || idx_class(b, n) != "in-range" {
                            st.nontrivial += 1;
                        }
                        let pre = format!("{} dup", vsrc);
                        let c = SeqCase { word: "slice", program: format!("{} {} {} slice", pre, a, b), weight: wbase + pre.len() as u64 + if extreme { 50 } else { 0 } };
                        let r = run_seq(&base, &pre, &[a, b], "slice", &mut st);
                        let want = vec_cell(&model[model_slice(n, a, b)]);
                        check_slice(rep, &c, &r, &mcell, &want, a, b, &mut st);
                    }
                }
                // ---- collect for EVERY count of the alphabet (the stack holds a sentinel below the elements)
                let mut pre = String::from("\"<bottom>\" ");
                for e in &esrc {
                    pre.push_str(e);
                    pre.push(' ');
                }
                for &i in &index_alphabet(n + 1, cfg.seed) {
                    st.cases += 1;
                    let depth = n as i128 + 1;
                    let cls = if is_extreme(i) { "extreme" } else if i < 0 { "negative" } else if i <= depth { "valid" } else { "more-than-depth" };
                    bump(&mut st.table, &format!("collect:{}", cls));
                    let c = SeqCase { word: "collect", program: format!("{}{} collect", pre, i), weight: wbase + pre.len() as u64 + if is_extreme(i) { 50 } else { 0 } };
                    let r = run_seq(&base, &pre, &[i], "collect", &mut st);
                    let mut full = vec![sentinel.clone()];
                    full.extend(model.iter().cloned());
                    if i >= 0 && i <= depth {
                        let k = full.len() - i as usize;
                        let mut want: Vec<Cell> = full[..k].to_vec();
                        want.push(vec_cell(&full[k..]));
                        check_exact(rep, &c, &r, &want, &mut st);
                    } else {
                        match &r {
                            Err(_) => seq_report(rep, "panic:collect".into(), &c, "no panic".into(), show_stack(&r)),
                            Ok((Ok(()), _)) => {
                                let key = if outside_isize(i) || i > usize::MAX as i128 { "index-truncation:collect".to_string() } else { "seq-mismatch:collect:invalid-count-accepted".to_string() };
                                seq_report(rep, key, &c, "an error (count exceeds the stack depth or is negative)".into(), show_stack(&r));
                            }
                            Ok((Err(_), _)) => {}
                        }
                    }
                }

                // ---- strings: same index space, characters instead of elements
                let text: String = digits.iter().map(|d| CHARS[*d]).collect();
                let chars: Vec<char> = text.chars().collect();
                let ssrc = format!("\"{}\"", text);
                {
                    st.cases += 1;
                    bump(&mut st.table, "str-length");
                    let c = SeqCase { word: "length", program: format!("{} length", ssrc), weight: wbase + ssrc.len() as u64 };
                    let r = run_seq(&base, &ssrc, &[], "length", &mut st);
                    // characters or bytes: the property does not say which; both are accepted
                    let ok = matches!(&r, Ok((Ok(()), s)) if s.len() == 1 && (matches!(s[0], Cell::Int(x) if x == chars.len() as i128 || x == text.len() as i128)));
                    if !ok {
                        let key = if r.is_err() { "panic:length".to_string() } else { "seq-mismatch:length:string".to_string() };
                        seq_report(rep, key, &c, format!("{} (characters) or {} (bytes)", chars.len(), text.len()), show_stack(&r));
                    }
                }
                for &a in &ia {
                    for &b in &ia {
                        st.cases += 1;
                        let extreme = is_extreme(a) || is_extreme(b);
                        bump(&mut st.table, if extreme { "str-slice:with-extreme-index" } else { "str-slice:small-indices" });
                        let pre = format!("{} dup", ssrc);
                        let c = SeqCase { word: "slice", program: format!("{} {} {} slice", pre, a, b), weight: wbase + pre.len() as u64 + 10 + if extreme { 50 } else { 0 } };
                        let r = run_seq(&base, &pre, &[a, b], "slice", &mut st);
                        let want: String = chars[model_slice(n, a, b)].iter().collect();
                        check_slice(rep, &c, &r, &Cell::from(text.clone()), &Cell::from(want), a, b, &mut st);
                    }
                }
                // ---- concat / join over string-like elements
                let jsrc = {
                    let mut s = String::from("[ ");
                    for d in &digits {
                        s.push_str(JELEMS[*d]);
                        s.push(' ');
                    }
                    s.push(']');
                    s
                };
                {
                    st.cases += 1;
                    bump(&mut st.table, "concat");
                    let want: String = digits.iter().map(|d| JTEXT[*d]).collect();
                    let c = SeqCase { word: "concat", program: format!("{} concat", jsrc), weight: wbase + jsrc.len() as u64 };
                    let r = run_seq(&base, &jsrc, &[], "concat", &mut st);
                    check_exact(rep, &c, &r, &[Cell::from(want)], &mut st);
                }
                for sep in SEPS {
                    st.cases += 1;
                    bump(&mut st.table, "join");
                    let parts: Vec<&str> = digits.iter().flat_map(|d| JPARTS[*d].iter().copied()).collect();
                    let want = parts.join(sep);
                    let pre = format!("{} \"{}\"", jsrc, sep);
                    let c = SeqCase { word: "join", program: format!("{} join", pre), weight: wbase + pre.len() as u64 };
                    let r = run_seq(&base, &pre, &[], "join", &mut st);
                    check_exact(rep, &c, &r, &[Cell::from(want)], &mut st);
                }
                if idx % 97 == 5 {
                    let mut g = samples.lock().unwrap();
                    if g.len() < 4 {
                        g.push(jo(vec![("kind", js("sequence")), ("vector", js(vsrc.clone())), ("string", js(ssrc.clone())), ("indices", J::A(ia.iter().map(|i| js(i.to_string())).collect()))]));
                    }
                }
            }
        }
        let mut g = agg.lock().unwrap();
        g.cases += st.cases;
        g.evals += st.evals;
        g.nontrivial += st.nontrivial;
        for (k, v) in &st.table {
            *g.table.entry(k.clone()).or_insert(0) += v;
        }
    });
    let g = agg.into_inner().unwrap();
    for s in samples.into_inner().unwrap() {
        ev_.sample(s);
    }
    ev_.states += total as u64;
    ev_.transitions += g.cases;
    ev_.traces += g.cases;
    ev_.evaluations += g.evals;
    ev_.nontrivial += g.nontrivial;
    for need in ["nth:in-range", "nth:negative-in-range", "nth:negative-past-start", "nth:past-end", "nth:beyond-isize", "nth:isize-extreme", "get:in-range", "get:past-end", "get:beyond-isize", "slice:with-extreme-index", "slice:small-indices", "str-slice:small-indices", "collect:valid", "collect:extreme", "collect:more-than-depth", "push", "reverse", "unbox", "length", "concat", "join"] {
        if g.table.get(need).copied().unwrap_or(0) == 0 {
            vacuous(&format!("vacuous: C12 sequence sweep never exercised {}", need));
        }
    }
    ev_.add("sequence_sweep", jo(vec![("max_length", ji(max_len)), ("vectors", ji(total)), ("strings", ji(total)), ("cases", ji(g.cases)), ("element_alphabet", J::A(ELEMS.iter().map(|s| js(*s)).collect())), ("per_word_and_index_class", jmap(&g.table))]));
}

fn check_exact(rep: &Reporter, c: &SeqCase, r: &Result<(Xresult, Vec<Cell>), String>, want: &[Cell], _st: &mut SeqStats) {
    let ok = matches!(r, Ok((Ok(()), s)) if s.len() == want.len() && s.iter().zip(want.iter()).all(|(a, b)| same(a, b)));
    if ok {
        return;
    }
    let key = match r {
        Err(_) => format!("panic:{}", c.word),
        Ok((Ok(()), s)) if !s.is_empty() && !want.is_empty() && c.program.contains(" dup") && !same(&s[0], &want[0]) && s.len() == want.len() && s[1..].iter().zip(want[1..].iter()).all(|(a, b)| same(a, b)) => {
            format!("seq-old-handle-changed:{}", c.word)
        }
        _ => format!("seq-mismatch:{}:result", c.word),
    };
    seq_report(rep, key, c, format!("Ok {:?}", want.iter().map(render).collect::<Vec<_>>()), show_stack(r));
}

fn check_slice(rep: &Reporter, c: &SeqCase, r: &Result<(Xresult, Vec<Cell>), String>, whole: &Cell, want: &Cell, a: i128, b: i128, _st: &mut SeqStats) {
    let extreme = is_extreme(a) || is_extreme(b);
    let beyond = outside_isize(a) || outside_isize(b);
    match r {
        Err(_) => seq_report(rep, "panic:slice".into(), c, format!("Ok [{}]", render(want)), show_stack(r)),
        Ok((Ok(()), s)) => {
            if s.len() == 2 && same(&s[1], want) {
                if !same(&s[0], whole) {
                    seq_report(rep, "seq-old-handle-changed:slice".into(), c, render(whole), show_stack(r));
                }
            } else {
                let key = if beyond { "index-truncation:slice" } else { "seq-mismatch:slice:result" };
                seq_report(rep, key.into(), c, format!("{}{}", render(want), if extreme { " (or an out-of-range error)" } else { "" }), show_stack(r));
            }
        }
        Ok((Err(e), _)) => {
            // an index of astronomic size may be refused instead of clamped; small ones are pinned to clamp
            if !extreme || is_limit_error(e, "insn limit") {
                seq_report(rep, "seq-mismatch:slice:rejected".into(), c, render(want), show_stack(r));
            }
        }
    }
}

// ------------------------------------------------------------------ part D: sort
fn explore_sort(cfg: &Cfg, rep: &Reporter, ev_: &mut Evidence, max_len: usize) {
    const FAMS: &[(&str, &[&str])] = &[
        ("int", &["3", "-1", "0", "1180591620717411303424", "-1 ^{ \"t\" \"k\" ^}"]),
        ("int-all-tagged-or-formatted", &["3 ^hex", "-1", "255 ^hex", "16", "0 ^{ \"t\" \"k\" ^}"]),
        ("real", &["2.5", "-1.5", "0.0", "1.0e300", "-0.0"]),
        ("str", &["\"b\"", "\"a\"", "\"\"", "\"ab\"", "\"B\""]),
    ];
    let na = 5usize;
    let mut offsets = vec![0usize];
    for n in 0..=max_len {
        offsets.push(offsets[n] + na.pow(n as u32));
    }
    let per_fam = *offsets.last().unwrap();
    let total = per_fam * FAMS.len();
    let evals = AtomicU64::new(0);
    let nontriv = AtomicU64::new(0);
    par_run(cfg.threads, total, 64, |_t, pull| {
        let base = mk_base();
        WORKER_BASE.with(|b| *b.borrow_mut() = Some(base.clone()));
        let cells: Vec<Vec<Cell>> = FAMS.iter().map(|(_, e)| e.iter().map(|s| eval_one(&base, s).unwrap_or_else(|| machinery_error(&format!("C12: sort element literal {}", s)))).collect()).collect();
        let mut st = SeqStats { cases: 0, evals: 0, nontrivial: 0, table: BTreeMap::new() };
        while let Some(r) = pull() {
            for idx in r {
                let fam = idx / per_fam;
                let li = idx % per_fam;
                let n = (0..=max_len).find(|n| li < offsets[n + 1]).unwrap();
                let mut rest = li - offsets[n];
                let mut digits = vec![];
                for _ in 0..n {
                    digits.push(rest % na);
                    rest /= na;
                }
                let mut src = String::from("[ ");
                for d in &digits {
                    src.push_str(FAMS[fam].1[*d]);
                    src.push(' ');
                }
                src.push(']');
                let model: Vec<Cell> = digits.iter().map(|d| cells[fam][*d].clone()).collect();
                let pre = format!("{} dup", src);
                let c = SeqCase { word: "sort", program: format!("{} sort", pre), weight: (n as u64) * 100_000 + pre.len() as u64 };
                let r = run_seq(&base, &pre, &[], "sort", &mut st);
                let le = |a: &Cell, b: &Cell| -> bool {
                    match (a.value(), b.value()) {
                        (Cell::Int(x), Cell::Int(y)) => x <= y,
                        (Cell::Real(x), Cell::Real(y)) => x <= y,
                        (Cell::Str(x), Cell::Str(y)) => x.as_str() <= y.as_str(),
                        _ => false,
                    }
                };
                let unsorted = model.windows(2).any(|w| !le(&w[0], &w[1]));
                if unsorted {
                    st.nontrivial += 1;
                }
                let mut why = String::new();
                match &r {
                    Err(_) => why = "panic".into(),
                    Ok((Err(_), _)) => why = "error".into(),
                    Ok((Ok(()), s)) => {
                        if s.len() != 2 {
                            why = "stack depth".into();
                        } else if !same(&s[0], &vec_cell(&model)) {
                            why = "old handle changed".into();
                        } else if let Cell::Vector(out) = s[1].value() {
                            let out: Vec<Cell> = out.iter().cloned().collect();
                            if out.len() != model.len() {
                                why = "length differs".into();
                            } else if out.windows(2).any(|w| !le(&w[0], &w[1])) {
                                why = "not ascending".into();
                            } else {
                                // permutation of the very elements that went in: equal under the language's equality
                                // AND carrying the same tags
                                let mut left = model.clone();
                                for x in &out {
                                    match left.iter().position(|y| same(y, x)) {
                                        Some(p) => {
                                            left.swap_remove(p);
                                        }
                                        None => why = "not a permutation".into(),
                                    }
                                }
                            }
                        } else {
                            why = "result is not a vector".into();
                        }
                    }
                }
                if !why.is_empty() {
                    let key = if why == "panic" { "panic:sort".to_string() } else if why == "old handle changed" { "seq-old-handle-changed:sort".to_string() } else { format!("sort-mismatch:{}", FAMS[fam].0) };
                    seq_report(rep, key, &c, format!("the old vector and an ascending permutation of it ({})", why), show_stack(&r));
                }
            }
        }
        evals.fetch_add(st.evals, Ordering::Relaxed);
        nontriv.fetch_add(st.nontrivial, Ordering::Relaxed);
    });
    ev_.states += total as u64;
    ev_.transitions += total as u64;
    ev_.traces += total as u64;
    ev_.evaluations += evals.load(Ordering::Relaxed);
    ev_.nontrivial += nontriv.load(Ordering::Relaxed);
    if nontriv.load(Ordering::Relaxed) == 0 {
        vacuous("vacuous: C12 sort sweep has no unsorted input");
    }
    ev_.add("sort_sweep", jo(vec![("max_length", ji(max_len)), ("lists", ji(total)), ("unsorted_inputs", ji(nontriv.load(Ordering::Relaxed))), ("families", J::A(FAMS.iter().map(|(n, e)| jo(vec![("type", js(*n)), ("elements", J::A(e.iter().map(|s| js(*s)).collect()))])).collect()))]));
}

// ------------------------------------------------------------------ entry
pub fn run(cfg: &Cfg) -> i32 {
    let rep = Reporter::new("C12");
    let mut ev_ = Evidence::new("C12", cfg);
    let kdefs = key_alphabet(cfg.seed);
    let env_usize = |name: &str, dflt: usize| std::env::var(name).ok().and_then(|s| s.parse().ok()).unwrap_or(dflt);
    let depth = env_usize("VERIF_C12_DEPTH", if cfg.quick() { 4 } else { 5 });
    let lit_pairs = env_usize("VERIF_C12_PAIRS", if cfg.quick() { 3 } else { 4 });
    let vec_len = env_usize("VERIF_C12_LEN", if cfg.quick() { 4 } else { 5 });
    let sort_len = env_usize("VERIF_C12_SORTLEN", if cfg.quick() { 4 } else { 6 });
    ev_.rule = "non-trivial = map states of a key family holding two or more keys, mixed-alphabet map states / literals whose keys are of two or more types, index cases whose index is not a plain in-range one (negative, past the end, isize / i128 extremes), unsorted sort inputs; all counted cases are distinct (canonical model states, distinct literals, distinct (vector, word, index) triples)".into();
    ev_.add("key_alphabet", J::A(kdefs.iter().map(|k| jo(vec![("literal", js(k.src.clone())), ("type", js(k.ty)), ("equality_class", ji(k.class as i64))])).collect()));
    ev_.add("value_alphabet", J::A(VALS.iter().map(|s| js(*s)).collect()));
    let only = std::env::var("VERIF_C12_ONLY").ok();
    let want = |p: &str| only.as_deref().map(|o| o == p).unwrap_or(true);
    let t0 = std::time::Instant::now();
    if want("equal") {
        check_equality(&rep, &mut ev_, &kdefs);
        // ... and inside every single-type family (more members per type, incl. slices that hold
        // the same bits in differently filled buffers)
        for (_, fk) in key_families() {
            check_equality(&rep, &mut ev_, &fk);
        }
    }
    if want("bfs") || want("literals") || want("maps") {
        // (1) one exploration per single-type key family: no cross-type collision can occur inside a family,
        //     so these run to their full depth and must be violation-free
        let fam_depth = env_usize("VERIF_C12_FAMILY_DEPTH", if cfg.quick() { 6 } else { 7 });
        let mut fam_reports = vec![];
        for (name, fk) in key_families() {
            let label = format!("family:{}", name);
            let r = explore_maps(cfg, &rep, &label, &fk, fam_depth, 0, 0);
            let l = explore_literals(cfg, &rep, &label, &fk, lit_pairs);
            if r.resynced + r.probe_only + r.unrepresentable + l.resynced + l.probe_only + l.unrepresentable > 0 {
                // a cross-type collision inside a single-type family would mean the family is not single-type
                machinery_error(&format!("C12: key family {} met a cross-type collision", name));
            }
            if (r.states < 3 && r.pruned_own == 0) || r.transitions == 0 || l.literals == 0 {
                vacuous(&format!("vacuous: C12 key family {} explored nothing", name));
            }
            ev_.states += r.states + l.literals;
            ev_.transitions += r.transitions + l.literals;
            ev_.traces += r.transitions + l.literals;
            ev_.evaluations += r.evals + l.evals;
            ev_.nontrivial += r.states.saturating_sub(1 + r.classes as u64 * 2);
            fam_reports.push((label, r, l));
        }
        let (fs, ft, fl): (u64, u64, u64) = fam_reports.iter().fold((0, 0, 0), |a, (_, r, l)| (a.0 + r.states, a.1 + r.transitions, a.2 + l.literals));
        println!("C12 map families: {} families, {} states, {} transitions, {} literals, {:.1}s", fam_reports.len(), fs, ft, fl, t0.elapsed().as_secs_f64());
        ev_.add("map_families", J::A(fam_reports.iter().map(|(n, r, l)| jo(vec![("alphabet", js(n.clone())), ("bfs", r.json_bfs()), ("literals", l.json_lit())])).collect()));
        ev_.add("map_families_total", jo(vec![("families", ji(fam_reports.len())), ("states", ji(fs)), ("transitions", ji(ft)), ("literals", ji(fl))]));
        // (2) the mixed-type alphabet of DESIGN.md; divergences caused by the open cross-type collision are filed
        //     under it and the search continues from the implementation's observed content. While that finding
        //     is open few mixed states exist, so up to 3 more levels are explored within a fixed state budget.
        let budget = env_usize("VERIF_C12_BUDGET", if cfg.quick() { 3_000 } else { 20_000 });
        let r = explore_maps(cfg, &rep, "mixed", &kdefs, depth, 3, budget);
        println!("C12 map BFS (mixed types): depth {} done, {} states, {} transitions, {} re-synchronised, {:.1}s", r.depth, r.states, r.transitions, r.resynced, t0.elapsed().as_secs_f64());
        let l = explore_literals(cfg, &rep, "mixed", &kdefs, lit_pairs);
        println!("C12 map literals (mixed types): <= {} pairs done, {:.1}s", lit_pairs, t0.elapsed().as_secs_f64());
        ev_.states += r.states + l.literals;
        ev_.transitions += r.transitions + l.literals;
        ev_.traces += r.transitions + l.literals;
        ev_.evaluations += r.evals + l.evals;
        ev_.nontrivial += r.mixed_states + l.literals_mixed;
        if lit_pairs >= 2 && l.literals_mixed == 0 {
            vacuous("vacuous: C12 literal sweep has no literal with keys of two types");
        }
        ev_.add("map_mixed", jo(vec![("alphabet", js("mixed")), ("nominal_max_sequence_length", ji(depth)), ("extra_levels_state_budget", ji(budget)), ("bfs", r.json_bfs()), ("literals", l.json_lit())]));
    }
    if want("seq") {
        explore_sequences(cfg, &rep, &mut ev_, vec_len);
        println!("C12 sequences: length <= {} done, {:.1}s", vec_len, t0.elapsed().as_secs_f64());
    }
    if want("sort") {
        explore_sort(cfg, &rep, &mut ev_, sort_len);
        println!("C12 sort: length <= {} done, {:.1}s", sort_len, t0.elapsed().as_secs_f64());
    }
    if only.is_some() {
        ev_.cap(format!("VERIF_C12_ONLY={} restricts the run to one part", only.unwrap()));
    }
    ev_.sample(jo(vec![("kind", js("map-bfs")), ("program", js("{ } dup 10 1 insert dup \"v\" \"a\" insert")), ("checked", js("get of all keys, foreach pairs, equal? with `{ 10 1 \"v\" \"a\" }` both ways, old handle unchanged"))]));
    ev_.assumptions = vec![
        "key identity = typed, tag-blind equality (Int 1, Real 1.0 and Str \"1\" are three keys; a tagged 1 is the key 1)".into(),
        "a map literal is the sequence of its pairs inserted left to right (a key written twice keeps the last value)".into(),
        "string `length` may count characters or bytes; `slice` on strings counts characters".into(),
        "`slice` clamps (pinned by test_str_slice / test_vec_slice); an index of magnitude >= 2^62 may be refused with an error instead".into(),
        "`join` is checked on vectors without empty nested vectors (separator placement around them is not stated)".into(),
        "a divergence is filed under the open finding map-key-collision:cross-type only when two keys that differ in type and compare Equal in the implementation's key order are involved (operation key against an entry, probe key against an entry, two keys of one literal), or when an earlier step of the same path had such a collision (it leaves the tree out of order, so later lookups may go astray); every other divergence keeps its own key".into(),
        "after a cross-type collision the search continues from the implementation's observed content (foreach) as the model state; map equality against a rebuilt literal is skipped for such states (counted)".into(),
        "a state reached through a violation outside the open finding is not expanded".into(),
    ];
    conclude(&ev_, &rep)
}
