// C07 — binary construction is the inverse of binary parsing.
//
// Exhaustive product: every list of up to k elements over a field alphabet (integers of many
// widths / signedness / byte-order modes, floats, raw bit-strings incl. slices of a dropped
// parent, strings, byte lists, and the byte-order switches `big` / `little` as list elements).
// For each list one record is packed in three ways on the real interpreter:
//   (i)   `[ f1 f2 .. ] >bitstr`
//   (ii)  `f1 f2 swap bitstr-append f3 swap bitstr-append ..`
//   (iii) `emit`, under every one of the 2^(m-1) groupings of the m data fields into emit calls,
//         with output interception on
// and parsed back with the matching read words in the same order.
// Reference model (Rust, independent): widths, offsets, the expected value of every field
// (two's complement reduction per width / signedness, bit-exact floats), the expected bits of the
// record = concatenation (Vec<bool>) of the bits of each field; the bits of one integer / float
// field are taken from the implementation packing that field alone (the property leaves the
// layout of odd-width little-endian integers open) and cross-checked against the Rust model
// wherever the layout is defined (big-endian any width, little-endian whole bytes, floats).
use crate::common::*;
use std::collections::{BTreeMap, HashMap};
use std::sync::atomic::{AtomicU64, Ordering};
use std::sync::Mutex;
use xeh::prelude::*;

#[derive(Clone, Copy, PartialEq, Eq, Debug, Hash)]
enum Mode {
    Cur, // the byte order in force (`big` / `little`)
    Le,
    Be,
}

#[derive(Clone, Debug, PartialEq)]
enum El {
    Big,
    Little,
    IntGen { w: usize, signed: bool, v: i128 },             // `v w int!` .. `w int`
    IntFix { w: usize, signed: bool, mode: Mode, v: i128 }, // `v u16le!` .. `u16le`
    FloatFix { w: usize, mode: Mode, v: f64 },              // `v f32be!` .. `f32be`
    FloatGen { w: usize, v: f64 },                          // `v 32 float!` .. `32 float`
    RawLit(Vec<bool>),                                      // `|x..x|` .. `n bits`
    RawSlice { k: usize, n: usize },                        // n bits read at offset k of a computed parent that is then dropped
    Str(&'static str),                                      // `"a" >bitstr` .. `n bytes bitstr>utf8`
    Bytes(Vec<u8>),                                         // `[ 0 255 ] >bitstr` .. `n bytes`
    Byte(u8),                                               // a bare integer 0..255 directly in the vector handed to `>bitstr` .. `1 bytes`
    TByte(u8),                                              // the same, the integer carrying tags (as every value read from an input does)
}

const PARENT: [u8; 3] = [0xa5, 0x3c, 0x96];
const PAT: u128 = 0x9A3C_5E7F_1B2D_4C68_A7F3_E1D2_C4B5_9687;

#[derive(Clone, Debug, PartialEq)]
enum Val {
    Int(i128),
    Real(u64),
    Bits(Vec<bool>),
    Str(String),
}

fn mask(w: usize) -> u128 {
    if w >= 128 {
        u128::MAX
    } else {
        (1u128 << w) - 1
    }
}
fn reduce(v: i128, w: usize, signed: bool) -> i128 {
    let u = (v as u128) & mask(w);
    if signed && w < 128 && (u >> (w - 1)) & 1 == 1 {
        (u | !mask(w)) as i128 // sign extension
    } else {
        u as i128
    }
}
fn bytes_bits(b: &[u8]) -> Vec<bool> {
    b.iter().flat_map(|x| (0..8).rev().map(move |i| (x >> i) & 1 == 1)).collect()
}
fn bits_str(b: &[bool]) -> String {
    b.iter().map(|x| if *x { 'x' } else { '.' }).collect()
}
/// source text of a raw literal: single-bit characters, or (lengths 4k+1, k >= 1) one single-bit
/// character followed by hex digits, so that digits start at bits 1, 5, 9 ... and straddle bytes
fn lit_src(b: &[bool]) -> String {
    if b.len() >= 5 && b.len() % 4 == 1 {
        let mut s = String::from(if b[0] { "x " } else { ". " });
        for c in b[1..].chunks(4) {
            let v = c.iter().fold(0u32, |a, x| (a << 1) | *x as u32);
            s.push(char::from_digit(v, 16).unwrap());
        }
        s
    } else {
        bits_str(b)
    }
}
fn real_src(v: f64) -> String {
    if v.is_infinite() {
        if v > 0.0 { "1.0e400".into() } else { "-1.0e400".into() }
    } else if v == 0.0 && v.is_sign_negative() {
        "-0.0".into()
    } else {
        let s = format!("{}", v);
        if s.contains('.') { s } else { format!("{}.0", s) }
    }
}

impl El {
    fn is_switch(&self) -> bool {
        matches!(self, El::Big | El::Little)
    }
    fn kind(&self) -> &'static str {
        match self {
            El::Big | El::Little => "switch",
            El::IntGen { .. } => "int-generic",
            El::IntFix { .. } => "int-fixed",
            El::FloatFix { .. } => "float-fixed",
            El::FloatGen { .. } => "float-generic",
            El::RawLit(_) => "raw-literal",
            El::RawSlice { .. } => "raw-slice",
            El::Str(_) => "string",
            El::Bytes(_) => "byte-list",
            El::Byte(_) => "bare-byte",
            El::TByte(_) => "tagged-byte",
        }
    }
    fn width(&self) -> usize {
        match self {
            El::Big | El::Little => 0,
            El::IntGen { w, .. } | El::IntFix { w, .. } | El::FloatFix { w, .. } | El::FloatGen { w, .. } => *w,
            El::RawLit(b) => b.len(),
            El::RawSlice { n, .. } => *n,
            El::Str(s) => s.len() * 8,
            El::Bytes(b) => b.len() * 8,
            El::Byte(_) | El::TByte(_) => 8,
        }
    }
    /// byte order mode of a numeric field (None for the rest)
    fn mode(&self) -> Option<Mode> {
        match self {
            El::IntGen { .. } | El::FloatGen { .. } => Some(Mode::Cur),
            El::IntFix { mode, .. } | El::FloatFix { mode, .. } => Some(*mode),
            _ => None,
        }
    }
    fn is_int(&self) -> bool {
        matches!(self, El::IntGen { .. } | El::IntFix { .. })
    }
    fn sfx(mode: Mode) -> &'static str {
        match mode {
            Mode::Cur => "",
            Mode::Le => "le",
            Mode::Be => "be",
        }
    }
    /// source text that leaves the packed field on the stack as a bit-string
    fn pack_src(&self) -> String {
        match self {
            El::Big => "big".into(),
            El::Little => "little".into(),
            El::IntGen { w, signed, v } => format!("{} {} {}", v, w, if *signed { "int!" } else { "uint!" }),
            El::IntFix { w, signed, mode, v } => format!("{} {}{}{}!", v, if *signed { "i" } else { "u" }, w, El::sfx(*mode)),
            El::FloatFix { w, mode, v } => format!("{} f{}{}!", real_src(*v), w, El::sfx(*mode)),
            El::FloatGen { w, v } => format!("{} {} float!", real_src(*v), w),
            El::RawLit(b) => format!("|{}|", lit_src(b)),
            El::RawSlice { k, n } => format!("[ {} ] >bitstr open-bitstr {} bits drop {} bits close-bitstr", PARENT.iter().map(|b| format!("{}", b)).collect::<Vec<_>>().join(" "), k, n),
            El::Str(s) => format!("\"{}\" >bitstr", s),
            El::Bytes(b) => format!("[ {}] >bitstr", b.iter().map(|x| format!("{} ", x)).collect::<String>()),
            El::Byte(b) => format!("[ {} ] >bitstr", b),
            El::TByte(b) => format!("[ {} ^hex ] >bitstr", b),
        }
    }
    /// the element as a member of a vector handed to `>bitstr` (strings and byte lists stay bare)
    fn vec_src(&self) -> String {
        match self {
            El::Str(s) => format!("\"{}\"", s),
            El::Bytes(b) => format!("[ {}]", b.iter().map(|x| format!("{} ", x)).collect::<String>()),
            El::Byte(b) => format!("{}", b),
            El::TByte(b) => format!("{} ^hex", b),
            other => other.pack_src(),
        }
    }
    fn read_src(&self) -> String {
        match self {
            El::Big => "big".into(),
            El::Little => "little".into(),
            El::IntGen { w, signed, .. } => format!("{} {}", w, if *signed { "int" } else { "uint" }),
            El::IntFix { w, signed, mode, .. } => format!("{}{}{}", if *signed { "i" } else { "u" }, w, El::sfx(*mode)),
            El::FloatFix { w, mode, .. } => format!("f{}{}", w, El::sfx(*mode)),
            El::FloatGen { w, .. } => format!("{} float", w),
            El::RawLit(b) => format!("{} bits", b.len()),
            El::RawSlice { n, .. } => format!("{} bits", n),
            El::Str(s) => format!("{} bytes bitstr>utf8", s.len()),
            El::Bytes(b) => format!("{} bytes", b.len()),
            El::Byte(_) | El::TByte(_) => "1 bytes".into(),
        }
    }
    fn expect_val(&self) -> Option<Val> {
        Some(match self {
            El::Big | El::Little => return None,
            El::IntGen { w, signed, v } | El::IntFix { w, signed, v, .. } => Val::Int(reduce(*v, *w, *signed)),
            El::FloatFix { w, v, .. } | El::FloatGen { w, v } => Val::Real(if *w == 32 { ((*v as f32) as f64).to_bits() } else { v.to_bits() }),
            El::RawLit(b) => Val::Bits(b.clone()),
            El::RawSlice { k, n } => Val::Bits(bytes_bits(&PARENT)[*k..*k + *n].to_vec()),
            El::Str(s) => Val::Str(s.to_string()),
            El::Bytes(b) => Val::Bits(bytes_bits(b)),
            El::Byte(b) | El::TByte(b) => Val::Bits(bytes_bits(&[*b])),
        })
    }
    /// bits of the field where the layout is defined without looking at the implementation
    fn model_bits(&self, big: bool) -> Option<Vec<bool>> {
        match self {
            El::Big | El::Little => Some(vec![]),
            El::IntGen { w, v, .. } | El::IntFix { w, v, .. } => {
                let be = match self.mode().unwrap() {
                    Mode::Cur => big,
                    Mode::Le => false,
                    Mode::Be => true,
                };
                let u = (*v as u128) & mask(*w);
                if be || *w <= 8 {
                    Some((0..*w).rev().map(|i| (u >> i) & 1 == 1).collect())
                } else if *w % 8 == 0 {
                    Some(bytes_bits(&u.to_le_bytes()[..*w / 8]))
                } else {
                    None // odd-width little-endian: layout left open by the property
                }
            }
            El::FloatFix { w, v, .. } | El::FloatGen { w, v } => {
                let be = match self.mode().unwrap() {
                    Mode::Cur => big,
                    Mode::Le => false,
                    Mode::Be => true,
                };
                Some(if *w == 32 {
                    let f = *v as f32;
                    bytes_bits(&if be { f.to_be_bytes() } else { f.to_le_bytes() })
                } else {
                    bytes_bits(&if be { v.to_be_bytes() } else { v.to_le_bytes() })
                })
            }
            El::RawLit(b) => Some(b.clone()),
            El::RawSlice { k, n } => Some(bytes_bits(&PARENT)[*k..*k + *n].to_vec()),
            El::Str(s) => Some(bytes_bits(s.as_bytes())),
            El::Bytes(b) => Some(bytes_bits(b)),
            El::Byte(b) | El::TByte(b) => Some(bytes_bits(&[*b])),
        }
    }
}

const WIDTHS: [usize; 15] = [1, 3, 4, 7, 8, 9, 12, 16, 24, 31, 32, 33, 64, 127, 128];

fn upat(w: usize) -> i128 {
    (PAT >> (128 - w)) as i128 // top bit of the field is set
}
fn spat(w: usize) -> i128 {
    reduce(upat(w), w, true)
}
fn smax(w: usize) -> i128 {
    if w == 128 { i128::MAX } else { (1i128 << (w - 1)) - 1 }
}
fn smin(w: usize) -> i128 {
    if w == 128 { i128::MIN } else { -(1i128 << (w - 1)) }
}
fn umax(w: usize) -> i128 {
    mask(w) as i128 // w <= 127
}

/// (full alphabet, indices of the quick sub-alphabet, indices of the reduced sub-alphabet)
fn alphabets(seed: u64) -> (Vec<El>, Vec<usize>, Vec<usize>) {
    let mut full: Vec<El> = vec![El::Big, El::Little];
    let mut quick: Vec<usize> = vec![0, 1];
    let mut reduced: Vec<usize> = vec![0, 1];
    let mut push = |full: &mut Vec<El>, e: El, q: bool, r: bool| {
        if full.contains(&e) {
            return;
        }
        full.push(e);
        if q {
            quick.push(full.len() - 1);
        }
        if r {
            reduced.push(full.len() - 1);
        }
    };
    for (wi, &w) in WIDTHS.iter().enumerate() {
        // unsigned reads are defined up to 127 bits (128 -> IntegerOverflow is pinned by the suite)
        if w <= 127 {
            let q_u = wi % 2 == 0 || w == 127;
            push(&mut full, El::IntGen { w, signed: false, v: upat(w) }, q_u, [1, 7, 9, 16, 24, 64].contains(&w));
            push(&mut full, El::IntGen { w, signed: false, v: umax(w) }, w == 16 || w == 7, w == 127);
            push(&mut full, El::IntGen { w, signed: false, v: 0 }, w == 12, false);
            push(&mut full, El::IntGen { w, signed: false, v: -1 }, false, false); // reduction: reads back as max
        }
        let q_s = wi % 2 == 1 || w == 128;
        let rot = [smin(w), -1, spat(w), smax(w)][wi % 4];
        push(&mut full, El::IntGen { w, signed: true, v: rot }, q_s, [8, 12, 31].contains(&w));
        push(&mut full, El::IntGen { w, signed: true, v: spat(w) }, w == 9, [3, 33].contains(&w));
        push(&mut full, El::IntGen { w, signed: true, v: smin(w) }, w == 64 || w == 4, w == 128);
        push(&mut full, El::IntGen { w, signed: true, v: smax(w) }, false, false);
        push(&mut full, El::IntGen { w, signed: true, v: -1 }, w == 3 || w == 8, false);
    }
    // values much narrower than their field, and values around the 64-bit machine-word boundaries,
    // in fields on both sides of 64 bits (the packer and the literal encoder both have word-sized paths)
    for &w in &[9usize, 16, 33, 64, 65, 72, 100, 127, 128] {
        let cands: [i128; 8] = [1, 0x1234, (1i128 << 63) - 1, 1i128 << 63, (1i128 << 64) - 1, 1i128 << 64, -(1i128 << 63) - 1, -(1i128 << 64)];
        for (vi, &v) in cands.iter().enumerate() {
            if w <= 127 && v >= 0 && v <= umax(w) {
                push(&mut full, El::IntGen { w, signed: false, v }, (w == 65 && vi == 0) || (w == 72 && vi == 4), false);
            }
            if v >= smin(w) && v <= smax(w) {
                push(&mut full, El::IntGen { w, signed: true, v }, (w == 128 && vi == 0) || (w == 72 && vi == 3) || (w == 100 && vi == 6), false);
            }
        }
    }
    for &w in &[8usize, 16, 32, 64] {
        for mode in [Mode::Cur, Mode::Le, Mode::Be] {
            let qu = (w == 16 && mode == Mode::Le) || (w == 64 && mode == Mode::Cur);
            let qs = (w == 32 && mode == Mode::Be) || (w == 8 && mode == Mode::Cur);
            push(&mut full, El::IntFix { w, signed: false, mode, v: upat(w) }, qu, qu);
            push(&mut full, El::IntFix { w, signed: true, mode, v: spat(w) }, qs, w == 32 && mode == Mode::Be);
        }
    }
    for &w in &[32usize, 64] {
        for mode in [Mode::Cur, Mode::Le, Mode::Be] {
            for v in [1.5f64, -0.0, f64::INFINITY] {
                let q = (w == 32 && mode == Mode::Cur && v == 1.5) || (w == 64 && mode == Mode::Be && v == 0.0) || (w == 32 && mode == Mode::Le && v.is_infinite());
                let r = q;
                push(&mut full, El::FloatFix { w, mode, v }, q, r);
            }
        }
        push(&mut full, El::FloatGen { w, v: 0.1 }, w == 64, false);
        push(&mut full, El::FloatGen { w, v: 1.5 }, false, false);
    }
    for n in [0usize, 1, 5, 8, 13] {
        let bits: Vec<bool> = (0..n).map(|i| (0b1011001110001u32 >> (12 - i)) & 1 == 1).collect();
        push(&mut full, El::RawLit(bits), n != 8, n != 8);
    }
    // slices of a longer parent: unaligned start, aligned start with a partial last byte whose
    // remaining bits (set in the parent) do not belong to the field, whole bytes
    for (k, n) in [(4usize, 5usize), (3, 8), (8, 8), (1, 13), (8, 5), (0, 3), (16, 7)] {
        push(&mut full, El::RawSlice { k, n }, k == 4 || k == 3 || n == 5 && k == 8 || k == 0, k == 4 || k == 3 || k == 0);
    }
    for s in ["", "a", "é"] {
        push(&mut full, El::Str(s), true, s == "é");
    }
    push(&mut full, El::Bytes(vec![]), true, false);
    push(&mut full, El::Bytes(vec![0, 255]), true, true);
    push(&mut full, El::Byte(0x89), true, true);
    push(&mut full, El::Byte(10), false, false);
    push(&mut full, El::TByte(0xc3), true, true);
    // the seed only adds members to the value alphabet (full alphabet); the product is still complete
    if seed != 0 {
        for i in 0..4u64 {
            let r = mix(seed, i);
            let w = WIDTHS[(r % 14) as usize]; // <= 127
            let v = ((mix(seed, 100 + i) as u128) << 64 | mix(seed, 200 + i) as u128) & mask(w);
            push(&mut full, El::IntGen { w, signed: false, v: v as i128 }, false, false);
        }
    }
    (full, quick, reduced)
}

// ---------------------------------------------------------------- the record model
struct Model {
    total: usize,
    offsets: Vec<usize>, // per element (relative bit offset of the field in the record)
    big_at: Vec<bool>,   // byte order in force when the element is reached
    data: Vec<usize>,    // positions of the data fields (non-switch elements)
}

fn model_of(list: &[&El]) -> Model {
    let mut off = 0;
    let mut big = false; // a fresh interpreter is little-endian (`big?` = 0)
    let mut m = Model { total: 0, offsets: vec![], big_at: vec![], data: vec![] };
    for (i, e) in list.iter().enumerate() {
        m.offsets.push(off);
        match e {
            El::Big => big = true,
            El::Little => big = false,
            _ => m.data.push(i),
        }
        m.big_at.push(big);
        off += e.width();
    }
    m.total = off;
    m
}

fn src_vec(list: &[&El]) -> String {
    let mut s = String::from("[ ");
    for e in list {
        s.push_str(&e.vec_src());
        s.push(' ');
    }
    s.push_str("] >bitstr");
    s
}

fn src_append(list: &[&El]) -> String {
    // `head` is popped first by bitstr-append: TAIL HEAD bitstr-append = HEAD ++ TAIL
    let mut s = String::new();
    let mut n = 0;
    for e in list {
        s.push_str(&e.pack_src());
        s.push(' ');
        if !e.is_switch() {
            n += 1;
            if n > 1 {
                s.push_str("swap bitstr-append ");
            }
        }
    }
    s
}

/// grouping g: bit j set = an emit boundary between data field j and data field j+1
fn src_emit(list: &[&El], g: usize) -> String {
    let ndata = list.iter().filter(|e| !e.is_switch()).count();
    let mut s = String::new();
    let mut di = 0; // index of the next data field
    let mut group_open = false;
    let mut group_is_vec = false;
    for e in list {
        if e.is_switch() {
            s.push_str(&e.pack_src());
            s.push(' ');
            continue;
        }
        let first_of_group = di == 0 || (g >> (di - 1)) & 1 == 1;
        let last_of_group = di + 1 == ndata || (g >> di) & 1 == 1;
        if first_of_group {
            group_is_vec = !last_of_group;
            if group_is_vec {
                s.push_str("[ ");
            }
            group_open = true;
        }
        if group_is_vec {
            s.push_str(&e.vec_src());
        } else {
            s.push_str(&e.pack_src());
        }
        s.push(' ');
        if last_of_group && group_open {
            if group_is_vec {
                s.push_str("] >bitstr ");
            }
            s.push_str("emit ");
            group_open = false;
        }
        di += 1;
    }
    s
}

fn src_read(list: &[&El]) -> String {
    let mut s = String::from("little open-bitstr ");
    for e in list {
        s.push_str(&e.read_src());
        s.push(' ');
    }
    s.push_str("remain");
    s
}

fn cell_bits(c: &Cell) -> Option<(Vec<bool>, usize)> {
    match c.value() {
        Cell::Bitstr(b) => Some((b.bits().map(|x| x == 1).collect(), b.start())),
        _ => None,
    }
}

fn cell_val(c: &Cell) -> Option<Val> {
    match c.value() {
        Cell::Int(i) => Some(Val::Int(*i)),
        Cell::Real(r) => Some(Val::Real(r.to_bits())),
        Cell::Bitstr(b) => Some(Val::Bits(b.bits().map(|x| x == 1).collect())),
        Cell::Str(s) => Some(Val::Str(s.to_string())),
        _ => None,
    }
}

fn val_str(v: &Val) -> String {
    match v {
        Val::Int(i) => format!("int {}", i),
        Val::Real(b) => format!("real bits {:#018x} ({})", b, f64::from_bits(*b)),
        Val::Bits(b) => format!("bits |{}|", bits_str(b)),
        Val::Str(s) => format!("str {:?}", s),
    }
}

struct Worker {
    base: Xstate,
    memo: HashMap<(usize, bool), Vec<bool>>,
}

struct Failure {
    key: String,
    form: String,
    sources: Vec<String>,
    what: String,
}

impl Worker {
    fn new() -> Worker {
        let mut base = boot();
        base.intercept_output(true).expect("intercept_output");
        Worker { base, memo: HashMap::new() }
    }

    /// bits of one field packed alone by the implementation (memoised per element and byte order)
    fn field_bits(&mut self, full: &[El], ei: usize, big: bool, evals: &mut u64) -> Result<Vec<bool>, String> {
        let e = &full[ei];
        let order_matters = e.mode() == Some(Mode::Cur);
        let k = (ei, big && order_matters);
        if let Some(b) = self.memo.get(&k) {
            return Ok(b.clone());
        }
        let b = if e.mode().is_none() {
            e.model_bits(big).unwrap()
        } else {
            let mut xs = self.base.clone();
            let src = format!("{} {}", if big { "big" } else { "little" }, e.pack_src());
            *evals += 1;
            let r = guarded(|| xs.eval(&src)).map_err(|p| format!("panic packing `{}`: {}", src, p))?;
            if let Err(er) = r {
                return Err(format!("`{}` failed: {}", src, err_kind(&er)));
            }
            let got = xs.get_data(0).and_then(cell_bits).map(|x| x.0).ok_or_else(|| format!("`{}` left no bit-string", src))?;
            if xs.data_depth() != 1 {
                return Err(format!("`{}` left {} values", src, xs.data_depth()));
            }
            if got.len() != e.width() {
                return Err(format!("`{}` gave {} bits, expected {}", src, got.len(), e.width()));
            }
            if let Some(m) = e.model_bits(big) {
                if m != got {
                    return Err(format!("`{}` gave |{}|, expected |{}|", src, bits_str(&got), bits_str(&m)));
                }
            }
            got
        };
        self.memo.insert(k, b.clone());
        Ok(b)
    }

    /// parse a record back and compare with the expected values; `bs` is on top of the stack of `xs`
    fn parse_back(&self, xs: &mut Xstate, list: &[&El], m: &Model, start: usize, form: &str, pack_src: &str, bits_ok: bool, evals: &mut u64) -> Option<Failure> {
        let rsrc = src_read(list);
        *evals += 1;
        let fail = |key: String, what: String| Some(Failure { key, form: form.to_string(), sources: vec![pack_src.to_string(), rsrc.clone()], what });
        let r = match guarded(|| xs.eval(&rsrc)) {
            Err(p) => return fail(format!("panic:read:{}", form), format!("panic: {}", p)),
            Ok(r) => r,
        };
        // values pushed so far, bottom first
        let depth = xs.data_depth();
        let got: Vec<Option<Val>> = (0..depth).rev().map(|i| xs.get_data(i).and_then(cell_val)).collect();
        let mut gi = 0;
        for &di in &m.data {
            let e = list[di];
            let want = e.expect_val().unwrap();
            let have = got.get(gi).cloned().flatten();
            if have.as_ref() != Some(&want) {
                // a field that could not be read at all shows up as the error below
                if gi >= got.len() {
                    break;
                }
                let big = match e.mode() {
                    Some(Mode::Cur) => m.big_at[di],
                    Some(Mode::Be) => true,
                    Some(Mode::Le) => false,
                    None => true,
                };
                let abs = start + m.offsets[di];
                let w = e.width();
                let key = if !bits_ok {
                    // the record itself is already wrong: reported by the caller under the bits key
                    return None;
                } else if e.is_int() && !big && abs % 8 != 0 && abs % 8 + w > 8 {
                    "le-unaligned".to_string()
                } else {
                    format!("value:{}:{}:{}", e.kind(), if e.mode().is_none() { "-" } else if big { "be" } else { "le" }, if abs % 8 == 0 { "aligned" } else { "unaligned" })
                };
                return fail(
                    key,
                    format!(
                        "field #{} ({} `{}`, {} bits at bit offset {} of the record, storage offset {}): read back {} instead of {}",
                        gi,
                        e.kind(),
                        e.read_src(),
                        w,
                        m.offsets[di],
                        abs,
                        have.as_ref().map(val_str).unwrap_or_else(|| "a value of another type".into()),
                        val_str(&want)
                    ),
                );
            }
            gi += 1;
        }
        if let Err(e) = &r {
            if !bits_ok {
                return None;
            }
            return fail(format!("error:read:{}:{}", form, err_kind(e)), format!("reading back failed after {} values: {}", depth, err_kind(e)));
        }
        if depth != m.data.len() + 1 {
            return fail(format!("read-depth:{}", form), format!("{} values on the stack after reading, expected {} fields + remain", depth, m.data.len()));
        }
        match got.last().cloned().flatten() {
            Some(Val::Int(0)) => None,
            other => fail("remain".into(), format!("remain = {} after the last field, expected 0", other.as_ref().map(val_str).unwrap_or_default())),
        }
    }

    fn check_record(&mut self, full: &[El], idxs: &[usize], cnt: &mut Counts) -> Option<Failure> {
        let list: Vec<&El> = idxs.iter().map(|i| &full[*i]).collect();
        let m = model_of(&list);
        // expected bits of the record
        let mut want_bits: Vec<bool> = Vec::with_capacity(m.total);
        for (pos, &ei) in idxs.iter().enumerate() {
            if full[ei].is_switch() {
                continue;
            }
            match self.field_bits(full, ei, m.big_at[pos], &mut cnt.evals) {
                Ok(b) => want_bits.extend(b),
                Err(what) => {
                    return Some(Failure { key: format!("pack:{}", full[ei].kind()), form: "single field".into(), sources: vec![full[ei].pack_src()], what });
                }
            }
        }
        debug_assert_eq!(want_bits.len(), m.total);
        let ndata = m.data.len();
        let first_is_slice = m.data.first().map(|d| matches!(list[*d], El::RawSlice { .. })).unwrap_or(false);

        // ---- forms (i) and (ii): build, compare, parse back
        let mut forms: Vec<(&str, String)> = vec![("vec>bitstr", src_vec(&list))];
        if ndata >= 1 {
            forms.push(("bitstr-append", src_append(&list)));
        }
        for (form, psrc) in &forms {
            let mut xs = self.base.clone();
            cnt.evals += 1;
            cnt.forms += 1;
            let fail = |key: String, what: String| Some(Failure { key, form: form.to_string(), sources: vec![psrc.clone()], what });
            let r = match guarded(|| xs.eval(psrc)) {
                Err(p) => return fail(format!("panic:pack:{}", form), format!("panic: {}", p)),
                Ok(r) => r,
            };
            if let Err(e) = r {
                return fail(format!("error:pack:{}:{}", form, err_kind(&e)), format!("packing failed: {}", err_kind(&e)));
            }
            if xs.data_depth() != 1 {
                return fail(format!("pack-depth:{}", form), format!("{} values left by the packing program, expected 1", xs.data_depth()));
            }
            let (bits, start) = match xs.get_data(0).and_then(cell_bits) {
                Some(x) => x,
                None => return fail(format!("pack-type:{}", form), "packing did not leave a bit-string".into()),
            };
            let bits_ok = bits == want_bits;
            let slack_case = *form == "bitstr-append" && first_is_slice;
            if !bits_ok {
                let key = if slack_case {
                    "append:unique-slack".to_string()
                } else if bits.len() != m.total {
                    format!("length:{}", form)
                } else {
                    format!("bits:{}", form)
                };
                return fail(key, format!("record is |{}| ({} bits), expected |{}| ({} bits = sum of the field widths)", bits_str(&bits), bits.len(), bits_str(&want_bits), m.total));
            }
            if let Some(f) = self.parse_back(&mut xs, &list, &m, start, form, psrc, bits_ok, &mut cnt.evals) {
                return Some(f);
            }
        }

        // ---- form (iii): emit under every grouping
        let ngroup = if ndata == 0 { 1 } else { 1usize << (ndata - 1) };
        for g in 0..ngroup {
            let esrc = src_emit(&list, g);
            let mut xs = self.base.clone();
            cnt.evals += 1;
            cnt.forms += 1;
            cnt.groupings += 1;
            let form = format!("emit/grouping {:0w$b}", g, w = ndata.saturating_sub(1).max(1));
            let fail = |key: String, what: String| Some(Failure { key, form: form.clone(), sources: vec![esrc.clone()], what });
            // one emit per field is also run piecewise: one evaluation per emit, the host asserting
            // interception (already on) before each piece — asserting it must not disturb what was captured
            let piecewise = ndata >= 2 && g + 1 == ngroup;
            let r = match guarded(|| xs.eval(&esrc)) {
                Err(p) => return fail("panic:emit".into(), format!("panic: {}", p)),
                Ok(r) => r,
            };
            if let Err(e) = r {
                return fail(format!("error:emit:{}", err_kind(&e)), format!("emitting failed: {}", err_kind(&e)));
            }
            if piecewise {
                let mut ys = self.base.clone();
                cnt.evals += 1;
                let pieces: Vec<String> = esrc.split_inclusive("emit ").map(|p| p.to_string()).collect();
                let mut sources = vec![];
                for p in &pieces {
                    sources.push("(host) xs.intercept_output(true)".to_string());
                    sources.push(p.clone());
                    let r = guarded(|| {
                        ys.intercept_output(true)?;
                        ys.eval(p)
                    });
                    if !matches!(r, Ok(Ok(()))) {
                        return Some(Failure { key: "emit-piecewise:error".into(), form: "emit piecewise".into(), sources, what: format!("{:?}", r.map(|r| r.map_err(|e| err_kind(&e)))) });
                    }
                }
                let same = ys.get_var_value("output").ok().and_then(cell_bits).map(|x| x.0) == xs.get_var_value("output").ok().and_then(cell_bits).map(|x| x.0)
                    && ys.get_var_value("output-length").ok().and_then(cell_val) == xs.get_var_value("output-length").ok().and_then(cell_val);
                if !same {
                    return Some(Failure {
                        key: "emit-piecewise:differs".into(),
                        form: "emit piecewise".into(),
                        sources,
                        what: format!(
                            "output |{}| output-length {:?}; the same emits in one evaluation give |{}| and {:?}",
                            ys.get_var_value("output").ok().and_then(cell_bits).map(|x| bits_str(&x.0)).unwrap_or_default(),
                            ys.get_var_value("output-length").ok().and_then(cell_val).as_ref().map(val_str),
                            xs.get_var_value("output").ok().and_then(cell_bits).map(|x| bits_str(&x.0)).unwrap_or_default(),
                            xs.get_var_value("output-length").ok().and_then(cell_val).as_ref().map(val_str)
                        ),
                    });
                }
            }
            if xs.data_depth() != 0 {
                return fail("emit-depth".into(), format!("{} values left on the stack by the emit program", xs.data_depth()));
            }
            let olen = xs.get_var_value("output-length").ok().and_then(cell_val);
            if olen != Some(Val::Int(m.total as i128)) {
                return fail("output-length".into(), format!("output-length = {}, expected {}", olen.as_ref().map(val_str).unwrap_or_default(), m.total));
            }
            let out = xs.get_var_value("output").ok().cloned();
            let (bits, start) = match out.as_ref().and_then(cell_bits) {
                Some(x) => x,
                None => return fail("output-type".into(), "`output` is not a bit-string".into()),
            };
            if bits != want_bits {
                return fail(
                    if bits.len() != m.total { "output:length".to_string() } else { "output:bits".to_string() },
                    format!("output is |{}| ({} bits), expected |{}| ({} bits)", bits_str(&bits), bits.len(), bits_str(&want_bits), m.total),
                );
            }
            // parse back what was emitted: one emit per field, and everything in one emit
            if g == 0 || g + 1 == ngroup {
                cnt.evals += 1;
                if let Err(p) = guarded(|| xs.eval("output")) {
                    return fail("panic:emit".into(), format!("panic pushing output: {}", p));
                }
                if let Some(f) = self.parse_back(&mut xs, &list, &m, start, &form, &format!("{} output", esrc), true, &mut cnt.evals) {
                    return Some(f);
                }
            }
        }
        None
    }
}

#[derive(Default)]
struct Counts {
    evals: u64,
    forms: u64,
    groupings: u64,
    records: u64,
    nontrivial: u64,
    local: BTreeMap<String, u64>,
}

impl Counts {
    /// where each data field starts inside the record (bit offset mod 8), per kind and per predecessor
    fn note_alignments(&mut self, list: &[&El], m: &Model) {
        let mut prev: &'static str = "start";
        for &di in &m.data {
            let e = list[di];
            let a = m.offsets[di] % 8;
            bump(&mut self.local, &format!("align:{}@{}", e.kind(), a));
            bump(&mut self.local, &format!("after:{}@{}", prev, a));
            if let Some(md) = e.mode() {
                let big = match md {
                    Mode::Cur => m.big_at[di],
                    Mode::Be => true,
                    Mode::Le => false,
                };
                if e.is_int() {
                    bump(&mut self.local, &format!("int-read:{}:{}", if big { "be" } else { "le" }, if a == 0 { "aligned" } else { "unaligned" }));
                }
            }
            prev = e.kind();
        }
    }
}

struct Stratum {
    name: String,
    alpha: Vec<usize>, // indices into the full alphabet
    len: usize,        // exact list length
}

pub fn run(cfg: &Cfg) -> i32 {
    let rep = Reporter::new("C07");
    let mut ev = Evidence::new("C07", cfg);
    let (full, quick, reduced) = alphabets(cfg.seed);
    let all: Vec<usize> = (0..full.len()).collect();
    let mut strata: Vec<Stratum> = vec![];
    let st = |name: &str, a: &Vec<usize>, len: usize| Stratum { name: format!("{} (alphabet {} elements, length {})", name, a.len(), len), alpha: a.clone(), len };
    if cfg.quick() {
        for l in 0..=2 {
            strata.push(st("full", &all, l));
        }
        strata.push(st("quick-subset", &quick, 3));
    } else {
        for l in 0..=3 {
            strata.push(st("full", &all, l));
        }
        strata.push(st("reduced-subset", &reduced, 4));
    }
    if let Ok(v) = std::env::var("VERIF_C07_ONLY") {
        strata.retain(|s| s.name.starts_with(&v));
    }
    ev.rule = "every list of the stated length over the stated alphabet (byte-order switches are list elements); each list is packed as (i) vector >bitstr, (ii) successive bitstr-append, (iii) emit under all 2^(m-1) groupings, and parsed back; non-trivial = at least two data fields and at least one of them starts off a byte boundary".into();

    let cover = Counters::new();
    let tot = Mutex::new(Counts::default());
    let samples = Mutex::new(Vec::<J>::new());
    let deadline = std::time::Instant::now() + std::time::Duration::from_secs(if cfg.quick() { 60 } else { 1800 });
    let mut per_stratum = vec![];
    for s in &strata {
        let t0 = std::time::Instant::now();
        let n = s.alpha.len();
        let total = n.checked_pow(s.len as u32).unwrap_or_else(|| machinery_error("C07: stratum too large"));
        let capped = AtomicU64::new(0);
        par_run(cfg.threads, total, 64, |_ti, pull| {
            let mut w = Worker::new();
            let mut cnt = Counts::default();
            let mut idxs = vec![0usize; s.len];
            while let Some(r) = pull() {
                if std::time::Instant::now() > deadline {
                    capped.fetch_add(r.len() as u64, Ordering::Relaxed);
                    continue;
                }
                for case in r {
                    // mixed radix: the last element varies fastest
                    let mut c = case;
                    for p in (0..s.len).rev() {
                        idxs[p] = s.alpha[c % n];
                        c /= n;
                    }
                    cnt.records += 1;
                    let list: Vec<&El> = idxs.iter().map(|i| &full[*i]).collect();
                    let m = model_of(&list);
                    if m.data.len() >= 2 && m.data.iter().any(|d| m.offsets[*d] % 8 != 0) {
                        cnt.nontrivial += 1;
                    }
                    for e in &list {
                        bump(&mut cnt.local, &format!("element:{}", e.kind()));
                    }
                    bump(&mut cnt.local, &format!("data-fields:{}", m.data.len()));
                    cnt.note_alignments(&list, &m);
                    if case % (total / 3 + 1) == total / 7 {
                        let mut sm = samples.lock().unwrap();
                        if sm.len() < 10 {
                            sm.push(jo(vec![
                                ("vec", js(src_vec(&list))),
                                ("append", js(src_append(&list))),
                                ("emit_one_per_field", js(src_emit(&list, (1usize << m.data.len().saturating_sub(1)) - 1))),
                                ("read", js(src_read(&list))),
                                ("total_bits", ji(m.total)),
                            ]));
                        }
                    }
                    if let Some(f) = w.check_record(&full, &idxs, &mut cnt) {
                        let weight = (list.len() as u64) * 100_000 + m.total as u64 * 100 + f.sources.iter().map(|x| x.len() as u64).sum::<u64>().min(99);
                        bump(&mut cnt.local, &format!("failing:{}", f.key));
                        rep.report_w(&f.key, weight, || {
                            jo(vec![
                                ("kind", js("c07")),
                                ("setup", js("fresh interpreter, xs.intercept_output(true); the sources below are evaluated in order on it")),
                                ("form", js(f.form.clone())),
                                ("sources_in_order", J::A(f.sources.iter().map(|x| js(x.clone())).collect())),
                                ("fields", J::A(list.iter().map(|e| js(format!("{:?}", e))).collect())),
                                ("expected_total_bits", ji(m.total)),
                                ("what", js(f.what.clone())),
                            ])
                        });
                    }
                }
            }
            cover.merge(&cnt.local);
            let mut t = tot.lock().unwrap();
            t.evals += cnt.evals;
            t.forms += cnt.forms;
            t.groupings += cnt.groupings;
            t.records += cnt.records;
            t.nontrivial += cnt.nontrivial;
        });
        let c = capped.load(Ordering::Relaxed);
        if c > 0 {
            ev.cap(format!("{}: wall-clock cap reached, {} of {} records not run", s.name, c, total));
        }
        per_stratum.push(jo(vec![("stratum", js(s.name.clone())), ("records", ji(total)), ("skipped_by_cap", ji(c)), ("wall_s", J::F(t0.elapsed().as_secs_f64()))]));
        println!("C07 {}: {} records, {:.1}s", s.name, total, t0.elapsed().as_secs_f64());
    }

    // ---- ownership of the slice recipe (what makes `append:unique-slack` reachable), measured
    {
        let w = Worker::new();
        let mut rows = vec![];
        for e in full.iter().filter(|e| matches!(e, El::RawSlice { .. })) {
            let mut xs = w.base.clone();
            if xs.eval(&e.pack_src()).is_ok() {
                if let Some(Cell::Bitstr(b)) = xs.get_data(0).map(|c| c.value().clone()) {
                    let (strong, buf_len, borrowed) = b.verif_storage();
                    rows.push(jo(vec![
                        ("recipe", js(e.pack_src())),
                        ("start", ji(b.start())),
                        ("end", ji(b.end())),
                        ("strong_count_while_on_stack", ji(strong.saturating_sub(1))), // minus the clone held here
                        ("buffer_bytes", ji(buf_len)),
                        ("borrowed", J::B(borrowed)),
                    ]));
                    if strong.saturating_sub(1) != 1 || (b.start() == 0 && buf_len * 8 < b.end() + 8) {
                        vacuous("vacuous: the raw-slice recipe no longer yields a uniquely owned bit-string with slack");
                    }
                }
            }
        }
        ev.add("raw_slice_storage", J::A(rows));
    }

    let t = tot.into_inner().unwrap();
    let exhaustive = ev.caps.is_empty();
    // vacuity: every data kind must have been placed at every alignment 0..7
    if exhaustive && std::env::var("VERIF_C07_ONLY").is_err() {
        for kind in ["int-generic", "int-fixed", "float-fixed", "float-generic", "raw-literal", "raw-slice", "string", "byte-list"] {
            for a in 0..8 {
                if cover.get(&format!("align:{}@{}", kind, a)) == 0 {
                    vacuous(&format!("vacuous: no {} field at alignment {}", kind, a));
                }
            }
        }
        for k in ["int-read:le:unaligned", "int-read:le:aligned", "int-read:be:unaligned", "int-read:be:aligned"] {
            if cover.get(k) == 0 {
                vacuous(&format!("vacuous: no case of {}", k));
            }
        }
    }
    for s in samples.into_inner().unwrap() {
        ev.sample(s);
    }
    ev.states = t.records;
    ev.evaluations = t.evals;
    ev.transitions = t.evals;
    ev.traces = t.forms;
    ev.nontrivial = t.nontrivial;
    ev.add("strata", J::A(per_stratum));
    ev.add("emit_groupings_run", ji(t.groupings));
    ev.add("alphabet_full", J::A(full.iter().map(|e| js(format!("{} | {}", e.pack_src(), e.read_src()))).collect()));
    ev.add("alphabet_quick_subset", J::A(quick.iter().map(|i| js(full[*i].pack_src())).collect()));
    ev.add("alphabet_reduced_subset", J::A(reduced.iter().map(|i| js(full[*i].pack_src())).collect()));
    ev.add("coverage_counts", cover.json());
    ev.assumptions = vec![
        "a fresh interpreter is little-endian; `big` / `little` switch the order for the generic and unsuffixed words at pack time and at read time alike".into(),
        "bitstr-append pops the head first: TAIL HEAD bitstr-append = HEAD ++ TAIL (read from word_bitstr_append)".into(),
        "unsigned reads are defined up to 127 bits (128 uint -> IntegerOverflow is pinned by the suite), so the 128-bit field is signed only".into(),
        "the bit layout of a little-endian integer whose width is not a multiple of 8 (and > 8) is taken from the implementation packing that field alone; everything else is computed in Rust".into(),
        "a record stops at its first failing check (one report per record)".into(),
    ];
    conclude(&ev, &rep)
}
