// xmc — bounded exhaustive model checking of the real xeh interpreter.
// usage: xmc <property id> [quick|thorough]      |  xmc replay <file>
mod cf;
mod common;
mod corpus;
mod props;
mod repl_leg;

use common::*;

fn main() {
    if std::env::var("XMC_REPL_SHIM").is_ok() {
        // child process of the REPL legs: behave exactly like the xeh binary on the piped stdin
        let code = if xeh::repl::run_with_args().is_err() { 1 } else { 0 };
        std::process::exit(code);
    }
    let args: Vec<String> = std::env::args().collect();
    if args.len() < 2 {
        eprintln!("usage: xmc <C01..C18> [quick|thorough]");
        std::process::exit(2);
    }
    silence_panics();
    let cfg = Cfg::from_env(args.get(2).map(|s| s.as_str()));
    let code = match args[1].as_str() {
        "C01" => props::c01::run(&cfg),
        "C02" => props::c02::run(&cfg),
        "C03" => props::c03::run(&cfg),
        "C04" => props::c04::run(&cfg),
        "C05" => props::c05::run(&cfg),
        "C06" => props::c06::run(&cfg),
        "C07" => props::c07::run(&cfg),
        "C08" => props::c08::run(&cfg),
        "C08-worker" => props::c08::worker(&args[2..]),
        "C09" => props::c09::run(&cfg),
        "C14" => props::c14::run(&cfg),
        "C17" => props::c17::run(&cfg),
        "C18" => props::c18::run(&cfg),
        "C10" => props::c10::run(&cfg),
        "C11" => props::c11::run(&cfg),
        "C12" => props::c12::run(&cfg),
        "C13" => props::c13::run(&cfg),
        "C15" => props::c15::run(&cfg),
        "C16" => props::c16::run(&cfg),
        "replay-eval" => {
            props::c01::replay(&args[2]);
            0
        }
        "replay-seq" => {
            // evaluates the given sources in order on one interpreter and prints what each did
            use xeh::prelude::*;
            let mut xs = boot();
            let _ = xeh::d2_plugin::load(&mut xs);
            if std::env::var("XMC_REPLAY_INPUT").is_ok() {
                xs.set_binary_input(Xbitstr::from(corpus::BIN_INPUT.to_vec())).unwrap();
            }
            let _ = xs.intercept_output(true);
            if let Some(n) = std::env::var("XMC_REPLAY_INSN_LIMIT").ok().and_then(|s| s.parse().ok()) {
                let _ = xs.set_insn_limit(Some(n));
            }
            let compile_run = std::env::var("XMC_REPLAY_STYLE").map(|s| s == "compile+run").unwrap_or(false);
            for src in &args[2..] {
                let r = guarded(|| if compile_run { xs.compile(src).and_then(|_| xs.run()) } else { xs.eval(src) });
                println!("source: {}", src);
                println!("  result: {:?}", r);
                println!("  stack:  {:?}", stack_of(&xs));
                println!("  stdout: {:?}", xs.read_stdout());
                if let Some(e) = xs.pretty_error() {
                    println!("  error:  {}", e.replace('\n', " | "));
                }
            }
            0
        }
        other => machinery_error(&format!("unknown property {}", other)),
    };
    std::process::exit(code);
}
