// Control-flow grammar: AST, printer to xeh source, static resolver, an independent
// structural (big-step) evaluator, and a simplest-first exhaustive generator.
// The evaluator never sees bytecode or jump offsets.

#[derive(Clone, Debug, PartialEq)]
pub enum N {
    Int(i64),
    Flag(bool),
    Nil,
    Prim(&'static str),
    Idx(usize), // I J K
    Break,
    If(Vec<N>, Option<Vec<N>>),
    Case(Vec<(Vec<N>, Vec<N>)>, Vec<N>),
    Until(Vec<N>),
    While(Vec<N>, Vec<N>),
    Repeat(Vec<N>),
    Do(Vec<N>),
    /// `HI LO do body loop` as one node (the range is part of the construct)
    DoR(i64, i64, Vec<N>),
    Def(&'static str, Vec<N>),
    Local(&'static str),
    Var(&'static str),
    Store(&'static str),
    Name(&'static str),
    /// opaque bracketed construct `OPEN body CLOSE` (foreach..loop, [ .. ], #( .. #)); not part
    /// of the structural model (resolve() rejects it) — used by the differential corpora
    Wrap(&'static str, Vec<N>, &'static str),
}

pub fn size(n: &N) -> usize {
    match n {
        N::If(a, b) => 1 + sz(a) + b.as_ref().map(|b| 1 + sz(b)).unwrap_or(0),
        N::Case(arms, d) => 1 + arms.iter().map(|(p, b)| 1 + sz(p) + sz(b)).sum::<usize>() + sz(d),
        N::Until(b) | N::Repeat(b) | N::Do(b) | N::DoR(_, _, b) | N::Def(_, b) | N::Wrap(_, b, _) => 1 + sz(b),
        N::While(c, b) => 1 + sz(c) + sz(b),
        _ => 1,
    }
}
pub fn sz(v: &[N]) -> usize {
    v.iter().map(size).sum()
}

pub fn show(v: &[N], out: &mut String) {
    for n in v {
        match n {
            N::Int(i) => {
                out.push_str(&i.to_string());
                out.push(' ');
            }
            N::Flag(b) => out.push_str(if *b { "true " } else { "false " }),
            N::Nil => out.push_str("nil "),
            N::Prim(p) => {
                out.push_str(p);
                out.push(' ')
            }
            N::Idx(i) => out.push_str(["I ", "J ", "K "][*i]),
            N::Break => out.push_str("break "),
            N::If(a, b) => {
                out.push_str("if ");
                show(a, out);
                if let Some(b) = b {
                    out.push_str("else ");
                    show(b, out);
                }
                out.push_str("then ");
            }
            N::Case(arms, d) => {
                out.push_str("case ");
                for (p, b) in arms {
                    show(p, out);
                    out.push_str("of ");
                    show(b, out);
                    out.push_str("endof ");
                }
                show(d, out);
                out.push_str("endcase ");
            }
            N::Until(b) => {
                out.push_str("begin ");
                show(b, out);
                out.push_str("until ");
            }
            N::While(c, b) => {
                out.push_str("begin ");
                show(c, out);
                out.push_str("while ");
                show(b, out);
                out.push_str("repeat ");
            }
            N::Repeat(b) => {
                out.push_str("begin ");
                show(b, out);
                out.push_str("repeat ");
            }
            N::Do(b) => {
                out.push_str("do ");
                show(b, out);
                out.push_str("loop ");
            }
            N::DoR(hi, lo, b) => {
                out.push_str(&format!("{} {} do ", hi, lo));
                show(b, out);
                out.push_str("loop ");
            }
            N::Def(nm, b) => {
                out.push_str(": ");
                out.push_str(nm);
                out.push(' ');
                show(b, out);
                out.push_str("; ");
            }
            N::Local(nm) => {
                out.push_str("local ");
                out.push_str(nm);
                out.push(' ');
            }
            N::Var(nm) => {
                out.push_str("var ");
                out.push_str(nm);
                out.push(' ');
            }
            N::Store(nm) => {
                out.push_str("! ");
                out.push_str(nm);
                out.push(' ');
            }
            N::Name(nm) => {
                out.push_str(nm);
                out.push(' ')
            }
            N::Wrap(o, b, c) => {
                out.push_str(o);
                out.push(' ');
                show(b, out);
                out.push_str(c);
                out.push(' ');
            }
        }
    }
}

pub fn source(v: &[N]) -> String {
    let mut s = String::new();
    show(v, &mut s);
    s
}

/// names of the construct kinds occurring in a program (for finding keys / coverage)
pub fn kinds(v: &[N], out: &mut std::collections::BTreeSet<&'static str>) {
    for n in v {
        match n {
            N::If(a, b) => {
                out.insert(if b.is_some() { "if-else" } else { "if" });
                if a.is_empty() {
                    out.insert("empty-if-body");
                }
                kinds(a, out);
                if let Some(b) = b {
                    if b.is_empty() {
                        out.insert("empty-else-body");
                    }
                    kinds(b, out);
                }
            }
            N::Case(arms, d) => {
                out.insert("case");
                for (p, b) in arms {
                    kinds(p, out);
                    kinds(b, out);
                }
                kinds(d, out);
            }
            N::Until(b) => {
                out.insert("until");
                if b.is_empty() {
                    out.insert("empty-until-body");
                }
                kinds(b, out);
            }
            N::While(c, b) => {
                out.insert("while");
                kinds(c, out);
                kinds(b, out);
            }
            N::Repeat(b) => {
                out.insert("repeat");
                if b.is_empty() {
                    out.insert("empty-repeat-body");
                }
                kinds(b, out);
            }
            N::Do(b) | N::DoR(_, _, b) => {
                out.insert("do");
                if b.is_empty() {
                    out.insert("empty-do-body");
                }
                kinds(b, out);
            }
            N::Def(_, b) => {
                out.insert("def");
                kinds(b, out);
            }
            N::Local(_) => {
                out.insert("local");
            }
            N::Var(_) | N::Store(_) => {
                out.insert("var");
            }
            N::Break => {
                out.insert("break");
            }
            N::Idx(_) => {
                out.insert("index");
            }
            N::Wrap(_, b, _) => {
                out.insert("wrap");
                kinds(b, out);
            }
            _ => {}
        }
    }
}

// ---------------------------------------------------------------- static resolution
#[derive(Clone, Copy, PartialEq, Debug)]
pub enum LoopK {
    Until,
    WhileCond,
    WhileBody,
    Repeat,
    Do,
}
#[derive(Clone, Debug)]
enum Ent {
    Def(usize),
    Var(usize),
}
#[derive(Clone, Default)]
pub struct Env {
    dict: Vec<(&'static str, Ent)>,
    funs: Vec<Vec<&'static str>>,
    loops: Vec<LoopK>,
    flows: usize,
    pub ncells: usize,
    /// the program stores to a name whose latest meaning is a word: the compiler refuses the source
    pub rejected: bool,
}

#[derive(Clone, Debug)]
pub enum R {
    Push(V),
    Prim(&'static str),
    Idx(usize),
    Break,
    If(Vec<R>, Option<Vec<R>>),
    Case(Vec<(Vec<R>, Vec<R>)>, Vec<R>),
    Until(Vec<R>),
    While(Vec<R>, Vec<R>),
    Repeat(Vec<R>),
    Do(Vec<R>),
    SkipDef,
    InitLocal(usize),
    LoadLocal(usize),
    Call(usize),
    Load(usize),
    Store(usize),
}
#[derive(Clone, Debug, PartialEq)]
pub enum V {
    Int(i128),
    Flag(bool),
    Nil,
}
impl V {
    pub fn render(&self) -> String {
        match self {
            V::Int(i) => format!("i:{}", i),
            V::Flag(b) => format!("b:{}", b),
            V::Nil => "nil".into(),
        }
    }
    fn print(&self) -> String {
        match self {
            V::Int(i) => i.to_string(),
            V::Flag(b) => b.to_string(),
            V::Nil => "nil".into(),
        }
    }
}

pub struct Prog {
    pub defs: Vec<Vec<R>>,
    pub top: Vec<R>,
    pub ncells: usize,
    /// the source is refused at build time (a store to a name that means a word): nothing of it runs
    pub rejected: bool,
}

/// Static name resolution exactly as a one-pass dictionary does it: latest definition so
/// far, own name visible in own body, nested definitions registered when their text is
/// read. Returns None for programs outside the documented language.
pub fn resolve(v: &[N], env: &mut Env, defs: &mut Vec<Vec<R>>) -> Option<Vec<R>> {
    let mut out = vec![];
    for n in v {
        if let N::DoR(hi, lo, b) = n {
            out.push(R::Push(V::Int(*hi as i128)));
            out.push(R::Push(V::Int(*lo as i128)));
            env.flows += 1;
            env.loops.push(LoopK::Do);
            let b = resolve(b, env, defs);
            env.loops.pop();
            env.flows -= 1;
            out.push(R::Do(b?));
            continue;
        }
        out.push(match n {
            N::Int(i) => R::Push(V::Int(*i as i128)),
            N::Flag(b) => R::Push(V::Flag(*b)),
            N::Nil => R::Push(V::Nil),
            N::Prim(p) => R::Prim(p),
            N::Idx(i) => R::Idx(*i),
            N::Break => match env.loops.last() {
                Some(LoopK::Repeat) | Some(LoopK::WhileBody) | Some(LoopK::Do) => R::Break,
                _ => return None,
            },
            N::If(a, b) => {
                env.flows += 1;
                let a = resolve(a, env, defs)?;
                let b = match b {
                    Some(b) => Some(resolve(b, env, defs)?),
                    None => None,
                };
                env.flows -= 1;
                R::If(a, b)
            }
            N::Case(arms, d) => {
                env.flows += 1;
                let mut ra = vec![];
                for (p, b) in arms {
                    let p = resolve(p, env, defs)?;
                    let b = resolve(b, env, defs)?;
                    ra.push((p, b));
                }
                let d = resolve(d, env, defs)?;
                env.flows -= 1;
                R::Case(ra, d)
            }
            N::Until(b) => {
                env.flows += 1;
                env.loops.push(LoopK::Until);
                let b = resolve(b, env, defs);
                env.loops.pop();
                env.flows -= 1;
                R::Until(b?)
            }
            N::Repeat(b) => {
                env.flows += 1;
                env.loops.push(LoopK::Repeat);
                let b = resolve(b, env, defs);
                env.loops.pop();
                env.flows -= 1;
                R::Repeat(b?)
            }
            N::Do(b) => {
                env.flows += 1;
                env.loops.push(LoopK::Do);
                let b = resolve(b, env, defs);
                env.loops.pop();
                env.flows -= 1;
                R::Do(b?)
            }
            N::While(c, b) => {
                env.flows += 1;
                env.loops.push(LoopK::WhileCond);
                let c = resolve(c, env, defs);
                env.loops.pop();
                let c = c?;
                env.loops.push(LoopK::WhileBody);
                let b = resolve(b, env, defs);
                env.loops.pop();
                env.flows -= 1;
                R::While(c, b?)
            }
            N::Def(nm, body) => {
                let id = defs.len();
                defs.push(vec![]);
                env.dict.push((nm, Ent::Def(id)));
                env.funs.push(vec![]);
                env.flows += 1;
                let saved = std::mem::take(&mut env.loops);
                let b = resolve(body, env, defs);
                env.loops = saved;
                env.flows -= 1;
                env.funs.pop();
                defs[id] = b?;
                R::SkipDef
            }
            N::Local(nm) => {
                let f = env.funs.last_mut()?;
                f.push(nm);
                R::InitLocal(f.len() - 1)
            }
            N::Var(nm) => {
                if env.flows != 0 {
                    return None;
                }
                let c = env.ncells;
                env.ncells += 1;
                env.dict.push((nm, Ent::Var(c)));
                R::Store(c)
            }
            N::Store(nm) => match env.dict.iter().rev().find(|e| e.0 == *nm) {
                Some((_, Ent::Var(c))) => R::Store(*c),
                Some((_, Ent::Def(_))) => {
                    env.rejected = true;
                    R::Prim("drop")
                }
                _ => return None,
            },
            N::Wrap(..) => return None,
            N::DoR(..) => unreachable!(),
            N::Name(nm) => {
                if let Some(i) = env.funs.last().and_then(|f| f.iter().rposition(|x| x == nm)) {
                    R::LoadLocal(i)
                } else {
                    match env.dict.iter().rev().find(|e| e.0 == *nm)? {
                        (_, Ent::Def(i)) => R::Call(*i),
                        (_, Ent::Var(c)) => R::Load(*c),
                    }
                }
            }
        });
    }
    Some(out)
}

pub fn resolve_program(v: &[N]) -> Option<Prog> {
    let mut env = Env::default();
    let mut defs = vec![];
    let top = resolve(v, &mut env, &mut defs)?;
    Some(Prog { defs, top, ncells: env.ncells, rejected: env.rejected })
}

// ---------------------------------------------------------------- structural evaluator
#[derive(Debug, PartialEq, Clone)]
pub enum E {
    Underflow,
    Type,
    LoopUnderflow,
    Unbound,
    Fuel,
}
enum Ctl {
    Next,
    Break,
}
pub struct M<'a> {
    pub p: &'a Prog,
    pub ds: Vec<V>,
    loops: Vec<(i128, i128)>,
    frames: Vec<Vec<Option<V>>>,
    pub cells: Vec<V>,
    pub out: String,
    pub fuel: usize,
    pub steps: usize,
    // coverage of the execution
    pub back_jumps: usize,
    pub branches_taken: usize,
    pub branches_skipped: usize,
    pub calls: usize,
    pub read_unset_local: bool,
    /// reading a local whose declaration was not executed in this call: 0 = per-call slot rule (nil below
    /// the highest slot initialised in this call, failure otherwise), 1 = always nil, 2 = always a failure
    pub unset_mode: u8,
}

impl<'a> M<'a> {
    pub fn new(p: &'a Prog, fuel: usize) -> M<'a> {
        M {
            p,
            ds: vec![],
            loops: vec![],
            frames: vec![],
            cells: vec![V::Nil; p.ncells],
            out: String::new(),
            fuel,
            steps: 0,
            back_jumps: 0,
            branches_taken: 0,
            branches_skipped: 0,
            calls: 0,
            read_unset_local: false,
            unset_mode: 0,
        }
    }
    pub fn run(&mut self) -> Result<(), E> {
        let top = &self.p.top;
        self.exec(top).map(|_| ())
    }
    // one tick per instruction a straightforward compilation needs (push, primitive, branch,
    // back-edge, call, return); only used as fuel, with generous margins on both sides
    fn tick(&mut self) -> Result<(), E> {
        self.steps += 1;
        if self.steps > self.fuel {
            Err(E::Fuel)
        } else {
            Ok(())
        }
    }
    fn pop(&mut self) -> Result<V, E> {
        self.ds.pop().ok_or(E::Underflow)
    }
    fn cond(&mut self) -> Result<bool, E> {
        match self.pop()? {
            V::Nil => Ok(false),
            V::Flag(b) => Ok(b),
            _ => Err(E::Type),
        }
    }
    fn int(v: V) -> Result<i128, E> {
        match v {
            V::Int(i) => Ok(i),
            _ => Err(E::Type),
        }
    }
    fn exec(&mut self, v: &[R]) -> Result<Ctl, E> {
        for r in v {
            match r {
                R::Push(x) => {
                    self.tick()?;
                    self.ds.push(x.clone())
                }
                R::SkipDef => self.tick()?,
                R::Prim(p) => {
                    self.tick()?;
                    self.prim(p)?
                }
                R::Idx(n) => {
                    self.tick()?;
                    let l = self.loops.len();
                    if l <= *n {
                        return Err(E::LoopUnderflow);
                    }
                    let c = self.loops[l - 1 - n].0;
                    self.ds.push(V::Int(c));
                }
                R::Break => {
                    self.tick()?;
                    return Ok(Ctl::Break);
                }
                R::If(a, b) => {
                    self.tick()?;
                    let c = self.cond()?;
                    let r = if c {
                        self.branches_taken += 1;
                        let r = self.exec(a)?;
                        if b.is_some() {
                            if let Ctl::Next = r {
                                self.tick()?;
                            }
                        }
                        r
                    } else if let Some(b) = b {
                        self.branches_skipped += 1;
                        self.exec(b)?
                    } else {
                        self.branches_skipped += 1;
                        Ctl::Next
                    };
                    if let Ctl::Break = r {
                        return Ok(Ctl::Break);
                    }
                }
                R::Case(arms, d) => {
                    let mut matched = false;
                    for (p, b) in arms {
                        if let Ctl::Break = self.exec(p)? {
                            return Ok(Ctl::Break);
                        }
                        self.tick()?;
                        let a = self.pop()?;
                        let top = self.ds.last().ok_or(E::Underflow)?;
                        if &a == top {
                            self.branches_taken += 1;
                            self.ds.pop();
                            if let Ctl::Break = self.exec(b)? {
                                return Ok(Ctl::Break);
                            }
                            self.tick()?;
                            matched = true;
                            break;
                        } else {
                            self.branches_skipped += 1;
                        }
                    }
                    if !matched {
                        if let Ctl::Break = self.exec(d)? {
                            return Ok(Ctl::Break);
                        }
                    }
                }
                R::Until(b) => loop {
                    if let Ctl::Break = self.exec(b)? {
                        unreachable!()
                    }
                    self.tick()?;
                    if self.cond()? {
                        break;
                    }
                    self.back_jumps += 1;
                },
                R::While(c, b) => loop {
                    if let Ctl::Break = self.exec(c)? {
                        unreachable!()
                    }
                    self.tick()?;
                    if !self.cond()? {
                        break;
                    }
                    if let Ctl::Break = self.exec(b)? {
                        break;
                    }
                    self.tick()?;
                    self.back_jumps += 1;
                },
                R::Repeat(b) => loop {
                    if let Ctl::Break = self.exec(b)? {
                        break;
                    }
                    self.tick()?;
                    self.back_jumps += 1;
                },
                R::Do(b) => {
                    self.tick()?;
                    let start = self.pop()?;
                    let limit = self.pop()?;
                    let start = Self::int(start)?;
                    let limit = Self::int(limit)?;
                    if start < limit {
                        self.loops.push((start, limit));
                        loop {
                            if let Ctl::Break = self.exec(b)? {
                                self.loops.pop();
                                break;
                            }
                            self.tick()?;
                            let l = self.loops.last_mut().unwrap();
                            l.0 += 1;
                            if l.0 >= l.1 {
                                self.loops.pop();
                                break;
                            }
                            self.back_jumps += 1;
                        }
                    } else {
                        self.branches_skipped += 1;
                    }
                }
                R::InitLocal(i) => {
                    self.tick()?;
                    let x = self.pop()?;
                    let f = self.frames.last_mut().unwrap();
                    while f.len() <= *i {
                        f.push(None);
                    }
                    f[*i] = Some(x);
                }
                R::LoadLocal(i) => {
                    self.tick()?;
                    let f = self.frames.last().unwrap();
                    match f.get(*i).cloned().flatten() {
                        Some(x) => self.ds.push(x),
                        None => {
                            self.read_unset_local = true;
                            let nil = match self.unset_mode {
                                0 => *i < f.len(),
                                1 => true,
                                _ => false,
                            };
                            if !nil {
                                return Err(E::Unbound);
                            }
                            self.ds.push(V::Nil)
                        }
                    }
                }
                R::Call(d) => {
                    self.tick()?;
                    self.calls += 1;
                    self.frames.push(vec![]);
                    let body = &self.p.defs[*d];
                    let r = self.exec(body);
                    self.frames.pop();
                    r?;
                    self.tick()?;
                }
                R::Load(c) => {
                    self.tick()?;
                    self.ds.push(self.cells[*c].clone())
                }
                R::Store(c) => {
                    self.tick()?;
                    let x = self.pop()?;
                    self.cells[*c] = x;
                }
            }
        }
        Ok(Ctl::Next)
    }
    fn prim(&mut self, p: &str) -> Result<(), E> {
        match p {
            "dup" => {
                let x = self.ds.last().cloned().ok_or(E::Underflow)?;
                self.ds.push(x);
            }
            "drop" => {
                self.pop()?;
            }
            "swap" => {
                let n = self.ds.len();
                if n < 2 {
                    return Err(E::Underflow);
                }
                self.ds.swap(n - 1, n - 2);
            }
            "over" => {
                let n = self.ds.len();
                if n < 2 {
                    return Err(E::Underflow);
                }
                let x = self.ds[n - 2].clone();
                self.ds.push(x);
            }
            "rot" => {
                let n = self.ds.len();
                if n < 3 {
                    return Err(E::Underflow);
                }
                self.ds.swap(n - 1, n - 3);
            }
            "depth" => {
                let n = self.ds.len();
                self.ds.push(V::Int(n as i128));
            }
            "+" | "-" | "*" | "<" | "==" | ">" => {
                let b = self.pop()?;
                let a = self.pop()?;
                let b = match b {
                    V::Int(b) => b,
                    _ => return Err(E::Type),
                };
                let a = Self::int(a)?;
                self.ds.push(match p {
                    "+" => V::Int(a.wrapping_add(b)),
                    "-" => V::Int(a.wrapping_sub(b)),
                    "*" => V::Int(a.wrapping_mul(b)),
                    "<" => V::Flag(a < b),
                    ">" => V::Flag(a > b),
                    _ => V::Flag(a == b),
                });
            }
            "not" => match self.pop()? {
                V::Flag(b) => self.ds.push(V::Flag(!b)),
                _ => return Err(E::Type),
            },
            "print" => {
                let x = self.pop()?;
                self.out.push_str(&x.print());
            }
            _ => unreachable!("prim {}", p),
        }
        Ok(())
    }
}

// ---------------------------------------------------------------- generator
/// What the generator may use; each stratum of C01 is one Grammar.
#[derive(Clone)]
pub struct Grammar {
    pub atoms: Vec<N>,
    pub if_: bool,
    pub if_else: bool,
    pub case_arms: usize, // 0 = no case at all; k = up to k-1 arms... see gen_compound
    pub until: bool,
    pub while_: bool,
    pub repeat: bool,
    pub do_: bool,
    /// counted loops with their literal range built in: `HI LO do body loop` as one node
    pub do_ranges: Vec<(i64, i64)>,
    pub defs: Vec<&'static str>,
    pub locals: Vec<&'static str>,
    pub vars: Vec<&'static str>,
    pub index_words: bool,
    pub breaks: bool,
    pub max_depth: usize,
    /// opaque bracketed constructs: (open text, close text, acts as a counted loop for I/break)
    pub wraps: Vec<(&'static str, &'static str, bool)>,
}

#[derive(Clone)]
pub struct G {
    pub in_def: bool,
    pub loops: Vec<LoopK>,
    pub flows: usize,
    pub locals: Vec<&'static str>,
    pub defs: Vec<&'static str>,
    pub vars: Vec<&'static str>,
    pub depth: usize,
}

impl G {
    pub fn top() -> G {
        G { in_def: false, loops: vec![], flows: 0, locals: vec![], defs: vec![], vars: vec![], depth: 0 }
    }
}

type Sink<'a> = &'a mut dyn FnMut(&mut Vec<N>, &G);
type StmtSink<'a> = &'a mut dyn FnMut(N, &G);

fn atoms(gr: &Grammar, g: &G) -> Vec<N> {
    let mut a = gr.atoms.clone();
    if gr.index_words {
        let dd = g.loops.iter().filter(|k| **k == LoopK::Do).count();
        // inside enough lexical do-loops, or the after-loop probe where no loop is active
        if dd >= 1 || (g.loops.is_empty() && !g.in_def) {
            a.push(N::Idx(0));
        }
        if dd >= 2 {
            a.push(N::Idx(1));
        }
        if dd >= 3 {
            a.push(N::Idx(2));
        }
    }
    if gr.breaks {
        if let Some(LoopK::Repeat) | Some(LoopK::WhileBody) | Some(LoopK::Do) = g.loops.last() {
            a.push(N::Break);
        }
    }
    for l in &g.locals {
        if !a.contains(&N::Name(l)) {
            a.push(N::Name(l));
        }
    }
    if g.in_def {
        for l in &gr.locals {
            a.push(N::Local(l));
        }
    }
    for d in &g.defs {
        a.push(N::Name(d));
    }
    for v in &g.vars {
        a.push(N::Name(v));
        a.push(N::Store(v));
    }
    if g.flows == 0 {
        for v in &gr.vars {
            a.push(N::Var(v));
        }
    }
    a
}

fn after_atom(g: &G, a: &N) -> G {
    let mut g2 = g.clone();
    match a {
        N::Local(n) => g2.locals.push(n),
        N::Var(n) => {
            if !g2.vars.contains(n) {
                g2.vars.push(n)
            }
        }
        _ => {}
    }
    g2
}

/// all statement lists of exactly `s` nodes appended to `acc`, calling `f` for each
pub fn gen_seq(gr: &Grammar, s: usize, g: &G, acc: &mut Vec<N>, f: Sink) {
    if s == 0 {
        f(acc, g);
        return;
    }
    for k in 1..=s {
        gen_stmt(gr, k, g, None, &mut |n, g2| {
            acc.push(n);
            gen_seq(gr, s - k, g2, acc, f);
            acc.pop();
        });
    }
}

fn inner(g: &G, lk: Option<LoopK>) -> G {
    let mut g2 = g.clone();
    g2.depth += 1;
    g2.flows += 1;
    if let Some(l) = lk {
        g2.loops.push(l);
    }
    g2
}
fn after(g: &G, gin: &G) -> G {
    let mut g3 = g.clone();
    g3.locals = gin.locals.clone();
    g3.defs = gin.defs.clone();
    g3
}
fn carry(mut gi: G, from: &G) -> G {
    gi.locals = from.locals.clone();
    gi.defs = from.defs.clone();
    gi
}

pub const KINDS: usize = 10; // 0 atoms, 1 if, 2 if-else, 3 until, 4 repeat, 5 do, 6 while, 7 case, 8.. defs (one per name)

/// all single statements of exactly k nodes; `only` restricts to one construct kind
pub fn gen_stmt(gr: &Grammar, k: usize, g: &G, only: Option<usize>, emit: StmtSink) {
    let want = |i: usize| only.map(|o| o == i).unwrap_or(true);
    if k == 1 && want(0) {
        for a in atoms(gr, g) {
            let g2 = after_atom(g, &a);
            emit(a, &g2);
        }
    }
    if g.depth >= gr.max_depth {
        return;
    }
    let rest = k - 1;
    let mut tmp: Vec<N> = vec![];
    if gr.if_ && want(1) {
        gen_seq(gr, rest, &inner(g, None), &mut tmp, &mut |b, gb| emit(N::If(b.clone(), None), &after(g, gb)));
    }
    if gr.if_else && rest >= 1 && want(2) {
        for sa in 0..=rest - 1 {
            gen_seq(gr, sa, &inner(g, None), &mut tmp, &mut |a, ga| {
                let gi = carry(inner(g, None), ga);
                let a = a.clone();
                let mut tmp2 = vec![];
                gen_seq(gr, rest - 1 - sa, &gi, &mut tmp2, &mut |b, gb| emit(N::If(a.clone(), Some(b.clone())), &after(g, gb)));
            });
        }
    }
    if gr.until && want(3) {
        gen_seq(gr, rest, &inner(g, Some(LoopK::Until)), &mut tmp, &mut |b, gb| emit(N::Until(b.clone()), &after(g, gb)));
    }
    if gr.repeat && want(4) {
        gen_seq(gr, rest, &inner(g, Some(LoopK::Repeat)), &mut tmp, &mut |b, gb| emit(N::Repeat(b.clone()), &after(g, gb)));
    }
    if gr.do_ && want(5) {
        gen_seq(gr, rest, &inner(g, Some(LoopK::Do)), &mut tmp, &mut |b, gb| emit(N::Do(b.clone()), &after(g, gb)));
    }
    if want(5) {
        for (hi, lo) in &gr.do_ranges {
            gen_seq(gr, rest, &inner(g, Some(LoopK::Do)), &mut tmp, &mut |b, gb| emit(N::DoR(*hi, *lo, b.clone()), &after(g, gb)));
        }
    }
    if gr.while_ && want(6) {
        for sc in 0..=rest {
            gen_seq(gr, sc, &inner(g, Some(LoopK::WhileCond)), &mut tmp, &mut |c, gc| {
                let gi = carry(inner(g, Some(LoopK::WhileBody)), gc);
                let c = c.clone();
                let mut tmp2 = vec![];
                gen_seq(gr, rest - sc, &gi, &mut tmp2, &mut |b, gb| emit(N::While(c.clone(), b.clone()), &after(g, gb)));
            });
        }
    }
    if gr.case_arms >= 1 && want(7) {
        // zero arms: case DEFAULT endcase
        gen_seq(gr, rest, &inner(g, None), &mut tmp, &mut |d, gd| emit(N::Case(vec![], d.clone()), &after(g, gd)));
        // one arm: PRE of BODY endof DEFAULT (the arm costs one node)
        if rest >= 1 {
            let r = rest - 1;
            for sp in 0..=r {
                gen_seq(gr, sp, &inner(g, None), &mut tmp, &mut |p, gp| {
                    let p = p.clone();
                    for sb in 0..=(r - sp) {
                        let gi = carry(inner(g, None), gp);
                        let mut tmp2 = vec![];
                        gen_seq(gr, sb, &gi, &mut tmp2, &mut |b, gb| {
                            let b = b.clone();
                            let gdi = carry(inner(g, None), gb);
                            let mut tmp3 = vec![];
                            gen_seq(gr, r - sp - sb, &gdi, &mut tmp3, &mut |d, gd2| {
                                emit(N::Case(vec![(p.clone(), b.clone())], d.clone()), &after(g, gd2))
                            });
                        });
                    }
                });
            }
        }
        // two arms, each PRE a single literal; bodies and default share the remaining nodes
        if gr.case_arms >= 2 && rest >= 4 {
            let r = rest - 4;
            let lits = [N::Int(0), N::Int(1)];
            for p1 in &lits {
                for p2 in &lits {
                    for sb1 in 0..=r {
                        let mut t1 = vec![];
                        gen_seq(gr, sb1, &inner(g, None), &mut t1, &mut |b1, g1| {
                            let b1 = b1.clone();
                            for sb2 in 0..=(r - sb1) {
                                let mut t2 = vec![];
                                gen_seq(gr, sb2, &carry(inner(g, None), g1), &mut t2, &mut |b2, g2| {
                                    let b2 = b2.clone();
                                    let mut t3 = vec![];
                                    gen_seq(gr, r - sb1 - sb2, &carry(inner(g, None), g2), &mut t3, &mut |d, gd| {
                                        emit(
                                            N::Case(vec![(vec![p1.clone()], b1.clone()), (vec![p2.clone()], b2.clone())], d.clone()),
                                            &after(g, gd),
                                        )
                                    });
                                });
                            }
                        });
                    }
                }
            }
        }
    }
    // definitions: only at statement-list level of the top level or of a definition body
    if !gr.defs.is_empty() && g.loops.is_empty() && (g.flows == 0 || (g.in_def && g.flows == g.depth)) {
        for (di, nm) in gr.defs.iter().enumerate() {
            if !want(8 + di) {
                continue;
            }
            let mut gi = g.clone();
            gi.depth += 1;
            gi.flows += 1;
            gi.in_def = true;
            gi.locals = vec![];
            gi.loops = vec![];
            if !gi.defs.contains(nm) {
                gi.defs.push(nm);
            }
            gen_seq(gr, rest, &gi, &mut tmp, &mut |b, gb| {
                let mut g3 = g.clone();
                g3.defs = gb.defs.clone();
                emit(N::Def(nm, b.clone()), &g3)
            });
        }
    }
    gen_wraps(gr, rest, g, &want, emit);
}

fn gen_wraps(gr: &Grammar, rest: usize, g: &G, want: &dyn Fn(usize) -> bool, emit: StmtSink) {
    let mut tmp: Vec<N> = vec![];
    for (wi, (o, c, is_loop)) in gr.wraps.iter().enumerate() {
        if !want(8 + gr.defs.len() + wi) {
            continue;
        }
        let gi = inner(g, if *is_loop { Some(LoopK::Do) } else { None });
        gen_seq(gr, rest, &gi, &mut tmp, &mut |b, gb| emit(N::Wrap(o, b.clone(), c), &after(g, gb)));
    }
}

/// One independent slice of the space of programs with exactly `total` nodes.
#[derive(Clone)]
pub struct Task {
    pub prefix: Vec<N>,
    pub g: G,
    pub first: Option<(usize, usize)>, // next statement restricted to (size, kind)
    pub rest: usize,                    // nodes remaining after prefix (and after `first`)
}

/// Split programs of exactly `s` nodes into tasks: prefixes of up to `plen` atoms, then
/// either free continuation or a fixed (size, kind) of the next statement.
pub fn tasks(gr: &Grammar, s: usize, plen: usize, g0: &G) -> Vec<Task> {
    fn go(gr: &Grammar, s: usize, plen: usize, g: &G, acc: &mut Vec<N>, out: &mut Vec<Task>) {
        if s == 0 {
            out.push(Task { prefix: acc.clone(), g: g.clone(), first: None, rest: 0 });
            return;
        }
        for k in 1..=s {
            if k == 1 {
                for a in atoms(gr, g) {
                    let g2 = after_atom(g, &a);
                    acc.push(a);
                    if acc.len() < plen {
                        go(gr, s - 1, plen, &g2, acc, out);
                    } else {
                        out.push(Task { prefix: acc.clone(), g: g2, first: None, rest: s - 1 });
                    }
                    acc.pop();
                }
            }
            for kind in 1..(8 + gr.defs.len() + gr.wraps.len()) {
                out.push(Task { prefix: acc.clone(), g: g.clone(), first: Some((k, kind)), rest: s - k });
            }
        }
    }
    let mut out = vec![];
    let mut acc = vec![];
    go(gr, s, plen, g0, &mut acc, &mut out);
    out
}

pub fn run_task(gr: &Grammar, t: &Task, f: Sink) {
    let mut acc = t.prefix.clone();
    match t.first {
        None => gen_seq(gr, t.rest, &t.g, &mut acc, f),
        Some((k, kind)) => {
            let rest = t.rest;
            gen_stmt(gr, k, &t.g, Some(kind), &mut |n, g2| {
                acc.push(n);
                gen_seq(gr, rest, g2, &mut acc, f);
                acc.pop();
            });
        }
    }
}
