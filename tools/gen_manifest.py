#!/usr/bin/env python3
# regenerates /verif/MANIFEST.json from the table below
import json, subprocess

def repo_commits(prefix):
    out = subprocess.run(['git', '-C', '/repo', 'log', '--format=%h %s'], capture_output=True, text=True).stdout
    return [l.split()[0] for l in out.splitlines() if l.split(' ', 1)[1].startswith(prefix)]

CHECKS = {
 'C01': dict(
   technique='stateless exhaustive enumeration of all control-flow programs up to a node bound, each executed on the real interpreter and compared with an independent structural evaluator (reference model)',
   text='Every AST of five sub-grammars of the control-flow language (full grammar, definition bodies, construct skeletons, counted loops, definitions) up to 4-6 nodes (quick) / 5-7 nodes (thorough) is compiled and run by the real interpreter and by a big-step evaluator that never sees bytecode; result class, stack, global cells and output must agree, non-terminating programs must hit the instruction limit, after-loop index probes must fail. Complete below the bound, nothing sampled.',
   note='Trusts the structural evaluator in mc/src/cf.rs as the meaning of the source; programs above the node bound and values outside {0,1,2,3,true,false,nil} are not covered.',
   ref='DESIGN.md §4 C01'),
}

NOT_BUILT = {}

props = [json.loads(l) for l in open('/verif/properties.jsonl')]
checks = []
na = []
for p in props:
    i = p['id']
    if i in CHECKS:
        c = CHECKS[i]
        checks.append({
            'property_id': i,
            'quick_cmd': f'./check {i} quick',
            'thorough_cmd': f'./check {i} thorough',
            'evidence_file': f'/verif/evidence/{i}.json',
            'replay_cmd_template': './check replay {path}',
            'engine': 'xmc',
            'level_claimed': {'category': 'model_checking', 'text': c['text'], 'design_ref': c['ref']},
            'level_note': c['note'],
            'technique': c['technique'],
        })
    else:
        na.append({'property_id': i, 'reason': NOT_BUILT.get(i, 'check not built yet (work in progress); model checking applies, see DESIGN.md')})

m = {
 'version': 1,
 'setup_cmd': 'cd /verif/mc && CARGO_NET_OFFLINE=true cargo build --release --offline',
 'hooks': {
   'guard': 'cargo feature verif_hooks',
   'enable': 'mc/Cargo.toml depends on xeh = { path = "/repo", features = ["verif_hooks"] }; every ./check rebuilds from the working tree',
   'baseline_off_cmd': 'cd /repo && cargo test --workspace --no-fail-fast --offline',
   'source_commits': repo_commits('verif hooks'),
   'add_only': True,
 },
 'engines': [{
   'name': 'xmc', 'path': '/verif/mc',
   'serves_properties': [c['property_id'] for c in checks],
   'kind_free_text': 'hand-written Rust explorer: exhaustive enumeration / explicit-state BFS over the real interpreter (linked by path, hooks on), reference models in Rust, 16-way partitioning',
 }],
 'checks': checks,
 'not_applicable': na,
 'notes': 'Genuine defects repaired in /repo as fix: commits are listed in /verif/known_findings.txt (fixed: lines); open findings there are printed as KNOWN-FINDING by the checks.',
}
json.dump(m, open('/verif/MANIFEST.json', 'w'), indent=1)
print('wrote MANIFEST.json with', len(checks), 'checks')
